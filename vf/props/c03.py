"""C03 — passive emission models radiate exactly their documented totals.

Real ExcitationLine / RecombinationLine / ThermalCXLine / TotalRadiatedPower / Bremsstrahlung objects attached to a
real Plasma (three routes: constructor arguments, plasma.models, Ray.trace through a uniform slab) and a real
RadiationFunction material are driven with the recording mock provider of vf/mock_c03.py.  The oracle recomputes the
plasma state at the point from the case's profile descriptions and evaluates the *documented* expressions; it shares
no code with the models.  Monitors: total, rate arguments / lookup keys, zero guards, non-negativity, linearity
(metamorphic, oracle-free), additivity into a pre-filled spectrum.
"""
import math

import numpy as np

from vf import mock_c03 as M

ID = "C03"
LEVEL = "exploration"
RULE = ("random plasmas of 1-6 species (neutrals, bare nuclei, isotopes, elements sharing charge states; unrelated species "
        "may carry zero/negative densities) with anisotropic exponential profiles pinned at the evaluation point, "
        "n in 1e14..1e22, T in 0.1..1e4; one model per case (exc / rec / tcx / trp / brems / radfn), one route (direct, "
        "attached through plasma.models, Ray.trace through a uniform slab) and one scenario (all-positive, or exactly one "
        "guarded quantity zero/negative, or a zero coefficient); line windows cover every component by >= 12 sigma for all "
        "six line-shape classes, continuum windows are arbitrary; 13 % of the cases are sequences: one plasma + one model instance "
        "(direct or attached) lives through 3-8 legal changes (evaluation point on sign-changing profiles, provider via "
        "plasma.atomic_data / model.atomic_data, electron distribution, species replaced / added / removed, Bremsstrahlung "
        "gaunt_factor) and is re-judged against the current state after every change; windows of other width / bin count / position, incl. back to the first, are among the changes (RadiationFunction: the "
        "same material traced through up to 5 windows); 3 % drive the default tabulated free-free Gaunt factor (and synthetic "
        "log-linear tables) point-wise over (u, gamma^2, Z) far beyond the table on every side, at knots, at both sides of every "
        "branch switch and over T_e 0.1 eV..100 keV x 10 nm..10 um; Bremsstrahlung with the default Gaunt factor is driven in the "
        "tabulated and in the Born branch; 7 % are several-models cases: 2-3 models of one type "
        "(all five plasma models and RadiationFunction) on different plasmas / providers / parameters, built with their default "
        "helper objects, all constructed first and then evaluated interleaved (older after newer and vice versa), each judged "
        "against its own reference; a case is non-trivial when a deciding "
        "comparison ran on a non-zero expected emission or on a hostile (guard) input (sequences: a non-zero emission after at "
        "least one change); distinct = distinct case descriptors")
LEVEL_TEXT = ("Exploration by runtime reference-model monitoring with an argument recorder: each generated configuration is "
              "executed by the real models and compared with the documented expressions evaluated independently on the "
              "recorded plasma state; right level because the property quantifies over continuous plasma states and "
              "compositions and the code is deterministic")
LEVEL_NOTE = ("trusted: the closed-form expressions and CODATA-2018 constants in this module, the mock coefficient formulas "
              "(inputs, not code under test), line-component positions taken from the documented line-shape physics only to "
              "size the windows")
TECHNIQUE = ("runtime monitoring: per-call reference-model oracle + recording mock atomic-data provider (argument recorder) "
             "+ metamorphic linearity/additivity monitors over generated and hostile plasma states + history monitor (one model "
             "instance across state changes, judged against the current state, evaluations attributed to the current provider; "
             "several instances alive at once, each judged against its own reference, evaluations attributed to the evaluated "
             "instance's provider)")
ASSUMPTIONS = ["for thermal CX with several donors, a donor with non-positive density or temperature must contribute nothing and "
               "the remaining eligible donors still contribute (the documented total is a sum over donors; the zero clause is "
               "read per term)",
               "a non-positive temperature of the emitting species means zero emission for the Gaussian-family line shapes "
               "(width-less line); not judged for StarkBroadenedLine",
               "hydrogen-isotope neutral densities of mixed sign are not generated for TotalRadiatedPower (statement silent)",
               "bremsstrahlung bins are chosen so that the integrand varies by at most ~e^8 over a bin",
               "coefficients are non-negative (mock provider); negative coefficients are outside the statement",
               "default Gaunt factor: below the tabulated range the documented Born approximation, above it (u >= u_max or "
               "gamma^2 >= gamma^2_max) the classical limit 1 stated in the source; between knots only the envelope of the "
               "neighbouring tabulated values is demanded; the table file itself is trusted data"]
ASAN_MODULES = ['cherab.core.model.plasma.impact_excitation', 'cherab.core.model.plasma.recombination', 'cherab.core.model.plasma.thermal_cx', 'cherab.core.model.plasma.total_radiated_power', 'cherab.core.model.plasma.bremsstrahlung', 'cherab.core.model.lineshape.gaussian', 'cherab.core.model.lineshape.stark', 'cherab.core.model.lineshape.zeeman', 'cherab.core.model.lineshape.multiplet', 'cherab.tools.emitters.radiation_function']
ASAN = dict(cases=1500, workers=8, timecap=240)
QUICK = dict(cases=2000, workers=2, timecap=35)
THOROUGH = dict(cases=200000, workers=16, timecap=600)
REQUIRED = {"seq_evals": 400, "seq_nonzero_after_change": 150, "multi_evals": 200, "multi_nonzero": 120,
            "window_evals": 100, "gaunt_points": 700, "gaunt_envelope": 60, "total": 200, "rate_args": 200, "guard": 80, "nonneg": 200, "linearity": 100, "additivity": 30,
            "brems_bins": 100, "trp_bins": 50, "radfn_bins": 5}

# own CODATA-2018 constants (REFMATH)
E = 1.602176634e-19
C = 299792458.0
H = 6.62607015e-34
ME = 9.1093837015e-31
EPS0 = 8.8541878128e-12
AMU = 1.66053906660e-27
MUB = 5.7883818060e-5          # eV/T
TRACE_RTOL = 1e-6              # Ray.trace route: chord length known to ~1e-9 m only
HC_EV_NM = H * C * 1e9 / E

ZNUM = {"hydrogen": 1, "deuterium": 1, "tritium": 1, "helium": 2, "helium3": 2, "lithium": 3, "beryllium": 4, "boron": 5,
        "carbon": 6, "carbon13": 6, "nitrogen": 7, "oxygen": 8, "neon": 10, "neon22": 10, "argon": 18}
HYD = ("hydrogen", "deuterium", "tritium")
LINE_KINDS = ("exc", "rec", "tcx")
SHAPES = ("gaussian", "gaussian", "zeeman_triplet", "param_zeeman", "zeeman_multiplet", "multiplet", "stark")
TRANSITIONS = ([3, 2], [4, 2], [8, 7], ["2s1 3p1 3P4.0", "2s1 3s1 3S1.0"], ["5", "4"], [10, 9])


# ------------------------------------------------------------------------------------------------------------------
# generators
# ------------------------------------------------------------------------------------------------------------------

def _logu(rng, lo, hi):
    return float(10 ** rng.uniform(lo, hi))


def _nonpos(rng, scale):
    """A zero or negative value (exact zero half of the time)."""
    return 0.0 if rng.random() < 0.5 else -float(scale) * float(10 ** rng.uniform(-2, 0))


def _grad(rng, uniform):
    if uniform or rng.random() < 0.25:
        return [0.0, 0.0, 0.0]
    return [float(x) for x in rng.uniform(-1.5, 1.5, size=3)]


def _species(rng, el, q, uniform, n=None, t=None):
    return dict(el=el, q=int(q), n=_logu(rng, 14, 22) if n is None else n, t=_logu(rng, -1, 4) if t is None else t,
                gn=_grad(rng, uniform), gt=_grad(rng, uniform),
                v=[float(x) for x in rng.normal(size=3) * (0.0 if rng.random() < 0.3 else _logu(rng, 2, 5.5))])


def _extra_species(rng, have, uniform, count, hostile_ok=True, exclude=()):
    """Random further species: same element other charges, other elements sharing charges, isotopes, neutrals, bare."""
    out = []
    names = list(ZNUM)
    tries = 0
    while len(out) < count and tries < 50:
        tries += 1
        el = names[int(rng.integers(len(names)))]
        z = ZNUM[el]
        r = rng.random()
        q = 0 if r < 0.25 else (z if r < 0.5 else int(rng.integers(0, z + 1)))
        if (el, q) in have or (el, q) in exclude:
            continue
        have.add((el, q))
        sp = _species(rng, el, q, uniform)
        out.append(sp)
    return out


def gen_case(rng, tier):
    r = rng.random()
    if r < 0.13:
        return _gen_seq(rng)
    if r < 0.2:
        return _gen_multi(rng)
    if r < 0.23:
        return _gen_gaunt(rng)
    r = rng.random()
    kind = ("exc" if r < 0.17 else "rec" if r < 0.34 else "tcx" if r < 0.56 else "trp" if r < 0.74 else
            "brems" if r < 0.97 else "radfn")
    if kind == "radfn":
        return _gen_radfn(rng)
    r = rng.random()
    route = "direct" if r < 0.55 else ("attached" if r < 0.85 else "trace")
    uniform = route == "trace"
    case = dict(kind=kind, route=route, seed=int(rng.integers(1, 2 ** 31)),
                pt=[float(x) for x in rng.uniform(-0.4, 0.4, size=3)],
                dir=[float(x) for x in rng.normal(size=3)],
                ne=_logu(rng, 14, 22), te=_logu(rng, -1, 4), gne=_grad(rng, uniform), gte=_grad(rng, uniform),
                b=[0.0, 0.0, 0.0] if rng.random() < 0.3 else [float(x) for x in rng.normal(size=3) * _logu(rng, -2, 1)],
                scenario="positive", zero_keys=[], prefill=bool(rng.random() < 0.25), lin=None)
    if route == "trace":
        case["pt"] = [0.5, 0.0, 0.0]
        case["slab"] = dict(length=float(rng.uniform(0.2, 2.0)), step=float(rng.uniform(0.03, 0.3)),
                            angle=float(rng.uniform(-0.5, 0.5)) if rng.random() < 0.5 else 0.0)
    if kind in LINE_KINDS:
        _gen_line(rng, case, uniform)
    elif kind == "trp":
        _gen_trp(rng, case, uniform)
    else:
        _gen_brems(rng, case, uniform)
    # unrelated hostile species: densities / temperatures <= 0 on species the emission must not depend on
    for sp in case["species"]:
        if sp.get("role") is None and rng.random() < 0.2:
            if rng.random() < 0.5:
                sp["n"] = _nonpos(rng, sp["n"])
            elif kind != "tcx":      # for tcx every non-bare species is a donor, handled by scenarios
                sp["t"] = _nonpos(rng, sp["t"])
    return case


def _gen_line(rng, case, uniform):
    kind = case["kind"]
    names = list(ZNUM)
    el = names[int(rng.integers(len(names)))]
    z = ZNUM[el]
    q = int(rng.integers(0, z))
    tr = TRANSITIONS[int(rng.integers(len(TRANSITIONS)))]
    case["line"] = dict(el=el, q=q, tr=tr)
    tq = q if kind == "exc" else q + 1
    have = {(el, tq)}
    target = _species(rng, el, tq, uniform)
    target["role"] = "target"
    fast_cold = bool(rng.random() < 0.2)
    if fast_cold:
        # fast, cold emitter: Doppler shift of many line widths (the line is far from its rest wavelength)
        d = rng.normal(size=3)
        target["t"] = _logu(rng, -1, 0.3)
        target["v"] = [float(x) for x in d / np.linalg.norm(d) * _logu(rng, 5.3, 6)]
    species = [target]
    if rng.random() < 0.6 and kind != "exc":   # the ion that actually emits: present but not the density to use
        have.add((el, q))
        species.append(_species(rng, el, q, uniform))
    if kind == "exc" and rng.random() < 0.6:
        have.add((el, q + 1))
        species.append(_species(rng, el, q + 1, uniform))
    nextra = int(rng.integers(0, 5))
    if kind == "tcx":
        nextra = max(nextra, 1)
    species += _extra_species(rng, have, uniform, nextra)
    if kind == "tcx":
        for sp in species:
            if sp.get("role") is None and sp["q"] < ZNUM[sp["el"]]:
                sp["role"] = "donor"
        if not any(sp.get("role") == "donor" for sp in species) or rng.random() < 0.4:
            for iso in HYD:
                if (iso, 0) not in have and rng.random() < 0.6:
                    have.add((iso, 0))
                    d = _species(rng, iso, 0, uniform, t=_logu(rng, -1, 2))
                    d["role"] = "donor"
                    species.append(d)
                    break
    order = rng.permutation(len(species))
    case["species"] = [species[i] for i in order]
    # line shape
    shape = SHAPES[int(rng.integers(len(SHAPES)))]
    ls = dict(name=shape, margin=float(rng.uniform(12, 40)), bins=int(rng.integers(1, 400)))
    if fast_cold and rng.random() < 0.7:
        shape = "gaussian"
        ls = dict(name=shape, margin=float(rng.uniform(12, 16)), bins=ls["bins"])    # high-resolution window on the shifted line
    if shape == "param_zeeman":
        ls["params"] = [_logu(rng, -2.5, -1), float(rng.uniform(0, 1.5)), float(rng.uniform(-0.5, 0.5))]
    if shape == "multiplet":
        ratios = [[1.0], [0.5, 0.5], [0.5, 0.25, 0.25], [0.125, 0.5, 0.25, 0.125], [0.25, 0.25, 0.25, 0.125, 0.125]][int(rng.integers(5))]
        ls["offsets"] = [float(x) for x in rng.uniform(-2, 2, size=len(ratios))]
        ls["ratios"] = ratios
    if shape == "zeeman_multiplet":
        ls["pi"] = [[float(rng.uniform(-0.5, 0.5)), float(rng.uniform(0.1, 1))] for _ in range(int(rng.integers(1, 4)))]
        ls["sp"] = [[float(rng.uniform(0, 1.0)), float(rng.uniform(0.1, 1))] for _ in range(int(rng.integers(1, 4)))]
        ls["sm"] = [[float(rng.uniform(-1.0, 0)), float(rng.uniform(0.1, 1))] for _ in range(int(rng.integers(1, 4)))]
    if shape == "stark":
        ls["fwhm_l"] = _logu(rng, -3.5, -0.5)
        ls["aij"] = float(rng.uniform(0.5, 0.8))
        ls["bij"] = float(rng.uniform(0.01, 0.1))
        ls["resolution"] = float(rng.uniform(0.05, 0.25))   # bin width / max(FWHM_L, FWHM_G): see _line_setup
        target["t"] = _logu(rng, -1, 2)
        target["v"] = [x * 0.01 for x in target["v"]]
        case["b"] = [x * 0.05 for x in case["b"]]
    case["shape"] = ls
    # scenario
    r = rng.random()
    scen = "positive"
    if r > 0.5:
        opts = ["ne<=0", "te<=0", "target-density<=0", "target-temperature<=0", "zero-rate"]
        if kind == "tcx":
            opts += ["donor-density<0", "donor-density=0", "donor-temperature<=0", "donor-density<0", "donor-temperature<=0"]
        scen = opts[int(rng.integers(len(opts)))]
    donors = [sp for sp in case["species"] if sp.get("role") == "donor"]
    if scen == "ne<=0":
        case["ne"] = _nonpos(rng, case["ne"])
    elif scen == "te<=0":
        case["te"] = _nonpos(rng, case["te"])
    elif scen == "target-density<=0":
        target["n"] = _nonpos(rng, target["n"])
    elif scen == "target-temperature<=0":
        if shape == "stark":
            scen = "positive"
        else:
            target["t"] = _nonpos(rng, target["t"])
    elif scen == "zero-rate":
        if kind == "tcx":
            for d in donors:
                if rng.random() < 0.6 or len(donors) == 1:
                    case["zero_keys"].append(["tcx", [d["el"], d["q"], el, "->".join(str(x) for x in tr)]])
        else:
            case["zero_keys"].append([kind, [el, q, "->".join(str(x) for x in tr)]])
    elif scen.startswith("donor-") and donors:
        sel = [d for d in donors if rng.random() < 0.5] or [donors[int(rng.integers(len(donors)))]]
        for d in sel:
            if scen == "donor-density<0":
                d["n"] = -d["n"] * _logu(rng, -2, 0)
            elif scen == "donor-density=0":
                d["n"] = 0.0
            else:
                d["t"] = _nonpos(rng, d["t"])
    elif scen.startswith("donor-"):
        scen = "positive"
    case["scenario"] = scen
    if scen == "positive" and rng.random() < 0.6:
        involved = [i for i, sp in enumerate(case["species"]) if sp.get("role") in ("target", "donor")]
        others = [i for i, sp in enumerate(case["species"]) if sp.get("role") is None]
        pick = involved[int(rng.integers(len(involved)))]
        case["lin"] = dict(i=int(pick), k=_logu(rng, -2, 2),
                           other=int(others[int(rng.integers(len(others)))]) if others else None)


def _gen_trp(rng, case, uniform):
    names = list(ZNUM)
    el = names[int(rng.integers(len(names)))]
    z = ZNUM[el]
    q = int(rng.integers(0, z))
    case["elem"] = dict(el=el, q=q)
    have = {(el, q), (el, q + 1)}
    lo = _species(rng, el, q, uniform)
    lo["role"] = "lower"
    up = _species(rng, el, q + 1, uniform)
    up["role"] = "upper"
    species = [lo, up]
    for iso in HYD:
        if rng.random() < 0.55:
            if (iso, 0) in have:
                continue
            have.add((iso, 0))
            h = _species(rng, iso, 0, uniform)
            h["role"] = "hyd"
            species.append(h)
    if (el in HYD) and q == 0:
        lo["role"] = "lower+hyd"
    species += _extra_species(rng, have, uniform, int(rng.integers(0, 4)), exclude={(i, 0) for i in HYD})
    order = rng.permutation(len(species))
    case["species"] = [species[i] for i in order]
    lam0 = _logu(rng, 1, 3.3)
    case["window"] = dict(min=lam0, max=lam0 * (1 + _logu(rng, -3, 0.7)), bins=int(rng.integers(1, 65)))
    hyd = [sp for sp in case["species"] if "hyd" in sp.get("role", "")]
    scen = "positive"
    if rng.random() > 0.5:
        opts = ["ne<=0", "te<=0", "lower-density<=0", "upper-density<=0", "zero-rate"]
        if hyd and lo["role"] == "lower":
            opts.append("hyd-density<=0")
        scen = opts[int(rng.integers(len(opts)))]
    if scen == "ne<=0":
        case["ne"] = _nonpos(rng, case["ne"])
    elif scen == "te<=0":
        case["te"] = _nonpos(rng, case["te"])
    elif scen == "lower-density<=0":
        lo["n"] = 0.0 if lo["role"] == "lower+hyd" else _nonpos(rng, lo["n"])   # no mixed-sign hydrogen neutrals
    elif scen == "upper-density<=0":
        up["n"] = _nonpos(rng, up["n"])
    elif scen == "hyd-density<=0":
        for h in hyd:       # all of them, same sign class (mixed signs are not judged)
            h["n"] = _nonpos(rng, h["n"])
    elif scen == "zero-rate":
        for fam, key in (("plt", [el, q]), ("prb", [el, q + 1]), ("prc", [el, q + 1])):
            if rng.random() < 0.5:
                case["zero_keys"].append([fam, key])
    case["scenario"] = scen
    if scen == "positive" and rng.random() < 0.6:
        involved = [i for i, sp in enumerate(case["species"]) if sp.get("role")]
        others = [i for i, sp in enumerate(case["species"]) if sp.get("role") is None]
        case["lin"] = dict(i=int(involved[int(rng.integers(len(involved)))]), k=_logu(rng, -2, 2),
                           other=int(others[int(rng.integers(len(others)))]) if others else None)


def _gen_brems(rng, case, uniform):
    have = set()
    species = _extra_species(rng, have, uniform, int(rng.integers(1, 7)))
    if not any(sp["q"] > 0 for sp in species) and rng.random() < 0.8:
        species.append(_species(rng, "deuterium", 1, uniform))
    for sp in species:
        if sp["q"] > 0:
            sp["role"] = "ion"
    case["species"] = species
    r = rng.random()
    gaunt = "provider" if r < 0.45 else ("argument" if r < 0.8 else "real")
    r = rng.random()
    integ = "default" if r < 0.5 else ("tight" if r < 0.75 else "fixed")
    case["gaunt"] = gaunt
    case["integrator"] = integ
    born = False
    if gaunt == "real":
        # default (tabulated) Gaunt factor: wide T_e, and a share of windows in the Born branch u = hc/(T_e lambda) < 1e-4
        r = rng.random()
        if r < 0.35:
            born = True
            case["te"] = _logu(rng, 3.2, 5)
        elif r < 0.55:
            case["te"] = _logu(rng, 4, 5)
    te = case["te"]
    a = HC_EV_NM / te
    lam0 = max(_logu(rng, 1, 3.5), a / 250.0)
    if gaunt == "real":
        # no regime switch of the Gaunt factor inside the window (the integrand is discontinuous there)
        lam0 = max(lam0, 1.5 * HC_EV_NM / (te * 1e4))
        if born:
            lb = 1.05 * a * 1e4
            lam0 = float(lb * 10 ** rng.uniform(0, max(0.0, math.log10(1e4 / lb))))
    smax = 1.5 if rng.random() < 0.75 else 8.0
    rel = _logu(rng, -3, 0.5)
    bins = int(rng.integers(1, 65))
    width = lam0 * rel
    s = (width / bins / lam0) * max(abs(a / lam0 - 2.0), 2.0)
    if s > smax:
        width *= smax / s
    lam1 = lam0 + width
    if gaunt == "real":
        if not born:
            lam1 = min(lam1, 0.6 * HC_EV_NM / (te * 1e-4))
        bins = min(bins, 12)
        if lam1 <= lam0:
            case["gaunt"] = "provider"
            lam1 = lam0 + width
    case["window"] = dict(min=lam0, max=lam1, bins=bins)
    ions = [sp for sp in species if sp["q"] > 0]
    scen = "positive"
    if rng.random() > 0.6:
        opts = ["ne<=0", "te<=0"] + (["ion-density<=0"] if ions else [])
        scen = opts[int(rng.integers(len(opts)))]
    if scen == "ne<=0":
        case["ne"] = _nonpos(rng, case["ne"])
    elif scen == "te<=0":
        case["te"] = _nonpos(rng, case["te"])
    elif scen == "ion-density<=0":
        sel = [d for d in ions if rng.random() < 0.5] or [ions[int(rng.integers(len(ions)))]]
        for d in sel:
            d["n"] = _nonpos(rng, d["n"])
    case["scenario"] = scen
    if scen == "positive" and ions and rng.random() < 0.6:
        idx = [i for i, sp in enumerate(species) if sp["q"] > 0]
        others = [i for i, sp in enumerate(species) if sp["q"] == 0]
        case["lin"] = dict(i=int(idx[int(rng.integers(len(idx)))]), k=_logu(rng, -2, 2),
                           other=int(others[int(rng.integers(len(others)))]) if others else None)


def _gen_radfn(rng):
    lam0 = _logu(rng, 1, 3)
    return dict(kind="radfn", route="trace", scenario="positive" if rng.random() < 0.85 else "zero-power",
                power=_logu(rng, -3, 8), size=[float(x) for x in rng.uniform(0.2, 2.0, size=3)],
                step=float(rng.uniform(0.02, 0.3)), angle=float(rng.uniform(-0.4, 0.4)) if rng.random() < 0.5 else 0.0,
                window=dict(min=lam0, max=lam0 * (1 + _logu(rng, -3, 0.7)), bins=int(rng.integers(1, 40))),
                windows=[_cont_window(rng) for _ in range(int(rng.integers(0, 4)))])


def _cont_window(rng, hi=3.3):
    lam0 = _logu(rng, 1, hi)
    return dict(min=lam0, max=lam0 * (1 + _logu(rng, -3, 0.7)), bins=int(rng.integers(1, 65)))


def fixed_cases(tier):
    sp = lambda el, q, n, t, role=None, g=(0.3, -0.2, 0.5): dict(el=el, q=q, n=n, t=t, gn=list(g), gt=[-0.1, 0.4, 0.2],
                                                                   v=[1e4, -2e4, 5e3], **({"role": role} if role else {}))
    base = dict(route="direct", seed=12345, pt=[0.1, -0.2, 0.3], dir=[0.3, -0.5, 0.8], ne=3e19, te=45.0,
                gne=[0.2, 0.1, -0.3], gte=[0.0, 0.3, 0.1], b=[0.5, 1.0, -2.0], scenario="positive", zero_keys=[],
                prefill=True, lin=None)
    line = dict(el="carbon", q=5, tr=[8, 7])
    shape = dict(name="gaussian", margin=15.0, bins=64)
    tcx_species = [sp("carbon", 6, 2e17, 300.0, "target"), sp("deuterium", 0, 4e16, 3.0, "donor"),
                   sp("carbon", 5, 1e17, 250.0, "donor"), sp("deuterium", 1, 3e19, 400.0), sp("helium", 2, 1e18, 350.0)]
    out = [
        dict(base, kind="exc", line=line, shape=shape, species=[sp("carbon", 5, 2e17, 300.0, "target"), sp("carbon", 6, 5e17, 300.0)],
             lin=dict(i=0, k=3.0, other=1)),
        dict(base, kind="rec", line=line, shape=dict(shape, name="zeeman_triplet"),
             species=[sp("carbon", 5, 2e17, 300.0), sp("carbon", 6, 5e17, 310.0, "target")], lin=dict(i=1, k=0.25, other=0)),
        dict(base, kind="tcx", line=line, shape=shape, species=tcx_species, lin=dict(i=1, k=7.0, other=3)),
        dict(base, kind="tcx", line=line, shape=shape, scenario="donor-density<0",
             species=[dict(s, n=-s["n"]) if s["el"] == "deuterium" and s["q"] == 0 else s for s in tcx_species]),
        dict(base, kind="tcx", line=line, shape=shape, scenario="donor-temperature<=0",
             species=[dict(s, t=0.0) if s["el"] == "deuterium" and s["q"] == 0 else s for s in tcx_species]),
        dict(base, kind="trp", elem=dict(el="nitrogen", q=6), window=dict(min=500.0, max=550.0, bins=7),
             species=[sp("nitrogen", 6, 5e18, 1100.0, "lower"), sp("nitrogen", 7, 1e19, 1100.0, "upper"),
                      sp("hydrogen", 0, 1e18, 5.0, "hyd"), sp("deuterium", 0, 2e18, 5.0, "hyd"), sp("deuterium", 1, 3e19, 900.0)],
             lin=dict(i=1, k=2.5, other=4)),
        dict(base, kind="brems", gaunt="provider", integrator="default", window=dict(min=400.0, max=800.0, bins=32),
             species=[sp("deuterium", 1, 1e19, 2000.0, "ion"), sp("nitrogen", 7, 1e18, 2000.0, "ion"), sp("deuterium", 0, 1e17, 3.0)],
             te=2000.0, lin=dict(i=1, k=4.0, other=2)),
        dict(base, kind="brems", gaunt="real", integrator="tight", window=dict(min=400.0, max=420.0, bins=8),
             species=[sp("deuterium", 1, 1e19, 2000.0, "ion"), sp("carbon", 6, 1e18, 2000.0, "ion")], te=200.0),
        dict(kind="radfn", route="trace", scenario="positive", power=1.5e5, size=[1.0, 0.7, 0.9], step=0.05, angle=0.2,
             window=dict(min=300.0, max=700.0, bins=5)),
    ]
    return out


# ------------------------------------------------------------------------------------------------------------------
# harness-side plasma description (inputs): profiles pinned at the evaluation point
# ------------------------------------------------------------------------------------------------------------------

class Prof:
    """f(r) = scale * v * shape(g . (r - r0)), shape = exp (default), 1 + a ("lin": changes sign) or max(0, 1 + a)
    ("clip": exact zeros); f(r0) = scale * v exactly."""

    def __init__(self, v, g, r0, kind="exp"):
        self.v, self.g, self.r0, self.scale, self.kind = float(v), tuple(g), tuple(r0), 1.0, kind

    def __call__(self, x, y, z):
        g, r0 = self.g, self.r0
        a = g[0] * (x - r0[0]) + g[1] * (y - r0[1]) + g[2] * (z - r0[2])
        if self.kind == "exp":
            return self.scale * self.v * math.exp(a)
        if self.kind == "lin":
            return self.scale * self.v * (1.0 + a)
        return self.scale * self.v * max(0.0, 1.0 + a)


def _tr_key(tr):
    return "->".join(str(x) for x in tr)


def _element(name):
    from cherab.core.atomic import elements
    return getattr(elements, name)


def _clip_box(o, d, lo, hi):
    """Chord length of the ray o + t d (t >= 0, |d| = 1) inside the axis-aligned box [lo, hi]."""
    t0, t1 = 0.0, float("inf")
    for i in range(3):
        if d[i] == 0.0:
            if not (lo[i] < o[i] < hi[i]):
                return 0.0
            continue
        a, b = (lo[i] - o[i]) / d[i], (hi[i] - o[i]) / d[i]
        if a > b:
            a, b = b, a
        t0, t1 = max(t0, a), min(t1, b)
    return max(0.0, t1 - t0)


class Scene:
    """Real cherab objects for one case + the independently evaluated plasma state at the point."""

    def __init__(self, case):
        from raysect.core import Point3D, Vector3D
        from cherab.core import Plasma, Species, Maxwellian
        self.case = case
        pt = case["pt"]
        self.ne_p = Prof(case["ne"], case["gne"], pt)
        self.te_p = Prof(case["te"], case["gte"], pt)
        self.n_p, self.t_p = [], []
        plasma = Plasma()
        plasma.electron_distribution = Maxwellian(self.ne_p, self.te_p, Vector3D(0, 0, 0), ME)
        plasma.b_field = Vector3D(*case["b"])
        comp = []
        lin = case.get("lin") or {}
        mutable = {lin.get("i"), lin.get("other")}
        for i, sp in enumerate(case["species"]):
            el = _element(sp["el"])
            npf, tpf = Prof(sp["n"], sp["gn"], pt), Prof(sp["t"], sp["gt"], pt)
            self.n_p.append(npf)
            self.t_p.append(tpf)
            # constants go through Constant3D, everything else through the Python-callable wrapper
            dens = sp["n"] if (not any(sp["gn"]) and i not in mutable) else npf
            temp = sp["t"] if not any(sp["gt"]) else tpf
            comp.append(Species(el, sp["q"], Maxwellian(dens, temp, Vector3D(*sp["v"]), el.atomic_weight * AMU)))
        plasma.composition = comp
        self.plasma = plasma
        self.point = Point3D(*pt)
        d = np.asarray(case["dir"], dtype=float)
        self.direction = Vector3D(*d)
        self.provider = M.make_provider(case["seed"], zero_keys=[(f, tuple(k)) for f, k in case["zero_keys"]],
                                        real_gaunt=case.get("gaunt") == "real")
        self.world = None

    # plasma state at the point, from the case description only
    def state(self):
        pt = self.case["pt"]
        return dict(ne=self.ne_p(*pt), te=self.te_p(*pt), n=[p(*pt) for p in self.n_p], t=[p(*pt) for p in self.t_p])

    def attach(self, model):
        from raysect.core import Point3D
        from raysect.primitive import Box
        case = self.case
        if case["route"] == "direct":
            model.plasma = self.plasma
            model.atomic_data = self.provider
            return
        if case["route"] == "attached":
            self.plasma.geometry = Box(Point3D(-1, -1, -1), Point3D(1, 1, 1))
        else:
            from raysect.optical import World
            from raysect.optical.material.emitter.inhomogeneous import NumericalIntegrator
            sl = case["slab"]
            self.world = World()
            self.plasma.parent = self.world
            self.plasma.geometry = Box(Point3D(0, -2, -2), Point3D(sl["length"], 2, 2))
            self.plasma.integrator = NumericalIntegrator(step=sl["step"])
        self.plasma.atomic_data = self.provider
        self.plasma.models = [model]

    def observe(self, model, window, prefill=None):
        """One observation: samples added by the model (W/m^3/sr/nm for emission(), W/m^2/sr/nm for a traced ray)
        and the path length multiplying the emissivity."""
        from raysect.optical import Spectrum, Ray
        from raysect.core import Point3D, Vector3D
        if self.case["route"] != "trace":
            s = Spectrum(window["min"], window["max"], window["bins"])
            if prefill is not None:
                s.samples[:] = prefill
            out = model.emission(self.point, self.direction, s)
            return np.array(out.samples, dtype=float), 1.0
        sl = self.case["slab"]
        a = sl["angle"]
        d = (-math.cos(a), math.sin(a), 0.0)
        o = (sl["length"] / 2 - 2.5 * sl["length"] * d[0], -2.5 * sl["length"] * d[1], 0.0)
        ray = Ray(origin=Point3D(*o), direction=Vector3D(*d), min_wavelength=window["min"], max_wavelength=window["max"],
                  bins=window["bins"])
        out = ray.trace(self.world)
        chord = _clip_box(o, d, (0.0, -2.0, -2.0), (sl["length"], 2.0, 2.0))
        return np.array(out.samples, dtype=float), chord


# ------------------------------------------------------------------------------------------------------------------
# line models
# ------------------------------------------------------------------------------------------------------------------

def _doppler_factors(case, v):
    """Factors applied to the rest-frame component positions to bound the Doppler-shifted line.  Two thirds of the
    emission() cases follow the line: the window is centred on the shifted position lambda (1 + v.d/c) for the actual
    observation direction (for a fast cold emitter the rest wavelength is then many window widths away); the others, and
    traced rays, allow for |v|/c on either side."""
    vmag = math.sqrt(sum(x * x for x in v))
    if case["route"] == "trace" or case["seed"] % 3 == 0:
        return 1.0 - vmag / C, 1.0 + vmag / C
    d = case["dir"]
    f = 1.0 + sum(a * b for a, b in zip(v, d)) / math.sqrt(sum(x * x for x in d)) / C
    return f, f


def _line_setup(case, st, scene):
    """Model constructor arguments and the spectral window that contains every component of the line."""
    from cherab.core import model as cm
    from cherab.core.atomic.zeeman import ZeemanStructure
    ln, ls = case["line"], case["shape"]
    lam0 = M.wavelength_value(case["seed"], (ln["el"], ln["q"], _tr_key(ln["tr"])))
    ti = [i for i, sp in enumerate(case["species"]) if sp.get("role") == "target"][0]
    tsp = case["species"][ti]
    ts = st["t"][ti]
    aw = _element(ln["el"]).atomic_weight
    bmag = math.sqrt(sum(x * x for x in case["b"]))
    flo, fhi = _doppler_factors(case, tsp["v"])
    sigma = math.sqrt(ts * E / (aw * AMU)) * lam0 / C if ts > 0 else 0.0
    centres = [lam0]
    args, kwargs, cls = [], {}, None
    extra = 0.0
    name = ls["name"]
    if name == "gaussian":
        cls = cm.GaussianLine if case["seed"] % 2 else None
    elif name in ("zeeman_triplet", "stark"):
        cls = cm.ZeemanTriplet if name == "zeeman_triplet" else cm.StarkBroadenedLine
        e0 = HC_EV_NM / lam0
        centres += [HC_EV_NM / (e0 - MUB * bmag), HC_EV_NM / (e0 + MUB * bmag)]
        if name == "stark":
            ne, te = st["ne"], st["te"]
            cij = ls["fwhm_l"] / (ne ** ls["aij"] / te ** ls["bij"]) if ne > 0 and te > 0 else 1e-20
            kwargs = dict(stark_model_coefficients=(cij, ls["aij"], ls["bij"]))
            wmax = max(ls["fwhm_l"], 2.3548200450309493 * sigma)
            extra = 100.0 * wmax
    elif name == "param_zeeman":
        cls = cm.ParametrisedZeemanTriplet
        al, be, ga = ls["params"]
        kwargs = dict(line_parameters=(al, be, ga))
        centres += [lam0 + 0.5 * al * bmag, lam0 - 0.5 * al * bmag]
        if ts > 0:
            sigma *= math.sqrt(1.0 + be * be * ts ** (2.0 * ga))
    elif name == "multiplet":
        cls = cm.MultipletLineShape
        centres = [lam0 + o for o in ls["offsets"]]
        args = [[centres, ls["ratios"]]]
    elif name == "zeeman_multiplet":
        cls = cm.ZeemanMultiplet
        comp = lambda lst: [(lam0 + o, r) for o, r in lst]
        kwargs = dict(zeeman_structure=ZeemanStructure(comp(ls["pi"]), comp(ls["sp"]), comp(ls["sm"])))
        centres += [lam0 + o for o, _ in ls["pi"] + ls["sp"] + ls["sm"]]
    half = ls["margin"] * sigma + extra + 1e-3
    lo = min(centres) * flo - half
    hi = max(centres) * fhi + half
    window = dict(min=lo, max=hi, bins=ls["bins"])
    if name == "stark":
        # the modified Lorentzian is integrated per bin by GaussianQuadrature(1e-5, max order 50), which is only accurate
        # (<= 7e-5 of the line, probed) when a bin is narrower than ~0.3 FWHM; coarser bins are C02's business
        window["bins"] = int(math.ceil((hi - lo) / (ls["resolution"] * wmax)))
    from cherab.core.atomic import Line
    line = Line(_element(ln["el"]), ln["q"], tuple(ln["tr"]))
    mk = dict(exc=cm.ExcitationLine, rec=cm.RecombinationLine, tcx=cm.ThermalCXLine)[case["kind"]]
    model = mk(line, lineshape=cls, lineshape_args=args, lineshape_kwargs=kwargs)
    return model, window, ti


def _line_oracle(case, st):
    """Documented wavelength-integrated emission; returns (want, accepted alternatives, per-term dict)."""
    kind, ln, seed = case["kind"], case["line"], case["seed"]
    zero = set((f, tuple(k)) for f, k in case["zero_keys"])
    ne, te = st["ne"], st["te"]
    ti = [i for i, sp in enumerate(case["species"]) if sp.get("role") == "target"][0]
    ni, ts = st["n"][ti], st["t"][ti]
    trk = _tr_key(ln["tr"])
    dead = ne <= 0 or te <= 0 or ni <= 0 or (ts <= 0 and case["shape"]["name"] != "stark")
    if kind in ("exc", "rec"):
        key = (ln["el"], ln["q"], trk)
        if dead:
            return 0.0, [], {}
        return M.rate_value(seed, kind, key, (ne, te), (kind, key) in zero) * ne * ni / (4 * math.pi), [], {}
    terms, hostile = {}, False
    for i, sp in enumerate(case["species"]):
        if i == ti or sp["q"] >= ZNUM[sp["el"]]:
            continue
        key = (sp["el"], sp["q"], ln["el"], trk)
        nd, td = st["n"][i], st["t"][i]
        if nd <= 0 or td <= 0:
            hostile = hostile or nd < 0 or td <= 0
            terms[key] = 0.0
        else:
            terms[key] = nd * M.rate_value(seed, "tcx", key, (ne, te, td), ("tcx", key) in zero)
    if dead:
        return 0.0, [], terms
    want = ni * sum(terms.values()) / (4 * math.pi)
    # A donor with non-positive density or temperature contributes nothing; the other eligible donors still do
    # (the documented total is a sum over donors).  An earlier version also accepted an identically zero total here;
    # that let a change which drops every other donor's term slip through, so the reading is now per term.
    return want, [], terms


def _events(provider, family):
    ev = {}
    for e in provider.events:
        if e[0] == "eval" and e[1] == family:
            ev.setdefault(e[2], []).append(e[3])
    return ev


def _check_rate_args(ctx, provider, family, key, want_args, kind, detail):
    """Every recorded evaluation of `family` must be on the documented key with the plasma values as arguments."""
    ev = _events(provider, family)
    ok_key = True
    for k, calls in ev.items():
        if k != key:
            ok_key = False
            ctx.viol("%s:rate-key:%s" % (kind, family), "coefficient evaluated for lookup key %r, documented key is %r" % (k, key), **detail)
            continue
        arr = np.array(calls, dtype=float)
        ctx.close(arr, np.broadcast_to(np.array(want_args, dtype=float), arr.shape), "%s:rate-args:%s" % (kind, family),
                  "coefficient %s evaluated at arguments other than the plasma values at the point" % family,
                  rtol=1e-14, monitor="rate_args", **detail)
    return ok_key, len(ev.get(key, []))


def _run_line(case, ctx):
    kind, scen = case["kind"], case["scenario"]
    scene = Scene(case)
    st = scene.state()
    model, window, ti = _line_setup(case, st, scene)
    shape = case["shape"]["name"]
    ctx.cls("shape:" + shape)
    if window["min"] < 2.0:
        ctx.skip("line window would reach non-positive wavelengths")
        return
    if window["bins"] > 8000:
        ctx.skip("resolved Stark window would need more than 8000 bins")
        return
    scene.attach(model)
    got, path = scene.observe(model, window)
    dl = (window["max"] - window["min"]) / window["bins"]
    want, alts, terms = _line_oracle(case, st)
    want *= path
    total = float(got.sum() * dl)
    detail = dict(route=case["route"], shape=shape, scenario=scen)
    finite = ctx.check(bool(np.all(np.isfinite(got))), "%s:non-finite" % kind, "non-finite sample in the emitted spectrum",
                       monitor="nonneg", **detail)
    if not finite:
        return
    key = "%s:total" % kind if scen in ("positive", "zero-rate") else "%s:guard:%s" % (kind, scen)
    if scen not in ("positive", "zero-rate"):
        ctx.nontrivial()
    if want == 0.0 and not alts:
        # guarded quantity non-positive (or identically zero coefficient): the spectrum must stay untouched
        if scen == "zero-rate":
            ctx.check(bool(np.all(got == 0.0)), key, "non-zero emission although every coefficient involved is identically zero",
                      monitor="total", total=total, **detail)
        else:
            ctx.check(bool(np.all(got == 0.0)), key, "non-zero emission although a density/temperature the emission depends on is non-positive",
                      monitor="guard", total=total, min_sample=float(got.min()), **detail)
    else:
        ctx.nontrivial(want != 0.0)
        # traced rays: Raysect's hit points differ from the analytic chord by ~1e-9 m (see DESIGN C10)
        rt = 1e-9 if case["route"] != "trace" else TRACE_RTOL
        lo_f, hi_f = (1 - rt, 1 + rt) if shape != "stark" else (1 - 1e-3, 1 + 1e-3)
        cands = [want] + [a * path for a in alts]
        best = None
        for c in cands:
            centre = c * (lo_f + hi_f) / 2.0
            half = abs(c) * (hi_f - lo_f) / 2.0
            r = abs(total - centre) / half if half > 0 else (0.0 if total == 0.0 and bool(np.all(got == 0.0)) else float("inf"))
            best = r if best is None else min(best, r)
        mon = "total" if scen in ("positive", "zero-rate") else "guard"
        ctx.mon(mon)
        if best <= 1.0:
            # (donor scenarios get their own margin: the open ThermalCXLine finding moves the total continuously, so
            #  unguarded donors with a tiny weight pass arbitrarily close to the tolerance)
            mname = "guard_tcx_donor" if scen.startswith("donor-") else mon
            ctx.margin(mname if shape != "stark" else mname + "_stark", best)
        if best > 1.0:
            k2 = key
            if kind == "tcx" and scen == "positive":
                k2 = _tcx_diagnose(case, scene, st, ti)
            ctx.viol(k2, "wavelength-integrated emission differs from the documented expression" if scen in ("positive", "zero-rate") else
                     "emission with a non-positive density/temperature is neither zero nor the sum of the remaining terms",
                     got=total, want=want, alternatives=cands[1:], rel=abs(total - want) / (abs(want) + 1e-300),
                     min_sample=float(got.min()), **detail)
    # never negative for non-negative coefficients
    peak = float(np.abs(got).max())
    ctx.check(bool(got.min() >= -1e-12 * peak), "%s:negative-sample" % kind if scen in ("positive", "zero-rate") else key,
              "negative spectral sample although all coefficients are non-negative", monitor="nonneg",
              min_sample=float(got.min()), peak=peak, **detail)
    # which arguments reached which coefficient
    if kind in ("exc", "rec"):
        ln = case["line"]
        _, n = _check_rate_args(ctx, scene.provider, kind, (ln["el"], ln["q"], _tr_key(ln["tr"])), (st["ne"], st["te"]), kind, detail)
        if want != 0.0:
            ctx.check(n > 0, "%s:rate-not-evaluated" % kind, "non-zero expected emission but the documented coefficient was never evaluated",
                      monitor="rate_args", **detail)
    else:
        ev = _events(scene.provider, "tcx")
        bykey = {(sp["el"], sp["q"], case["line"]["el"], _tr_key(case["line"]["tr"])): i for i, sp in enumerate(case["species"])}
        for k, calls in ev.items():
            if k not in bykey:
                ctx.viol("tcx:rate-key:tcx", "thermal CX coefficient evaluated for a donor that is not in the plasma: %r" % (k,), **detail)
                continue
            arr = np.array(calls, dtype=float)
            wantargs = (st["ne"], st["te"], st["t"][bykey[k]])
            ctx.close(arr, np.broadcast_to(np.array(wantargs), arr.shape), "tcx:rate-args:tcx",
                      "thermal CX coefficient evaluated at arguments other than (n_e, T_e, T_donor) at the point", rtol=1e-14,
                      monitor="rate_args", **detail)
        for e in scene.provider.events:
            if e[0] == "access" and e[1] == "tcx":
                ctx.check(e[3] == case["line"]["q"] + 1, "tcx:accessor-receiver-charge",
                          "thermal_cx_pec requested with a receiver charge other than the charge of the receiver species (line charge + 1)",
                          monitor="rate_args", got=e[3], want=case["line"]["q"] + 1)
    if case["route"] != "trace":
        _additivity(case, ctx, scene, model, window, got, kind)
    _linearity(case, ctx, scene, model, window, got, kind, exact=True)


def _tcx_diagnose(case, scene, st, ti):
    ev = _events(scene.provider, "tcx")
    ln = case["line"]
    elig, inelig = set(), set()
    for i, sp in enumerate(case["species"]):
        k = (sp["el"], sp["q"], ln["el"], _tr_key(ln["tr"]))
        (elig if (i != ti and sp["q"] < ZNUM[sp["el"]]) else inelig).add(k)
    if any(k in inelig for k in ev):
        return "tcx:ineligible-donor-included"
    if any(k not in ev for k in elig):
        return "tcx:eligible-donor-missing"
    return "tcx:total"


# ------------------------------------------------------------------------------------------------------------------
# metamorphic monitors (oracle-free)
# ------------------------------------------------------------------------------------------------------------------

def _additivity(case, ctx, scene, model, window, got, kind):
    if not case.get("prefill"):
        return
    rng = np.random.default_rng(case["seed"])
    scale = float(np.abs(got).max()) or 1.0
    pre = scale * rng.uniform(0.0, 2.0, size=got.size)
    out, _ = scene.observe(model, window, prefill=pre)
    ctx.close(out, pre + got, "%s:not-additive" % kind, "emission() does not add its contribution to the spectrum it is given",
              atol=1e-14 * (scale + np.abs(pre).max()), monitor="additivity", route=case["route"])


def _linearity(case, ctx, scene, model, window, got, kind, exact, rtol=None):
    lin = case.get("lin")
    if not lin:
        return
    i, k = lin["i"], lin["k"]
    role = case["species"][i].get("role", "ion")
    p = scene.n_p[i]
    p.scale = 0.0
    e0, _ = scene.observe(model, window)
    p.scale = k
    ek, _ = scene.observe(model, window)
    p.scale = 1.0
    rt = 1e-11 if exact else rtol
    tol = rt * (np.abs(e0) + (1 + k) * np.abs(got) + np.abs(ek)) + 1e-300
    err = np.abs((ek - e0) - k * (got - e0))
    ctx.mon("linearity", int(got.size))
    ctx.margin("linearity", float((err / tol).max()))
    if (err > tol).any():
        j = int(np.argmax(err / tol))
        ctx.viol("%s:linearity:%s" % (kind, role), "emission is not linear in the density of an involved species "
                 "(E(k n) - E(0) != k (E(n) - E(0)))", k=k, e0=float(e0[j]), e1=float(got[j]), ek=float(ek[j]), route=case["route"])
    if np.abs(got).max() > 0:
        ctx.nontrivial()
    o = lin.get("other")
    if o is not None:
        scene.n_p[o].scale = k
        eo, _ = scene.observe(model, window)
        scene.n_p[o].scale = 1.0
        ctx.check(bool(np.array_equal(eo, got)), "%s:unrelated-species-dependence" % kind,
                  "emission changed when the density of a species it does not involve was scaled", monitor="linearity",
                  species=[case["species"][o]["el"], case["species"][o]["q"]], route=case["route"])


# ------------------------------------------------------------------------------------------------------------------
# total radiated power
# ------------------------------------------------------------------------------------------------------------------

def _trp_power_density(case, st):
    """Documented three-term power density [W/m^3] for the state `st`; None when the statement is silent."""
    seed, el, q = case["seed"], case["elem"]["el"], case["elem"]["q"]
    zero = set((f, tuple(k)) for f, k in case["zero_keys"])
    ne, te = st["ne"], st["te"]
    ni = nu = None
    hyd = []
    for i, sp in enumerate(case["species"]):
        if (sp["el"], sp["q"]) == (el, q):
            ni = st["n"][i]
        if (sp["el"], sp["q"]) == (el, q + 1):
            nu = st["n"][i]
        if sp["el"] in HYD and sp["q"] == 0:
            hyd.append(st["n"][i])
    if hyd and min(hyd) < 0 < max(hyd):
        return None
    nhyd = sum(hyd)
    pd = 0.0
    if ne > 0 and te > 0:
        if ni > 0:
            pd += M.rate_value(seed, "plt", (el, q), (ne, te), ("plt", (el, q)) in zero) * ne * ni
        if nu > 0:
            pd += M.rate_value(seed, "prb", (el, q + 1), (ne, te), ("prb", (el, q + 1)) in zero) * ne * nu
        if nu > 0 and nhyd > 0:
            pd += M.rate_value(seed, "prc", (el, q + 1), (ne, te), ("prc", (el, q + 1)) in zero) * nhyd * nu
    return pd


def _run_trp(case, ctx):
    from cherab.core.model import TotalRadiatedPower
    scen, seed = case["scenario"], case["seed"]
    scene = Scene(case)
    st = scene.state()
    el, q = case["elem"]["el"], case["elem"]["q"]
    model = TotalRadiatedPower(_element(el), q)
    scene.attach(model)
    window = case["window"]
    got, path = scene.observe(model, window)
    ne, te = st["ne"], st["te"]
    detail = dict(route=case["route"], scenario=scen)
    pd = _trp_power_density(case, st)
    if pd is None:
        ctx.skip("hydrogen-isotope neutral densities of mixed sign (statement silent)")
        return
    want = pd / (4 * math.pi * (window["max"] - window["min"])) * path
    key = "trp:total" if scen in ("positive", "zero-rate") else "trp:guard:%s" % scen
    if not ctx.check(bool(np.all(np.isfinite(got))), "trp:non-finite", "non-finite sample", monitor="nonneg", **detail):
        return
    ctx.nontrivial(want != 0.0 or scen not in ("positive", "zero-rate"))
    if scen not in ("positive", "zero-rate"):
        ctx.mon("guard")
    if want == 0.0:
        ctx.check(bool(np.all(got == 0.0)), key, "non-zero total radiated power although every documented term vanishes",
                  monitor="trp_bins", max_sample=float(np.abs(got).max()), **detail)
    else:
        ctx.close(got, np.full(got.size, want), key, "total radiated power is not the documented three-term sum spread uniformly "
                  "over the spectral window", rtol=1e-12 if case["route"] != "trace" else TRACE_RTOL, monitor="trp_bins", **detail)
        ctx.mon("total")
    ctx.check(bool(got.min() >= 0.0), "trp:negative-sample" if scen in ("positive", "zero-rate") else key,
              "negative sample although all coefficients are non-negative", monitor="nonneg", min_sample=float(got.min()), **detail)
    for fam, k in (("plt", (el, q)), ("prb", (el, q + 1)), ("prc", (el, q + 1))):
        _check_rate_args(ctx, scene.provider, fam, k, (ne, te), "trp", detail)
    if case["route"] != "trace":
        _additivity(case, ctx, scene, model, window, got, "trp")
    _linearity(case, ctx, scene, model, window, got, "trp", exact=True)


# ------------------------------------------------------------------------------------------------------------------
# bremsstrahlung (Hutchinson 5.3.40)
# ------------------------------------------------------------------------------------------------------------------

RYDBERG_EV = 13.605693122994
EULER_GAMMA = 0.5772156649015329


def _born_gaunt(u):
    """Born approximation of the temperature-averaged free-free Gaunt factor, sqrt(3)/pi (ln(4/u) - gamma_E)."""
    return math.sqrt(3.0) / math.pi * (np.log(4.0 / np.asarray(u, dtype=float)) - EULER_GAMMA)


def _ref_gaunt_default(g, z, te, x):
    """Reference for the default (tabulated) Gaunt factor at wavelengths x: own closed forms outside the table (documented:
    Born approximation below the range; classical limit 1 above it), the interpolated table (verified point-wise by the
    'gaunt' cases) inside."""
    (umin, umax), (gmin, gmax) = g.u_range, g.gamma2_range
    out = np.empty(len(x))
    g2 = z * z * RYDBERG_EV / te
    for k, xx in enumerate(x):
        u = HC_EV_NM / (te * xx)
        if u >= umax or g2 >= gmax:
            out[k] = 1.0
        elif u < umin or g2 < gmin:
            out[k] = _born_gaunt(u)
        else:
            out[k] = g(z, te, float(xx))
    return out


_GLX, _GLW = np.polynomial.legendre.leggauss(40)
BREMS_K = (E ** 2 / (4 * math.pi * EPS0)) ** 3 * 32 * math.pi ** 2 / (3 * math.sqrt(3) * ME ** 2 * C ** 3) * math.sqrt(2 * ME / (math.pi * E))


def _brems_bin_average(window, ne, te, ions, gaunt):
    """Bin averages of eps(lambda) = K/(4 pi) (1e9 c / lambda^2) n_e T_e^-1/2 sum_i n_i Z_i^2 g(Z_i, T_e, lambda) exp(-hc/(e T_e lambda))
    by composite 40-point Gauss-Legendre."""
    lo, hi, bins = window["min"], window["max"], window["bins"]
    dl = (hi - lo) / bins
    a = HC_EV_NM / te
    out = np.zeros(bins)
    pref = BREMS_K / (4 * math.pi) * C * 1e9 * ne / math.sqrt(te)
    for b in range(bins):
        l0, l1 = lo + b * dl, lo + (b + 1) * dl
        nsub = int(max(1, math.ceil((dl / l0) * max(abs(a / l0 - 2.0), 2.0) / 2.0)))
        acc = 0.0
        for s in range(nsub):
            s0, s1 = l0 + (l1 - l0) * s / nsub, l0 + (l1 - l0) * (s + 1) / nsub
            x = 0.5 * (s0 + s1) + 0.5 * (s1 - s0) * _GLX
            f = np.zeros_like(x)
            for z, n in ions:
                f += n * z * z * gaunt(z, te, x)
            f *= pref / (x * x) * np.exp(-a / x)
            acc += 0.5 * (s1 - s0) * float(np.dot(_GLW, f))
        out[b] = acc / dl
    return out


def _run_brems(case, ctx):
    from cherab.core.model import Bremsstrahlung
    from cherab.core.math.integrators import GaussianQuadrature
    scen, seed = case["scenario"], case["seed"]
    scene = Scene(case)
    st = scene.state()
    gk, ik = case["gaunt"], case["integrator"]
    ctx.cls("brems:gaunt:" + gk)
    ctx.cls("brems:integrator:" + ik)
    integ = None
    if ik == "tight":
        integ = GaussianQuadrature(relative_tolerance=1e-10, min_order=4)
    elif ik == "fixed":
        integ = GaussianQuadrature(min_order=24, max_order=24)
    model = Bremsstrahlung(gaunt_factor=scene.provider.MockGaunt() if gk == "argument" else None, integrator=integ)
    scene.attach(model)
    window = case["window"]
    got, path = scene.observe(model, window)
    ne, te = st["ne"], st["te"]
    detail = dict(route=case["route"], scenario=scen, gaunt=gk, integrator=ik)
    if not ctx.check(bool(np.all(np.isfinite(got))), "brems:non-finite", "non-finite sample", monitor="nonneg", **detail):
        return
    ions = [(float(sp["q"]), st["n"][i]) for i, sp in enumerate(case["species"]) if sp["q"] > 0 and st["n"][i] > 0]
    key = "brems:total" if scen == "positive" else "brems:guard:%s" % scen
    if scen != "positive":
        ctx.mon("guard")
        ctx.nontrivial()
    if ne <= 0 or te <= 0 or not ions:
        ctx.check(bool(np.all(got == 0.0)), key, "non-zero bremsstrahlung although n_e, T_e or every ion density is non-positive",
                  monitor="brems_bins", max_sample=float(np.abs(got).max()), **detail)
        return
    if gk == "real":
        from cherab.core.atomic import MaxwellianFreeFreeGauntFactor
        g = MaxwellianFreeFreeGauntFactor()
        gaunt = lambda z, t, x: _ref_gaunt_default(g, z, t, x)
        ctx.cls("brems:real-gaunt:" + ("born" if HC_EV_NM / (te * window["min"]) < 1e-4 else "table"))
    else:
        gaunt = lambda z, t, x: M.gaunt_value(seed, z, t, x)
    want = _brems_bin_average(window, ne, te, ions, gaunt) * path
    if ik == "default":
        rtol = 2e-4        # GaussianQuadrature(relative_tolerance=1e-5) per bin
    else:
        rtol = 1e-7 if gk != "real" else 2e-5
    if case["route"] == "trace":
        rtol += TRACE_RTOL
    if float(want.max()) > 1e-280:
        ctx.nontrivial()
    ctx.close(got, want, key, "bremsstrahlung bin average differs from the Hutchinson 5.3.40 expression with the provider's Gaunt factor",
              rtol=rtol, atol=1e-300, monitor="brems_bins", **detail)
    ctx.mon("total")
    ctx.check(bool(got.min() >= 0.0), "brems:negative-sample" if scen == "positive" else key,
              "negative sample although the Gaunt factor is positive", monitor="nonneg", min_sample=float(got.min()), **detail)
    # arguments that reached the Gaunt factor
    if gk != "real":
        calls = np.array([e[3] for e in scene.provider.events if e[0] == "eval" and e[1] == "gaunt"], dtype=float)
        if calls.size:
            zs = set(z for z, _ in ions)
            ok = bool(np.all(calls[:, 1] == te)) and set(calls[:, 0].tolist()) <= zs and \
                bool(np.all((calls[:, 2] >= window["min"] * (1 - 1e-12)) & (calls[:, 2] <= window["max"] * (1 + 1e-12))))
            ctx.check(ok, "brems:gaunt-args", "Gaunt factor evaluated at (Z, T_e, wavelength) other than an ion charge present with "
                      "positive density, the electron temperature at the point and a wavelength inside the window", monitor="rate_args",
                      zs=sorted(set(calls[:, 0].tolist())), te_seen=sorted(set(calls[:, 1].tolist()))[:3], te=te, **detail)
        else:
            ctx.viol("brems:gaunt-not-evaluated", "non-zero bremsstrahlung expected but the provider's Gaunt factor was never evaluated", **detail)
    if case["route"] != "trace":
        _additivity(case, ctx, scene, model, window, got, "brems")
    _linearity(case, ctx, scene, model, window, got, "brems", exact=(ik == "fixed"), rtol=1e-4 if ik == "default" else 1e-8)


# ------------------------------------------------------------------------------------------------------------------
# RadiationFunction material
# ------------------------------------------------------------------------------------------------------------------

def _run_radfn(case, ctx):
    from raysect.core import Point3D, Vector3D
    from raysect.optical import World, Ray
    from raysect.primitive import Box
    from cherab.tools.emitters import RadiationFunction
    sx, sy, sz = case["size"]
    power = case["power"] if case["scenario"] == "positive" else 0.0
    world = World()
    fn = power if case["window"]["bins"] % 2 else (lambda x, y, z: power)
    Box(Point3D(0, 0, 0), Point3D(sx, sy, sz), parent=world, material=RadiationFunction(fn, step=case["step"]))
    a = case["angle"]
    d = (-math.cos(a), math.sin(a), 0.0)
    o = (sx / 2 - 3.0 * d[0], sy / 2 - 3.0 * d[1], sz / 2)
    chord = _clip_box(o, d, (0, 0, 0), (sx, sy, sz))
    # the same material observed through several spectral windows (first one again at the end): power / (4 pi range) each time
    wins = [case["window"]] + list(case.get("windows", []))
    if len(wins) > 1:
        wins.append(case["window"])
    for k, w in enumerate(wins):
        ray = Ray(origin=Point3D(*o), direction=Vector3D(*d), min_wavelength=w["min"], max_wavelength=w["max"], bins=w["bins"])
        got = np.array(ray.trace(world).samples, dtype=float)
        want = power / (4 * math.pi * (w["max"] - w["min"])) * chord
        key = "radfn:total" if k == 0 else "radfn:stale-after:window"
        ctx.nontrivial(want != 0.0)
        if k:
            ctx.mon("window_evals")
        if want == 0.0:
            ok = ctx.check(bool(np.all(got == 0.0)), key, "RadiationFunction with zero power radiates", monitor="radfn_bins")
        else:
            ok = ctx.close(got, np.full(got.size, want), key, "RadiationFunction does not radiate power/(4 pi) spread uniformly over "
                           "the spectral range of the observing ray times the chord length", rtol=TRACE_RTOL, monitor="radfn_bins",
                           chord=chord, window_no=k)
        if not ok:
            return


def run_case(case, ctx):
    kind = case["kind"]
    ctx.cls(kind)
    ctx.cls("route:" + case["route"])
    if kind == "seq":
        return _run_seq(case, ctx)
    if kind == "multi":
        return _run_multi(case, ctx)
    if kind == "gaunt":
        ctx.cls("gaunt:" + case["scenario"])
        return _run_gaunt(case, ctx)
    ctx.cls("%s:%s" % (kind, case["scenario"]))
    if kind in LINE_KINDS:
        _run_line(case, ctx)
    elif kind == "trp":
        _run_trp(case, ctx)
    elif kind == "brems":
        _run_brems(case, ctx)
    else:
        _run_radfn(case, ctx)


# ------------------------------------------------------------------------------------------------------------------
# one model instance across state changes ("seq"): the documented expression must hold for the CURRENT state after
# every legal change made between evaluations (evaluation point, provider, composition, electrons, Gaunt factor)
# ------------------------------------------------------------------------------------------------------------------

SEQ_SHAPES = ("gaussian", "zeeman_triplet", "param_zeeman")     # constructor arguments independent of the wavelength
SEQ_REQUIRED = dict(exc=lambda e, q: {(e, q)}, rec=lambda e, q: {(e, q + 1)}, tcx=lambda e, q: {(e, q + 1)},
                    trp=lambda e, q: {(e, q), (e, q + 1)})


def _pkind(rng):
    r = rng.random()
    return "exp" if r < 0.5 else ("lin" if r < 0.85 else "clip")


def _seq_species(rng, el, q, hostile):
    sp = _species(rng, el, q, False)
    sp["pk"] = _pkind(rng)
    sp["pkt"] = "exp" if rng.random() < 0.8 else "lin"
    if rng.random() < hostile:
        if rng.random() < 0.6:
            sp["n"] = _nonpos(rng, sp["n"])
        else:
            sp["t"] = _nonpos(rng, sp["t"])
    return sp


def _gen_seq(rng, m=None, multi=False):
    """Sequence-style description of one plasma + one model.  With `multi` (member of a several-models case) every
    line-shape class is allowed, helper objects are the defaults (no user integrator) and there are no steps."""
    if m is None:
        m = ("exc", "rec", "tcx", "trp", "brems")[int(rng.integers(5))]
    route = "direct" if rng.random() < 0.5 else "attached"
    case = dict(kind=m, route=route, seed=int(rng.integers(1, 2 ** 31)),
                pt=[float(x) for x in rng.uniform(-0.4, 0.4, size=3)], dir=[float(x) for x in rng.normal(size=3)],
                ne=_logu(rng, 14, 22), te=_logu(rng, -1, 4), gne=_grad(rng, False), gte=_grad(rng, False),
                b=[0.0, 0.0, 0.0] if rng.random() < 0.3 else [float(x) for x in rng.normal(size=3) * _logu(rng, -2, 1)],
                scenario="positive", zero_keys=[], prefill=False, lin=None)
    if m in LINE_KINDS:
        _gen_line(rng, case, False)
        ls = case["shape"]
        if not multi:
            name = ls["name"] if ls["name"] in SEQ_SHAPES else SEQ_SHAPES[int(rng.integers(3))]
            case["shape"] = dict(name=name, margin=ls["margin"], bins=min(ls["bins"], 200))
            if name == "param_zeeman":
                case["shape"]["params"] = [_logu(rng, -2.5, -1), float(rng.uniform(0, 1.5)), float(rng.uniform(-0.5, 0.5))]
        required = SEQ_REQUIRED[m](case["line"]["el"], case["line"]["q"])
    elif m == "trp":
        _gen_trp(rng, case, False)
        required = SEQ_REQUIRED[m](case["elem"]["el"], case["elem"]["q"])
    else:
        _gen_brems(rng, case, False)
        case["gaunt"] = "argument" if rng.random() < 0.4 else "provider"
        case["gseed"] = int(rng.integers(1, 2 ** 31))
        case["integrator"] = "default" if multi else ("tight", "fixed", "default")[int(rng.integers(3))]
        case["gte"] = [0.2 * x for x in case["gte"]]
        required = set()
    case.update(kind="seq", model=m, scenario="sequence", zero_keys=[], lin=None, prefill=False, r0=list(case["pt"]),
                pkne=_pkind(rng), pkte="exp" if (m == "brems" or rng.random() < 0.8) else "lin")
    for sp in case["species"]:
        sp["pk"] = _pkind(rng)
        sp["pkt"] = "exp" if rng.random() < 0.8 else "lin"
    keys = [(sp["el"], sp["q"]) for sp in case["species"]]
    roles = [sp.get("role") for sp in case["species"]]
    ops = ["point"] * 3 + ["provider"] * 3 + ["window"] * 3 + ["electrons", "replace", "replace", "add", "remove"] + \
        (["gaunt"] * 2 if m == "brems" else [])
    steps = []
    for _ in range(0 if multi else int(rng.integers(3, 9))):
        op = ops[int(rng.integers(len(ops)))]
        removable = [i for i, k in enumerate(keys) if k not in required]
        if (op == "remove" and not removable) or (op == "replace" and not keys):
            op = "point"
        if op == "point":
            steps.append(dict(op="point", pt=[float(x) for x in rng.uniform(-1, 1, size=3)], dir=[float(x) for x in rng.normal(size=3)]))
        elif op == "window":
            # another spectral window for the same instance: other width, bin count, position; sometimes back to the first
            st = dict(op="window", back=bool(rng.random() < 0.3))
            if m in LINE_KINDS:
                st.update(margin=float(rng.uniform(12, 40)), bins=int(rng.integers(1, 400)),
                          pad=[float(rng.uniform(0, 2)) if rng.random() < 0.5 else 0.0 for _ in range(2)])
            else:
                st["window"] = _cont_window(rng, 3.3 if m == "trp" else 3.5)
            steps.append(st)
        elif op == "provider":
            via = "model" if (route == "direct" or rng.random() < 0.3) else "plasma"
            steps.append(dict(op="provider", seed=int(rng.integers(1, 2 ** 31)), via=via))
        elif op == "electrons":
            st = dict(op="electrons", ne=_logu(rng, 14, 22), te=_logu(rng, -1, 4), gne=_grad(rng, False),
                      gte=[(0.2 if m == "brems" else 1.0) * x for x in _grad(rng, False)], pkne=_pkind(rng), pkte="exp")
            if rng.random() < 0.25:
                k = "ne" if rng.random() < 0.5 else "te"
                st[k] = _nonpos(rng, st[k])
            steps.append(st)
        elif op == "replace":
            i = int(rng.integers(len(keys)))
            sp = _seq_species(rng, keys[i][0], keys[i][1], 0.3)
            if m == "trp" and keys[i][0] in HYD and keys[i][1] == 0 and sp["n"] < 0:
                sp["n"] = 0.0          # no mixed-sign hydrogen neutrals
                sp["pk"] = "exp"
            if roles[i]:
                sp["role"] = roles[i]
            steps.append(dict(op="replace", i=i, sp=sp))
        elif op == "add":
            new = _extra_species(rng, set(keys), False, 1)
            if not new:
                continue
            sp = _seq_species(rng, new[0]["el"], new[0]["q"], 0.15)
            if m == "trp" and sp["el"] in HYD and sp["q"] == 0:
                sp["n"], sp["pk"] = abs(sp["n"]), "exp"
            if m == "tcx" and sp["q"] < ZNUM[sp["el"]]:
                sp["role"] = "donor"
            if m == "brems" and sp["q"] > 0:
                sp["role"] = "ion"
            keys.append((sp["el"], sp["q"]))
            roles.append(sp.get("role"))
            steps.append(dict(op="add", sp=sp))
        elif op == "remove":
            i = removable[int(rng.integers(len(removable)))]
            keys.pop(i)
            roles.pop(i)
            steps.append(dict(op="remove", i=i))
        else:
            steps.append(dict(op="gaunt", seed=None if rng.random() < 0.4 else int(rng.integers(1, 2 ** 31))))
    case["steps"] = steps
    return case


def _seq_state(cur, r0):
    pt = cur["pt"]
    ev = lambda v, g, k: Prof(v, g, r0, k)(*pt)
    return dict(ne=ev(cur["ne"], cur["gne"], cur["pkne"]), te=ev(cur["te"], cur["gte"], cur["pkte"]),
                n=[ev(sp["n"], sp["gn"], sp["pk"]) for sp in cur["species"]],
                t=[ev(sp["t"], sp["gt"], sp["pkt"]) for sp in cur["species"]])


def _seq_line_window(cur, st):
    """Window containing every component of the line for the current state (all line-shape classes)."""
    ln, ls = cur["line"], cur["shape"]
    lam0 = M.wavelength_value(cur["seed"], (ln["el"], ln["q"], _tr_key(ln["tr"])))
    ti = [i for i, sp in enumerate(cur["species"]) if sp.get("role") == "target"][0]
    ts = st["t"][ti]
    aw = _element(ln["el"]).atomic_weight
    bmag = math.sqrt(sum(x * x for x in cur["b"]))
    flo, fhi = _doppler_factors(cur, cur["species"][ti]["v"])
    sigma = math.sqrt(ts * E / (aw * AMU)) * lam0 / C if ts > 0 else 0.0
    centres = [lam0]
    name = ls["name"]
    extra, wmax = 0.0, 0.0
    if name in ("zeeman_triplet", "stark"):
        e0 = HC_EV_NM / lam0
        centres += [HC_EV_NM / (e0 - MUB * bmag), HC_EV_NM / (e0 + MUB * bmag)]
        if name == "stark":
            ne, te = st["ne"], st["te"]
            fl = cur["stark_cij"] * ne ** ls["aij"] / te ** ls["bij"] if ne > 0 and te > 0 else 0.0
            wmax = max(fl, 2.3548200450309493 * sigma)
            extra = 100.0 * wmax
    elif name == "param_zeeman":
        al, be, ga = ls["params"]
        centres += [lam0 + 0.5 * al * bmag, lam0 - 0.5 * al * bmag]
        if ts > 0:
            sigma *= math.sqrt(1.0 + be * be * ts ** (2.0 * ga))
    elif name == "multiplet":
        centres = [cur["lam0_build"] + o for o in ls["offsets"]]
    elif name == "zeeman_multiplet":
        centres += [cur["lam0_build"] + o for o, _ in ls["pi"] + ls["sp"] + ls["sm"]]
    half = ls["margin"] * sigma + extra + 1e-3
    lo, hi = min(centres) * flo - half, max(centres) * fhi + half
    pad = cur.get("wpad", (0.0, 0.0))          # shifted / asymmetric windows still containing the whole line
    lo, hi = lo - pad[0] * (hi - lo), hi + pad[1] * (hi - lo)
    bins = ls["bins"]
    if name == "stark" and wmax > 0:
        bins = int(math.ceil((hi - lo) / (ls["resolution"] * wmax)))      # resolved bins, see _line_setup
    return dict(min=lo, max=hi, bins=bins)


def _seq_brems_window(base, te):
    if te <= 0:
        return dict(base)
    a = HC_EV_NM / te
    lam0 = max(base["min"], a / 250.0)
    width = base["max"] - base["min"]
    s = (width / base["bins"] / lam0) * max(abs(a / lam0 - 2.0), 2.0)
    if s > 1.5:
        width *= 1.5 / s
    return dict(min=lam0, max=lam0 + width, bins=base["bins"])


class Live:
    """One real plasma + one real model instance built from a sequence-style description; `cur` is the harness-side
    description of the current state (what the oracle sees), updated by `apply`."""

    def __init__(self, case):
        from raysect.core import Point3D, Vector3D
        from raysect.primitive import Box
        from cherab.core import Plasma
        from cherab.core import model as cm
        from cherab.core.atomic import Line
        from cherab.core.atomic.zeeman import ZeemanStructure
        from cherab.core.math.integrators import GaussianQuadrature
        self.case = case
        m, route = case["model"], case["route"]
        self.m, self.r0 = m, case["r0"]
        self.cur = cur = dict(kind=m, route=route, seed=case["seed"], pt=list(case["pt"]), dir=list(case["dir"]), b=case["b"],
                              zero_keys=[], ne=case["ne"], te=case["te"], gne=case["gne"], gte=case["gte"], pkne=case["pkne"],
                              pkte=case["pkte"], species=[dict(sp) for sp in case["species"]], scenario="sequence",
                              integrator=case.get("integrator"))
        for k in ("line", "elem"):
            if k in case:
                cur[k] = case[k]
        if "shape" in case:
            cur["shape"], cur["wpad"] = dict(case["shape"]), [0.0, 0.0]
        self.window = dict(case["window"]) if "window" in case else None
        self.providers = {}
        self.gaunt_src = None
        plasma = self.plasma = Plasma()
        plasma.electron_distribution = self._electrons()
        plasma.b_field = Vector3D(*case["b"])
        self.live = [self._species(sp) for sp in cur["species"]]
        plasma.composition = self.live
        if m in LINE_KINDS:
            ln, ls = case["line"], case["shape"]
            lam0 = cur["lam0_build"] = M.wavelength_value(case["seed"], (ln["el"], ln["q"], _tr_key(ln["tr"])))
            name, args, kwargs = ls["name"], [], {}
            cls = {"gaussian": cm.GaussianLine if case["seed"] % 2 else None, "zeeman_triplet": cm.ZeemanTriplet,
                   "param_zeeman": cm.ParametrisedZeemanTriplet, "multiplet": cm.MultipletLineShape,
                   "zeeman_multiplet": cm.ZeemanMultiplet, "stark": cm.StarkBroadenedLine}[name]
            if name == "param_zeeman":
                kwargs = dict(line_parameters=tuple(ls["params"]))
            elif name == "multiplet":
                args = [[[lam0 + o for o in ls["offsets"]], ls["ratios"]]]
            elif name == "zeeman_multiplet":
                comp = lambda lst: [(lam0 + o, r) for o, r in lst]
                kwargs = dict(zeeman_structure=ZeemanStructure(comp(ls["pi"]), comp(ls["sp"]), comp(ls["sm"])))
            elif name == "stark":
                st = self.state()
                ne, te = st["ne"], st["te"]
                cur["stark_cij"] = ls["fwhm_l"] / (ne ** ls["aij"] / te ** ls["bij"]) if ne > 0 and te > 0 else 1e-20
                kwargs = dict(stark_model_coefficients=(cur["stark_cij"], ls["aij"], ls["bij"]))   # default integrator
            mk = dict(exc=cm.ExcitationLine, rec=cm.RecombinationLine, tcx=cm.ThermalCXLine)[m]
            self.model = mk(Line(_element(ln["el"]), ln["q"], tuple(ln["tr"])), lineshape=cls, lineshape_args=args,
                            lineshape_kwargs=kwargs)
        elif m == "trp":
            self.model = cm.TotalRadiatedPower(_element(case["elem"]["el"]), case["elem"]["q"])
        else:
            ik = case["integrator"]
            integ = None if ik == "default" else (GaussianQuadrature(relative_tolerance=1e-10, min_order=4) if ik == "tight" else
                                                  GaussianQuadrature(min_order=24, max_order=24))
            if case["gaunt"] == "argument":
                self.gaunt_src = case["gseed"]
            self.model = cm.Bremsstrahlung(gaunt_factor=self.prov(self.gaunt_src).MockGaunt() if self.gaunt_src is not None else None,
                                           integrator=integ)
        if route == "direct":
            self.model.plasma = plasma
            self.model.atomic_data = self.prov(cur["seed"])
        else:
            plasma.geometry = Box(Point3D(-2, -2, -2), Point3D(2, 2, 2))
            plasma.atomic_data = self.prov(cur["seed"])
            plasma.models = [self.model]

    def prov(self, seed):
        if seed not in self.providers:
            self.providers[seed] = M.make_provider(seed)
        return self.providers[seed]

    def _species(self, sp):
        from raysect.core import Vector3D
        from cherab.core import Species, Maxwellian
        el = _element(sp["el"])
        r0 = self.r0
        return Species(el, sp["q"], Maxwellian(Prof(sp["n"], sp["gn"], r0, sp["pk"]), Prof(sp["t"], sp["gt"], r0, sp["pkt"]),
                                               Vector3D(*sp["v"]), el.atomic_weight * AMU))

    def _electrons(self):
        from raysect.core import Vector3D
        from cherab.core import Maxwellian
        cur, r0 = self.cur, self.r0
        return Maxwellian(Prof(cur["ne"], cur["gne"], r0, cur["pkne"]), Prof(cur["te"], cur["gte"], r0, cur["pkte"]),
                          Vector3D(0, 0, 0), ME)

    def state(self):
        return _seq_state(self.cur, self.r0)

    def apply(self, stp):
        """Apply one legal change to the live objects and to the description; returns its label."""
        cur, plasma, live, op = self.cur, self.plasma, self.live, stp["op"]
        if op == "point":
            cur["pt"], cur["dir"] = list(stp["pt"]), list(stp["dir"])
            return "point"
        if op == "window":
            if self.m in LINE_KINDS:
                if stp["back"]:
                    cur["shape"], cur["wpad"] = dict(self.case["shape"]), [0.0, 0.0]
                else:
                    cur["shape"], cur["wpad"] = dict(cur["shape"], margin=stp["margin"], bins=stp["bins"]), list(stp["pad"])
            else:
                self.window = dict(self.case["window"] if stp["back"] else stp["window"])
            return "window"
        if op == "provider":
            if stp["via"] == "plasma":
                plasma.atomic_data = self.prov(stp["seed"])
            else:
                self.model.atomic_data = self.prov(stp["seed"])
            cur["seed"] = stp["seed"]
            return "provider:" + stp["via"]
        if op == "electrons":
            for f in ("ne", "te", "gne", "gte", "pkne", "pkte"):
                cur[f] = stp[f]
            plasma.electron_distribution = self._electrons()
            return "electrons"
        if op == "replace":
            cur["species"][stp["i"]] = dict(stp["sp"])
            live[stp["i"]] = self._species(stp["sp"])
            plasma.composition.add(live[stp["i"]])
            return "replace-species"
        if op == "add":
            cur["species"].append(dict(stp["sp"]))
            live.append(self._species(stp["sp"]))
            plasma.composition.add(live[-1])
            return "add-species"
        if op == "remove":
            cur["species"].pop(stp["i"])
            live.pop(stp["i"])
            plasma.composition = list(live)
            return "remove-species"
        self.gaunt_src = stp["seed"]
        self.model.gaunt_factor = self.prov(self.gaunt_src).MockGaunt() if self.gaunt_src is not None else None
        return "gaunt-factor"

    def clear_events(self):
        for p in self.providers.values():
            del p.events[:]

    def evaluate(self, ctx):
        """emission() on a fresh zero Spectrum for the current state; returns (state, window, samples) or None (skipped)."""
        from raysect.core import Point3D, Vector3D
        from raysect.optical import Spectrum
        cur, m = self.cur, self.m
        st = self.state()
        if m in LINE_KINDS:
            window = _seq_line_window(cur, st)
            if window["min"] < 2.0:
                ctx.skip("line window would reach non-positive wavelengths")
                return None
            if window["bins"] > 8000:
                ctx.skip("resolved Stark window would need more than 8000 bins")
                return None
            ti = [i for i, sp in enumerate(cur["species"]) if sp.get("role") == "target"][0]
            if cur["shape"]["name"] == "stark" and st["t"][ti] <= 0:
                ctx.skip("StarkBroadenedLine with a non-positive emitter temperature is not judged")
                return None
        elif m == "trp":
            window = self.window
        else:
            window = _seq_brems_window(self.window, st["te"])
        out = self.model.emission(Point3D(*cur["pt"]), Vector3D(*cur["dir"]), Spectrum(window["min"], window["max"], window["bins"]))
        return st, window, np.array(out.samples, dtype=float)


def _run_seq(case, ctx):
    m = case["model"]
    ctx.cls("seq:" + m)
    lv = Live(case)
    what, changed = "initial", False
    for k in range(len(case["steps"]) + 1):
        if k > 0:
            what = lv.apply(case["steps"][k - 1])
            changed = True
            ctx.cls("seq-step:" + what)
        lv.clear_events()
        r = lv.evaluate(ctx)
        if r is None:
            continue
        st, window, got = r
        key = "sequence:%s:stale-after:%s" % (m, what) if what != "initial" else "sequence:%s:initial" % m
        msg = ("emission of a model instance that lived through a change of %s differs from the documented expression evaluated "
               "for the current state" % what) if what != "initial" else "emission differs from the documented expression"
        ok, nonzero = _live_judge(ctx, lv, st, window, got, key, msg, "sequence:" + m, ":" + "after:" + what,
                                  dict(step=k, after=what, route=case["route"]), "seq_steps")
        ctx.mon("seq_evals")
        if changed and nonzero:
            ctx.nontrivial()
            ctx.mon("seq_nonzero_after_change")
        if what == "window":
            ctx.mon("window_evals")
        if not ok:
            return


def _live_judge(ctx, lv, st, window, got, key, msg, pre, suffix, detail, monitor):
    """Compare one evaluation of a Live model with the documented expression for its current state.
    Returns (ok, non-degenerate)."""
    m, cur, providers, gaunt_src = lv.m, lv.cur, lv.providers, lv.gaunt_src
    ne, te = st["ne"], st["te"]
    P = providers[cur["seed"]]
    if not np.all(np.isfinite(got)):
        ctx.viol("%s:non-finite%s" % (pre, suffix), "non-finite sample", **detail)
        return False, False
    dl = (window["max"] - window["min"]) / window["bins"]
    ok = True
    if m in LINE_KINDS:
        want, _, _ = _line_oracle(cur, st)
        total = float(got.sum() * dl)
        if want == 0.0:
            ok = ctx.check(bool(np.all(got == 0.0)), key, msg, monitor=monitor, got=total, want=0.0, **detail)
        elif cur["shape"]["name"] == "stark":
            ok = ctx.close(total, want, key, msg, rtol=1e-3, monitor=monitor + "_stark", **detail)
        else:
            ok = ctx.close(total, want, key, msg, rtol=1e-9, monitor=monitor, **detail)
        if want != 0.0:
            ok = ctx.check(bool(got.min() >= -1e-12 * float(np.abs(got).max())), key, "negative spectral sample", monitor="nonneg",
                           **detail) and ok
    elif m == "trp":
        pd = _trp_power_density(cur, st)
        if pd is None:
            ctx.skip("hydrogen-isotope neutral densities of mixed sign (statement silent)")
            return True, False
        want = pd / (4 * math.pi * (window["max"] - window["min"]))
        if want == 0.0:
            ok = ctx.check(bool(np.all(got == 0.0)), key, msg, monitor=monitor, max_sample=float(np.abs(got).max()), **detail)
        else:
            ok = ctx.close(got, np.full(got.size, want), key, msg, rtol=1e-12, monitor=monitor, **detail)
    else:
        ions = [(float(sp["q"]), st["n"][i]) for i, sp in enumerate(cur["species"]) if sp["q"] > 0 and st["n"][i] > 0]
        if ne <= 0 or te <= 0 or not ions:
            want = 0.0
            ok = ctx.check(bool(np.all(got == 0.0)), key, msg, monitor=monitor, max_sample=float(np.abs(got).max()), **detail)
        else:
            gs = gaunt_src if gaunt_src is not None else cur["seed"]
            wantv = _brems_bin_average(window, ne, te, ions, lambda z, t, x: M.gaunt_value(gs, z, t, x))
            want = float(wantv.max())
            dflt = cur.get("integrator") == "default"      # GaussianQuadrature(relative_tolerance=1e-5) per bin
            ok = ctx.close(got, wantv, key, msg, rtol=2e-4 if dflt else 1e-7, atol=1e-300,
                           monitor=monitor + ("_default_integrator" if dflt else ""), **detail)
    nonzero = bool(np.any(got != 0.0) or want != 0.0)
    if not ok:
        return False, nonzero
    # recorded evaluations must belong to the current provider(s) and carry the current plasma values
    current = {cur["seed"]} | ({gaunt_src} if gaunt_src is not None else set())
    for seed, p in providers.items():
        if seed in current:
            continue
        stale = [e for e in p.events if e[0] == "eval"]
        if not ctx.check(not stale, "%s:foreign-provider-evaluated%s" % (pre, suffix),
                         "a coefficient object of a provider that is no longer the model's atomic data source was evaluated",
                         monitor="rate_args", family=stale[0][1] if stale else None, **detail):
            return False, nonzero
    if m in ("exc", "rec"):
        ln = cur["line"]
        _check_rate_args(ctx, P, m, (ln["el"], ln["q"], _tr_key(ln["tr"])), (ne, te), pre, detail)
    elif m == "tcx":
        ln = cur["line"]
        bykey = {(sp["el"], sp["q"], ln["el"], _tr_key(ln["tr"])): i for i, sp in enumerate(cur["species"])}
        for kk, calls in _events(P, "tcx").items():
            if kk not in bykey:
                ctx.viol(pre + ":rate-key:tcx", "thermal CX coefficient evaluated for a donor that is not in the plasma: %r" % (kk,), **detail)
                return False, nonzero
            arr = np.array(calls, dtype=float)
            ctx.close(arr, np.broadcast_to(np.array((ne, te, st["t"][bykey[kk]])), arr.shape), pre + ":rate-args:tcx",
                      "thermal CX coefficient evaluated at arguments other than (n_e, T_e, T_donor) of the current state",
                      rtol=1e-14, monitor="rate_args", **detail)
    elif m == "trp":
        el, q = cur["elem"]["el"], cur["elem"]["q"]
        for fam, kk in (("plt", (el, q)), ("prb", (el, q + 1)), ("prc", (el, q + 1))):
            _check_rate_args(ctx, P, fam, kk, (ne, te), pre, detail)
    else:
        src = providers[gaunt_src] if gaunt_src is not None else P
        calls = np.array([e[3] for e in src.events if e[0] == "eval" and e[1] == "gaunt"], dtype=float)
        if calls.size:
            ctx.check(bool(np.all(calls[:, 1] == te)), pre + ":gaunt-args", "Gaunt factor evaluated at a temperature other than the "
                      "electron temperature of the current state", monitor="rate_args", **detail)
        if gaunt_src is not None:
            ctx.check(not [e for e in P.events if e[0] == "eval" and e[1] == "gaunt"], "%s:gaunt-source%s" % (pre, suffix),
                      "the provider's Gaunt factor was evaluated although a Gaunt factor was supplied to the model",
                      monitor="rate_args", **detail)
    return True, nonzero


# ------------------------------------------------------------------------------------------------------------------
# several models of one type alive at once ("multi"): 2-3 instances on different plasmas / providers / parameters, all
# built with their default helper objects, evaluated interleaved and each judged against its own reference — module-level
# or class-level state shared between instances shows as cross-talk
# ------------------------------------------------------------------------------------------------------------------

def _gen_multi(rng):
    m = ("exc", "rec", "tcx", "trp", "brems", "brems", "radfn")[int(rng.integers(7))]
    n = int(rng.integers(2, 4))
    if m == "radfn":
        members = [_gen_radfn(rng) for _ in range(n)]
    else:
        members = [_gen_seq(rng, m=m, multi=True) for _ in range(n)]
    order = [int(i) for i in rng.permutation(n)] + [int(i) for i in rng.permutation(n)]
    if rng.random() < 0.5:
        order = [n - 1] + order        # newest first, then an older one
    return dict(kind="multi", model=m, route="multi", scenario="multi", members=members, order=order)


class LiveRadfn:
    def __init__(self, case):
        from raysect.core import Point3D
        from raysect.optical import World
        from raysect.primitive import Box
        from cherab.tools.emitters import RadiationFunction
        self.case = case
        sx, sy, sz = case["size"]
        self.power = power = case["power"] if case["scenario"] == "positive" else 0.0
        self.world = World()
        fn = power if case["window"]["bins"] % 2 else (lambda x, y, z: power)
        Box(Point3D(0, 0, 0), Point3D(sx, sy, sz), parent=self.world, material=RadiationFunction(fn, step=case["step"]))

    def evaluate(self):
        from raysect.core import Point3D, Vector3D
        from raysect.optical import Ray
        case = self.case
        sx, sy, sz = case["size"]
        a = case["angle"]
        d = (-math.cos(a), math.sin(a), 0.0)
        o = (sx / 2 - 3.0 * d[0], sy / 2 - 3.0 * d[1], sz / 2)
        w = case["window"]
        ray = Ray(origin=Point3D(*o), direction=Vector3D(*d), min_wavelength=w["min"], max_wavelength=w["max"], bins=w["bins"])
        got = np.array(ray.trace(self.world).samples, dtype=float)
        want = self.power / (4 * math.pi * (w["max"] - w["min"])) * _clip_box(o, d, (0, 0, 0), (sx, sy, sz))
        return got, want


def _run_multi(case, ctx):
    m = case["model"]
    ctx.cls("multi:" + m)
    key = "multi:%s:cross-talk" % m
    msg = ("with several %s models alive at once, a model's emission differs from the documented expression evaluated on its own "
           "plasma / parameters" % m)
    if m == "radfn":
        lives = [LiveRadfn(c) for c in case["members"]]
        for j, i in enumerate(case["order"]):
            got, want = lives[i].evaluate()
            ctx.mon("multi_evals")
            if want == 0.0:
                ok = ctx.check(bool(np.all(got == 0.0)), key, msg, monitor="multi_bins", member=i, position=j)
            else:
                ok = ctx.close(got, np.full(got.size, want), key, msg, rtol=TRACE_RTOL, monitor="multi_bins", member=i, position=j)
                ctx.nontrivial()
                ctx.mon("multi_nonzero")
            if not ok:
                return
        return
    lives = [Live(c) for c in case["members"]]          # all constructed and attached before any evaluation
    for j, i in enumerate(case["order"]):
        for lv in lives:
            lv.clear_events()
        r = lives[i].evaluate(ctx)
        if r is None:
            continue
        st, window, got = r
        detail = dict(member=i, position=j, order=case["order"], route=case["members"][i]["route"])
        ok, nonzero = _live_judge(ctx, lives[i], st, window, got, key, msg, "multi:" + m, "", detail, "multi_bins")
        ctx.mon("multi_evals")
        if nonzero:
            ctx.nontrivial()
            ctx.mon("multi_nonzero")
        if not ok:
            return
        for o, lv in enumerate(lives):
            if o == i:
                continue
            foreign = [e for p in lv.providers.values() for e in p.events if e[0] == "eval"]
            if not ctx.check(not foreign, "multi:%s:other-model-provider-evaluated" % m,
                             "evaluating one model evaluated a coefficient that belongs to another model instance's provider",
                             monitor="rate_args", family=foreign[0][1] if foreign else None, other=o, **detail):
                return


# ------------------------------------------------------------------------------------------------------------------
# the default provider's free-free Gaunt factor over its whole domain ("gaunt"): own closed forms outside the table
# (Born approximation below the tabulated range, classical limit above it), the tabulated values at the knots, the
# envelope of the neighbouring knots between them; synthetic log-linear tables must be reproduced exactly
# ------------------------------------------------------------------------------------------------------------------

def _gen_gaunt(rng):
    table = "default" if rng.random() < 0.6 else "synthetic"
    case = dict(kind="gaunt", route="direct", scenario=table)
    if table == "synthetic":
        case["table"] = dict(lu0=float(rng.uniform(-6, -1)), du=float(rng.uniform(0.3, 1.5)), nu=int(rng.integers(4, 11)),
                             lg0=float(rng.uniform(-9, 0)), dg=float(rng.uniform(0.2, 1.0)), ng=int(rng.integers(4, 13)),
                             a=float(rng.uniform(1, 3)), b=float(rng.uniform(-0.15, 0.15)), c=float(rng.uniform(-0.1, 0.1)))

    def z():
        r = rng.random()
        return 0.0 if r < 0.05 else (float(rng.integers(1, 75)) if r < 0.7 else _logu(rng, -1, 1.5))
    pts = []
    for _ in range(int(rng.integers(40, 81))):
        r = rng.random()
        if r < 0.2:
            pts.append(dict(k="wide", lu=float(rng.uniform(-9, 9)), lg=float(rng.uniform(-13, 15)), z=z()))
        elif r < 0.4:
            pts.append(dict(k="physical", te=_logu(rng, -1, 5), lam=_logu(rng, 1, 4), z=float(rng.integers(1, 31))))
        elif r < 0.55:
            pts.append(dict(k="knot", fu=float(rng.random()), fg=float(rng.random()), z=z()))
        elif r < 0.75:
            pts.append(dict(k="edge", which=("umin", "umax", "gmin", "gmax")[int(rng.integers(4))],
                            side=1e-6 if rng.random() < 0.5 else -1e-6, f=float(rng.uniform(-0.2, 1.2)), z=z()))
        elif r < 0.9:
            pts.append(dict(k="inside", fu=float(rng.random()), fg=float(rng.random()), z=z()))
        else:
            pts.append(dict(k="born", lu=float(rng.uniform(-9, -4.01)), fg=float(rng.random()), z=z()))
    case["points"] = pts
    return case


def _run_gaunt(case, ctx):
    from cherab.core.atomic import AtomicData, MaxwellianFreeFreeGauntFactor
    from cherab.core.atomic.gaunt import InterpolatedFreeFreeGauntFactor
    synthetic = case["scenario"] == "synthetic"
    if synthetic:
        t = case["table"]
        lu = t["lu0"] + t["du"] * np.arange(t["nu"])
        lg = t["lg0"] + t["dg"] * np.arange(t["ng"])
        lin = lambda a, b: t["a"] + t["b"] * a + t["c"] * b
        g = InterpolatedFreeFreeGauntFactor(10.0 ** lu, 10.0 ** lg, lin(lu[:, None], lg[None, :]))
        umin, umax, gmin, gmax = 10.0 ** lu[0], 10.0 ** lu[-1], 10.0 ** lg[0], 10.0 ** lg[-1]
        tab = None
    else:
        g = AtomicData().free_free_gaunt_factor() if len(case["points"]) % 2 else MaxwellianFreeFreeGauntFactor()
        raw = g.raw_data
        lu, lg, tab = np.log10(raw["u"]), np.log10(raw["gamma2"]), np.asarray(raw["gaunt_factor"])
        (umin, umax), (gmin, gmax) = g.u_range, g.gamma2_range
    ctx.nontrivial()
    for p in case["points"]:
        z = p["z"]
        k = p["k"]
        knot = None
        if k == "physical":
            te, lam = p["te"], p["lam"]
        else:
            if k == "wide":
                a, b = p["lu"], p["lg"]
            elif k == "knot":
                i, j = int(p["fu"] * (len(lu) - 1)), int(p["fg"] * (len(lg) - 1))
                a, b = lu[i] + 1e-10, lg[j] + 1e-10
                knot = (i, j)
            elif k == "inside":
                a, b = lu[0] + p["fu"] * (lu[-1] - lu[0]), lg[0] + p["fg"] * (lg[-1] - lg[0])
            elif k == "born":
                a, b = p["lu"] + (lu[0] + 4.0), lg[0] + p["fg"] * (lg[-1] - lg[0])
            else:
                f = p["f"]
                a, b = lu[0] + f * (lu[-1] - lu[0]), lg[0] + f * (lg[-1] - lg[0])
                e = math.log10(1.0 + p["side"])
                if p["which"] == "umin":
                    a = lu[0] + e
                elif p["which"] == "umax":
                    a = lu[-1] + e
                elif p["which"] == "gmin":
                    b = lg[0] + e
                else:
                    b = lg[-1] + e
            zz = z if z != 0 else 1.0
            te = zz * zz * RYDBERG_EV / 10.0 ** b
            lam = HC_EV_NM / (te * 10.0 ** a)
        if not (1e-300 < te < 1e300 and 1e-300 < lam < 1e300):
            ctx.skip("gaunt: arguments out of floating-point range")
            continue
        got = g(z, te, lam)
        ctx.cls("gaunt-point:" + k)
        detail = dict(z=z, te=te, wavelength=lam, table=case["scenario"])
        if z == 0:
            ctx.check(got == 0.0, "gaunt:z=0", "Gaunt factor for Z = 0 is not zero", monitor="gaunt_points", got=got, **detail)
            continue
        u = HC_EV_NM / (te * lam)
        g2 = z * z * RYDBERG_EV / te
        if min(abs(u / e - 1.0) for e in (umin, umax)) < 1e-9 or min(abs(g2 / e - 1.0) for e in (gmin, gmax)) < 1e-9:
            ctx.skip("gaunt: within rounding of a branch switch")
            continue
        detail.update(u=u, gamma2=g2)
        if u >= umax or g2 >= gmax:
            ctx.close(got, 1.0, "gaunt:classical-limit", "Gaunt factor above the tabulated range (u >= u_max or gamma^2 >= gamma^2_max) "
                      "is not the classical limit 1", rtol=1e-12, monitor="gaunt_points", **detail)
        elif u < umin or g2 < gmin:
            ctx.close(got, float(_born_gaunt(u)), "gaunt:born-limit", "Gaunt factor below the tabulated range is not the Born "
                      "approximation sqrt(3)/pi (ln(4/u) - gamma_E)", atol=1e-9 * (abs(math.log(4.0 / u)) + 1.0), monitor="gaunt_points",
                      **detail)
        elif synthetic:
            ctx.close(got, lin(math.log10(u), math.log10(g2)), "gaunt:synthetic-table", "a table that is linear in (log10 u, log10 gamma^2) "
                      "is not reproduced by the interpolated Gaunt factor", atol=1e-9, monitor="gaunt_points", **detail)
        elif knot is not None:
            ctx.close(got, float(tab[knot]), "gaunt:table-knot", "interpolated Gaunt factor at a knot differs from the tabulated value",
                      rtol=1e-7, monitor="gaunt_points", knot=list(knot), **detail)
        else:
            i = int(min(max(np.searchsorted(lu, math.log10(u), side="right") - 1, 0), len(lu) - 2))
            j = int(min(max(np.searchsorted(lg, math.log10(g2), side="right") - 1, 0), len(lg) - 2))
            blk = tab[max(i - 1, 0):i + 3, max(j - 1, 0):j + 3]
            cell = tab[i:i + 2, j:j + 2]
            spread = float(blk.max() - blk.min())
            lo, hi = float(cell.min()), float(cell.max())
            mid, half = 0.5 * (lo + hi), 0.5 * (hi - lo) + 0.5 * spread + 1e-9
            ctx.close(got, mid, "gaunt:table-interior", "interpolated Gaunt factor leaves the envelope of the neighbouring tabulated "
                      "values (cell range widened by half the spread of the surrounding 4x4 knots)", atol=half, monitor="gaunt_envelope",
                      cell=[i, j], **detail)
