"""C03 — passive emission models radiate exactly their documented totals.

Real ExcitationLine / RecombinationLine / ThermalCXLine / TotalRadiatedPower / Bremsstrahlung objects attached to a
real Plasma (three routes: constructor arguments, plasma.models, Ray.trace through a uniform slab) and a real
RadiationFunction material are driven with the recording mock provider of vf/mock_c03.py.  The oracle recomputes the
plasma state at the point from the case's profile descriptions and evaluates the *documented* expressions; it shares
no code with the models.  Monitors: total, rate arguments / lookup keys, zero guards, non-negativity, linearity
(metamorphic, oracle-free), additivity into a pre-filled spectrum.
"""
import math

import numpy as np

from vf import mock_c03 as M

ID = "C03"
LEVEL = "exploration"
RULE = ("random plasmas of 1-6 species (neutrals, bare nuclei, isotopes, elements sharing charge states; unrelated species "
        "may carry zero/negative densities) with anisotropic exponential profiles pinned at the evaluation point, "
        "n in 1e14..1e22, T in 0.1..1e4; one model per case (exc / rec / tcx / trp / brems / radfn), one route (direct, "
        "attached through plasma.models, Ray.trace through a uniform slab) and one scenario (all-positive, or exactly one "
        "guarded quantity zero/negative, or a zero coefficient); line windows cover every component by >= 12 sigma for all "
        "six line-shape classes, continuum windows are arbitrary; a case is non-trivial when a deciding comparison ran on a "
        "non-zero expected emission or on a hostile (guard) input; distinct = distinct case descriptors")
LEVEL_TEXT = ("Exploration by runtime reference-model monitoring with an argument recorder: each generated configuration is "
              "executed by the real models and compared with the documented expressions evaluated independently on the "
              "recorded plasma state; right level because the property quantifies over continuous plasma states and "
              "compositions and the code is deterministic")
LEVEL_NOTE = ("trusted: the closed-form expressions and CODATA-2018 constants in this module, the mock coefficient formulas "
              "(inputs, not code under test), line-component positions taken from the documented line-shape physics only to "
              "size the windows")
TECHNIQUE = ("runtime monitoring: per-call reference-model oracle + recording mock atomic-data provider (argument recorder) "
             "+ metamorphic linearity/additivity monitors over generated and hostile plasma states")
ASSUMPTIONS = ["for thermal CX with several donors, a donor with non-positive density or temperature must contribute nothing; "
               "an identically zero emission is accepted as well (both readings of the zero clause)",
               "a non-positive temperature of the emitting species means zero emission for the Gaussian-family line shapes "
               "(width-less line); not judged for StarkBroadenedLine",
               "hydrogen-isotope neutral densities of mixed sign are not generated for TotalRadiatedPower (statement silent)",
               "bremsstrahlung bins are chosen so that the integrand varies by at most ~e^8 over a bin",
               "coefficients are non-negative (mock provider); negative coefficients are outside the statement"]
QUICK = dict(cases=1500, workers=2, timecap=45)
THOROUGH = dict(cases=150000, workers=16, timecap=600)
REQUIRED = {"total": 400, "rate_args": 300, "guard": 150, "nonneg": 400, "linearity": 150, "additivity": 50,
            "brems_bins": 200, "trp_bins": 100, "radfn_bins": 20}

# own CODATA-2018 constants (REFMATH)
E = 1.602176634e-19
C = 299792458.0
H = 6.62607015e-34
ME = 9.1093837015e-31
EPS0 = 8.8541878128e-12
AMU = 1.66053906660e-27
MUB = 5.7883818060e-5          # eV/T
HC_EV_NM = H * C * 1e9 / E

ZNUM = {"hydrogen": 1, "deuterium": 1, "tritium": 1, "helium": 2, "helium3": 2, "lithium": 3, "beryllium": 4, "boron": 5,
        "carbon": 6, "carbon13": 6, "nitrogen": 7, "oxygen": 8, "neon": 10, "neon22": 10, "argon": 18}
HYD = ("hydrogen", "deuterium", "tritium")
LINE_KINDS = ("exc", "rec", "tcx")
SHAPES = ("gaussian", "gaussian", "zeeman_triplet", "param_zeeman", "zeeman_multiplet", "multiplet", "stark")
TRANSITIONS = ([3, 2], [4, 2], [8, 7], ["2s1 3p1 3P4.0", "2s1 3s1 3S1.0"], ["5", "4"], [10, 9])


# ------------------------------------------------------------------------------------------------------------------
# generators
# ------------------------------------------------------------------------------------------------------------------

def _logu(rng, lo, hi):
    return float(10 ** rng.uniform(lo, hi))


def _nonpos(rng, scale):
    """A zero or negative value (exact zero half of the time)."""
    return 0.0 if rng.random() < 0.5 else -float(scale) * float(10 ** rng.uniform(-2, 0))


def _grad(rng, uniform):
    if uniform or rng.random() < 0.25:
        return [0.0, 0.0, 0.0]
    return [float(x) for x in rng.uniform(-1.5, 1.5, size=3)]


def _species(rng, el, q, uniform, n=None, t=None):
    return dict(el=el, q=int(q), n=_logu(rng, 14, 22) if n is None else n, t=_logu(rng, -1, 4) if t is None else t,
                gn=_grad(rng, uniform), gt=_grad(rng, uniform),
                v=[float(x) for x in rng.normal(size=3) * (0.0 if rng.random() < 0.3 else _logu(rng, 2, 5.5))])


def _extra_species(rng, have, uniform, count, hostile_ok=True, exclude=()):
    """Random further species: same element other charges, other elements sharing charges, isotopes, neutrals, bare."""
    out = []
    names = list(ZNUM)
    tries = 0
    while len(out) < count and tries < 50:
        tries += 1
        el = names[int(rng.integers(len(names)))]
        z = ZNUM[el]
        r = rng.random()
        q = 0 if r < 0.25 else (z if r < 0.5 else int(rng.integers(0, z + 1)))
        if (el, q) in have or (el, q) in exclude:
            continue
        have.add((el, q))
        sp = _species(rng, el, q, uniform)
        out.append(sp)
    return out


def gen_case(rng, tier):
    r = rng.random()
    kind = ("exc" if r < 0.17 else "rec" if r < 0.34 else "tcx" if r < 0.56 else "trp" if r < 0.74 else
            "brems" if r < 0.97 else "radfn")
    if kind == "radfn":
        return _gen_radfn(rng)
    r = rng.random()
    route = "direct" if r < 0.55 else ("attached" if r < 0.85 else "trace")
    uniform = route == "trace"
    case = dict(kind=kind, route=route, seed=int(rng.integers(1, 2 ** 31)),
                pt=[float(x) for x in rng.uniform(-0.4, 0.4, size=3)],
                dir=[float(x) for x in rng.normal(size=3)],
                ne=_logu(rng, 14, 22), te=_logu(rng, -1, 4), gne=_grad(rng, uniform), gte=_grad(rng, uniform),
                b=[0.0, 0.0, 0.0] if rng.random() < 0.3 else [float(x) for x in rng.normal(size=3) * _logu(rng, -2, 1)],
                scenario="positive", zero_keys=[], prefill=bool(rng.random() < 0.25), lin=None)
    if route == "trace":
        case["pt"] = [0.5, 0.0, 0.0]
        case["slab"] = dict(length=float(rng.uniform(0.2, 2.0)), step=float(rng.uniform(0.03, 0.3)),
                            angle=float(rng.uniform(-0.5, 0.5)) if rng.random() < 0.5 else 0.0)
    if kind in LINE_KINDS:
        _gen_line(rng, case, uniform)
    elif kind == "trp":
        _gen_trp(rng, case, uniform)
    else:
        _gen_brems(rng, case, uniform)
    # unrelated hostile species: densities / temperatures <= 0 on species the emission must not depend on
    for sp in case["species"]:
        if sp.get("role") is None and rng.random() < 0.2:
            if rng.random() < 0.5:
                sp["n"] = _nonpos(rng, sp["n"])
            elif kind != "tcx":      # for tcx every non-bare species is a donor, handled by scenarios
                sp["t"] = _nonpos(rng, sp["t"])
    return case


def _gen_line(rng, case, uniform):
    kind = case["kind"]
    names = list(ZNUM)
    el = names[int(rng.integers(len(names)))]
    z = ZNUM[el]
    q = int(rng.integers(0, z))
    tr = TRANSITIONS[int(rng.integers(len(TRANSITIONS)))]
    case["line"] = dict(el=el, q=q, tr=tr)
    tq = q if kind == "exc" else q + 1
    have = {(el, tq)}
    target = _species(rng, el, tq, uniform)
    target["role"] = "target"
    species = [target]
    if rng.random() < 0.6 and kind != "exc":   # the ion that actually emits: present but not the density to use
        have.add((el, q))
        species.append(_species(rng, el, q, uniform))
    if kind == "exc" and rng.random() < 0.6:
        have.add((el, q + 1))
        species.append(_species(rng, el, q + 1, uniform))
    nextra = int(rng.integers(0, 5))
    if kind == "tcx":
        nextra = max(nextra, 1)
    species += _extra_species(rng, have, uniform, nextra)
    if kind == "tcx":
        for sp in species:
            if sp.get("role") is None and sp["q"] < ZNUM[sp["el"]]:
                sp["role"] = "donor"
        if not any(sp.get("role") == "donor" for sp in species) or rng.random() < 0.4:
            for iso in HYD:
                if (iso, 0) not in have and rng.random() < 0.6:
                    have.add((iso, 0))
                    d = _species(rng, iso, 0, uniform, t=_logu(rng, -1, 2))
                    d["role"] = "donor"
                    species.append(d)
                    break
    order = rng.permutation(len(species))
    case["species"] = [species[i] for i in order]
    # line shape
    shape = SHAPES[int(rng.integers(len(SHAPES)))]
    ls = dict(name=shape, margin=float(rng.uniform(12, 40)), bins=int(rng.integers(1, 400)))
    if shape == "param_zeeman":
        ls["params"] = [_logu(rng, -2.5, -1), float(rng.uniform(0, 1.5)), float(rng.uniform(-0.5, 0.5))]
    if shape == "multiplet":
        ratios = [[1.0], [0.5, 0.5], [0.5, 0.25, 0.25], [0.125, 0.5, 0.25, 0.125], [0.25, 0.25, 0.25, 0.125, 0.125]][int(rng.integers(5))]
        ls["offsets"] = [float(x) for x in rng.uniform(-2, 2, size=len(ratios))]
        ls["ratios"] = ratios
    if shape == "zeeman_multiplet":
        ls["pi"] = [[float(rng.uniform(-0.5, 0.5)), float(rng.uniform(0.1, 1))] for _ in range(int(rng.integers(1, 4)))]
        ls["sp"] = [[float(rng.uniform(0, 1.0)), float(rng.uniform(0.1, 1))] for _ in range(int(rng.integers(1, 4)))]
        ls["sm"] = [[float(rng.uniform(-1.0, 0)), float(rng.uniform(0.1, 1))] for _ in range(int(rng.integers(1, 4)))]
    if shape == "stark":
        ls["fwhm_l"] = _logu(rng, -3.5, -0.5)
        ls["aij"] = float(rng.uniform(0.5, 0.8))
        ls["bij"] = float(rng.uniform(0.01, 0.1))
        ls["bins"] = int(rng.integers(8, 200))
    case["shape"] = ls
    # scenario
    r = rng.random()
    scen = "positive"
    if r > 0.5:
        opts = ["ne<=0", "te<=0", "target-density<=0", "target-temperature<=0", "zero-rate"]
        if kind == "tcx":
            opts += ["donor-density<0", "donor-density=0", "donor-temperature<=0", "donor-density<0", "donor-temperature<=0"]
        scen = opts[int(rng.integers(len(opts)))]
    donors = [sp for sp in case["species"] if sp.get("role") == "donor"]
    if scen == "ne<=0":
        case["ne"] = _nonpos(rng, case["ne"])
    elif scen == "te<=0":
        case["te"] = _nonpos(rng, case["te"])
    elif scen == "target-density<=0":
        target["n"] = _nonpos(rng, target["n"])
    elif scen == "target-temperature<=0":
        if shape == "stark":
            scen = "positive"
        else:
            target["t"] = _nonpos(rng, target["t"])
    elif scen == "zero-rate":
        if kind == "tcx":
            for d in donors:
                if rng.random() < 0.6 or len(donors) == 1:
                    case["zero_keys"].append(["tcx", [d["el"], d["q"], el, "->".join(str(x) for x in tr)]])
        else:
            case["zero_keys"].append([kind, [el, q, "->".join(str(x) for x in tr)]])
    elif scen.startswith("donor-") and donors:
        sel = [d for d in donors if rng.random() < 0.5] or [donors[int(rng.integers(len(donors)))]]
        for d in sel:
            if scen == "donor-density<0":
                d["n"] = -d["n"] * _logu(rng, -2, 0)
            elif scen == "donor-density=0":
                d["n"] = 0.0
            else:
                d["t"] = _nonpos(rng, d["t"])
    elif scen.startswith("donor-"):
        scen = "positive"
    case["scenario"] = scen
    if scen == "positive" and rng.random() < 0.6:
        involved = [i for i, sp in enumerate(case["species"]) if sp.get("role") in ("target", "donor")]
        others = [i for i, sp in enumerate(case["species"]) if sp.get("role") is None]
        pick = involved[int(rng.integers(len(involved)))]
        case["lin"] = dict(i=int(pick), k=_logu(rng, -2, 2),
                           other=int(others[int(rng.integers(len(others)))]) if others else None)


def _gen_trp(rng, case, uniform):
    names = list(ZNUM)
    el = names[int(rng.integers(len(names)))]
    z = ZNUM[el]
    q = int(rng.integers(0, z))
    case["elem"] = dict(el=el, q=q)
    have = {(el, q), (el, q + 1)}
    lo = _species(rng, el, q, uniform)
    lo["role"] = "lower"
    up = _species(rng, el, q + 1, uniform)
    up["role"] = "upper"
    species = [lo, up]
    for iso in HYD:
        if rng.random() < 0.55:
            if (iso, 0) in have:
                continue
            have.add((iso, 0))
            h = _species(rng, iso, 0, uniform)
            h["role"] = "hyd"
            species.append(h)
    if (el in HYD) and q == 0:
        lo["role"] = "lower+hyd"
    species += _extra_species(rng, have, uniform, int(rng.integers(0, 4)), exclude={(i, 0) for i in HYD})
    order = rng.permutation(len(species))
    case["species"] = [species[i] for i in order]
    lam0 = _logu(rng, 1, 3.3)
    case["window"] = dict(min=lam0, max=lam0 * (1 + _logu(rng, -3, 0.7)), bins=int(rng.integers(1, 65)))
    hyd = [sp for sp in case["species"] if "hyd" in sp.get("role", "")]
    scen = "positive"
    if rng.random() > 0.5:
        opts = ["ne<=0", "te<=0", "lower-density<=0", "upper-density<=0", "zero-rate"]
        if hyd and lo["role"] == "lower":
            opts.append("hyd-density<=0")
        scen = opts[int(rng.integers(len(opts)))]
    if scen == "ne<=0":
        case["ne"] = _nonpos(rng, case["ne"])
    elif scen == "te<=0":
        case["te"] = _nonpos(rng, case["te"])
    elif scen == "lower-density<=0":
        lo["n"] = 0.0 if lo["role"] == "lower+hyd" else _nonpos(rng, lo["n"])   # no mixed-sign hydrogen neutrals
    elif scen == "upper-density<=0":
        up["n"] = _nonpos(rng, up["n"])
    elif scen == "hyd-density<=0":
        for h in hyd:       # all of them, same sign class (mixed signs are not judged)
            h["n"] = _nonpos(rng, h["n"])
    elif scen == "zero-rate":
        for fam, key in (("plt", [el, q]), ("prb", [el, q + 1]), ("prc", [el, q + 1])):
            if rng.random() < 0.5:
                case["zero_keys"].append([fam, key])
    case["scenario"] = scen
    if scen == "positive" and rng.random() < 0.6:
        involved = [i for i, sp in enumerate(case["species"]) if sp.get("role")]
        others = [i for i, sp in enumerate(case["species"]) if sp.get("role") is None]
        case["lin"] = dict(i=int(involved[int(rng.integers(len(involved)))]), k=_logu(rng, -2, 2),
                           other=int(others[int(rng.integers(len(others)))]) if others else None)


def _gen_brems(rng, case, uniform):
    have = set()
    species = _extra_species(rng, have, uniform, int(rng.integers(1, 7)))
    if not any(sp["q"] > 0 for sp in species) and rng.random() < 0.8:
        species.append(_species(rng, "deuterium", 1, uniform))
    for sp in species:
        if sp["q"] > 0:
            sp["role"] = "ion"
    case["species"] = species
    r = rng.random()
    gaunt = "provider" if r < 0.45 else ("argument" if r < 0.8 else "real")
    r = rng.random()
    integ = "default" if r < 0.5 else ("tight" if r < 0.75 else "fixed")
    case["gaunt"] = gaunt
    case["integrator"] = integ
    te = case["te"]
    a = HC_EV_NM / te
    lam0 = max(_logu(rng, 1, 3.5), a / 250.0)
    if gaunt == "real":
        # stay inside the interpolation range of the tabulated Gaunt factor (no regime switch inside a bin)
        lam0 = max(lam0, 1.5 * HC_EV_NM / (te * 1e4))
    smax = 1.5 if rng.random() < 0.75 else 8.0
    rel = _logu(rng, -3, 0.5)
    bins = int(rng.integers(1, 65))
    width = lam0 * rel
    s = (width / bins / lam0) * max(abs(a / lam0 - 2.0), 2.0)
    if s > smax:
        width *= smax / s
    lam1 = lam0 + width
    if gaunt == "real":
        lam1 = min(lam1, 0.6 * HC_EV_NM / (te * 1e-4))
        bins = min(bins, 12)
        if lam1 <= lam0:
            case["gaunt"] = "provider"
            lam1 = lam0 + width
    case["window"] = dict(min=lam0, max=lam1, bins=bins)
    ions = [sp for sp in species if sp["q"] > 0]
    scen = "positive"
    if rng.random() > 0.6:
        opts = ["ne<=0", "te<=0"] + (["ion-density<=0"] if ions else [])
        scen = opts[int(rng.integers(len(opts)))]
    if scen == "ne<=0":
        case["ne"] = _nonpos(rng, case["ne"])
    elif scen == "te<=0":
        case["te"] = _nonpos(rng, case["te"])
    elif scen == "ion-density<=0":
        sel = [d for d in ions if rng.random() < 0.5] or [ions[int(rng.integers(len(ions)))]]
        for d in sel:
            d["n"] = _nonpos(rng, d["n"])
    case["scenario"] = scen
    if scen == "positive" and ions and rng.random() < 0.6:
        idx = [i for i, sp in enumerate(species) if sp["q"] > 0]
        others = [i for i, sp in enumerate(species) if sp["q"] == 0]
        case["lin"] = dict(i=int(idx[int(rng.integers(len(idx)))]), k=_logu(rng, -2, 2),
                           other=int(others[int(rng.integers(len(others)))]) if others else None)


def _gen_radfn(rng):
    lam0 = _logu(rng, 1, 3)
    return dict(kind="radfn", route="trace", scenario="positive" if rng.random() < 0.85 else "zero-power",
                power=_logu(rng, -3, 8), size=[float(x) for x in rng.uniform(0.2, 2.0, size=3)],
                step=float(rng.uniform(0.02, 0.3)), angle=float(rng.uniform(-0.4, 0.4)) if rng.random() < 0.5 else 0.0,
                window=dict(min=lam0, max=lam0 * (1 + _logu(rng, -3, 0.7)), bins=int(rng.integers(1, 40))))


def fixed_cases(tier):
    sp = lambda el, q, n, t, role=None, g=(0.3, -0.2, 0.5): dict(el=el, q=q, n=n, t=t, gn=list(g), gt=[-0.1, 0.4, 0.2],
                                                                   v=[1e4, -2e4, 5e3], **({"role": role} if role else {}))
    base = dict(route="direct", seed=12345, pt=[0.1, -0.2, 0.3], dir=[0.3, -0.5, 0.8], ne=3e19, te=45.0,
                gne=[0.2, 0.1, -0.3], gte=[0.0, 0.3, 0.1], b=[0.5, 1.0, -2.0], scenario="positive", zero_keys=[],
                prefill=True, lin=None)
    line = dict(el="carbon", q=5, tr=[8, 7])
    shape = dict(name="gaussian", margin=15.0, bins=64)
    tcx_species = [sp("carbon", 6, 2e17, 300.0, "target"), sp("deuterium", 0, 4e16, 3.0, "donor"),
                   sp("carbon", 5, 1e17, 250.0, "donor"), sp("deuterium", 1, 3e19, 400.0), sp("helium", 2, 1e18, 350.0)]
    out = [
        dict(base, kind="exc", line=line, shape=shape, species=[sp("carbon", 5, 2e17, 300.0, "target"), sp("carbon", 6, 5e17, 300.0)],
             lin=dict(i=0, k=3.0, other=1)),
        dict(base, kind="rec", line=line, shape=dict(shape, name="zeeman_triplet"),
             species=[sp("carbon", 5, 2e17, 300.0), sp("carbon", 6, 5e17, 310.0, "target")], lin=dict(i=1, k=0.25, other=0)),
        dict(base, kind="tcx", line=line, shape=shape, species=tcx_species, lin=dict(i=1, k=7.0, other=3)),
        dict(base, kind="tcx", line=line, shape=shape, scenario="donor-density<0",
             species=[dict(s, n=-s["n"]) if s["el"] == "deuterium" and s["q"] == 0 else s for s in tcx_species]),
        dict(base, kind="tcx", line=line, shape=shape, scenario="donor-temperature<=0",
             species=[dict(s, t=0.0) if s["el"] == "deuterium" and s["q"] == 0 else s for s in tcx_species]),
        dict(base, kind="trp", elem=dict(el="nitrogen", q=6), window=dict(min=500.0, max=550.0, bins=7),
             species=[sp("nitrogen", 6, 5e18, 1100.0, "lower"), sp("nitrogen", 7, 1e19, 1100.0, "upper"),
                      sp("hydrogen", 0, 1e18, 5.0, "hyd"), sp("deuterium", 0, 2e18, 5.0, "hyd"), sp("deuterium", 1, 3e19, 900.0)],
             lin=dict(i=1, k=2.5, other=4)),
        dict(base, kind="brems", gaunt="provider", integrator="default", window=dict(min=400.0, max=800.0, bins=32),
             species=[sp("deuterium", 1, 1e19, 2000.0, "ion"), sp("nitrogen", 7, 1e18, 2000.0, "ion"), sp("deuterium", 0, 1e17, 3.0)],
             te=2000.0, lin=dict(i=1, k=4.0, other=2)),
        dict(base, kind="brems", gaunt="real", integrator="tight", window=dict(min=400.0, max=420.0, bins=8),
             species=[sp("deuterium", 1, 1e19, 2000.0, "ion"), sp("carbon", 6, 1e18, 2000.0, "ion")], te=200.0),
        dict(kind="radfn", route="trace", scenario="positive", power=1.5e5, size=[1.0, 0.7, 0.9], step=0.05, angle=0.2,
             window=dict(min=300.0, max=700.0, bins=5)),
    ]
    return out
