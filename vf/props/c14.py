"""C14 — caching functions are history-independent and interpolate the cached function.

One case = one wrapped function F (given in normalised coordinates u_d = (x_d - c_d)/e_d), one caching area, one
resolution, optional value bounds, one point set (in-area points incl. duplicates, near-node and near-boundary
points; out-of-area points just outside, far outside, outside in one coordinate only) and several evaluation orders.
Every order is driven through a FRESH Caching1D/2D/3D object around a fresh recording wrapper of the same function.

Monitors (all judged on what the real objects returned / what the wrapped callable received):
  history      bit identity of the value at every in-area point across all orders (and across repeated evaluations
               of the same point inside one history, and across no_boundary_error on/off);
  outside_*    ValueError for every out-of-area point (no_boundary_error=False) / exactly one call of the wrapped
               function with exactly the given arguments and its value returned bit-identically (True);
  inside       no ValueError for points inside the area (3e-7 inside the documented 1e-7 skin);
  node         nodes = arguments the recording wrapper received while the cache was filling; at every recorded node
               inside the area the cache returns f(node) up to the rounding allowance;
  multilinear  constants and functions linear in each coordinate are reproduced up to the rounding allowance;
  errbound     |cache - f| <= sum_d H_d^2 max|d2f/dx_d2| + allowance, H_d = largest gap among the four recorded node
               coordinates around the point in dimension d (K = 1 per dimension, derivation below);
  bounds       a cache with function_boundaries and one without agree up to the rounding allowance;
  special      (counter) bit comparisons between histories at the special exact points (origin, signed zeros, corners,
               edges, exact nodes), which one order evaluates first on a fresh cache and the others later;
  scale_exact / scale   cache(2^k f) == 2^k cache(f) bit for bit / cache(shift + c f) == shift + c cache(f) to rounding.

Rounding allowance (stated once, used by node / multilinear / errbound / bounds / scale); everything in it is relative
to the function's own scales, nothing is absolute:
    the wrapped function is shift + scale * F; its magnitude is split into a constant part S_off (|shift| + constant term
    of F, max with |bound_min|, |bound_max| when value bounds are supplied) and a varying part S_v
    tol = 1e-9 S_v + 64 eps (16 S_off + S_v prod_d [1 + 2 rho_d th1_d + 8 rho_d^2 (1 + rho_d) th2_d])
    rho_d = (extent_d + 2 resolution_d) / h_d,min   (position of a cell in units of the cell width in the coordinates the
            class normalises to [0, 1] over the area; h_d,min = smallest gap between RECORDED node coordinates)
    th1_d = min(1, H_d max|df/dx_d| / S_v), th2_d = min(4, 6 H_d^2 max|d2f/dx_d2| / S_v)
  S_v prod[...] is the summed magnitude of the monomials of the cell cubic in the area-normalised coordinates (local
  coefficients a_1 ~ H f', a_2, a_3 <= 6 H^2 max|f''|, multiplied by (2 rho)^k): the true conditioning of the documented
  scheme, translation invariant and homogeneous of degree one in the function.  The bounds and scale clauses allow 2 tol
  (two caches).  Comparisons whose allowance exceeds 1e-3 S_v cannot separate a defect from cancellation: they are still
  judged but counted under <monitor>_weak.  far1d/far2d/far3d count the deciding comparisons made at |x|/spacing >= 1e4.
  Genuine limits of double precision that are not judged (counted as skips): 64 (S_off + S_v prod g) >= 1e300 (the
  monomials of the cell cubic overflow) and magnitudes below 1e-290 (denormal intermediates).

Scale equivariance: for the magnitude classes (scale = 2^k with amplitudes 1e-300..1e300, arbitrary scales, large
offset + tiny variation) a second cache is built around the base function F with the value bounds scaled back; for a
power of two and no shift the values must satisfy cache(2^k F) == 2^k cache(F) BIT FOR BIT (every operation of the scheme
is linear in the samples and the pivoting of the solver depends on the constraint matrix only), judged where the scaled
magnitude and the base magnitude exceed 1e-250 and the values are below 1e300; otherwise to 2 tol.

Why K = 1: the cached interpolant is a tensor product of a 1-D operator P that matches values at the two cell nodes and
uses secant slopes over the neighbouring nodes (P reproduces linear functions, |P g| <= 1.5 max|g|).  In 1-D
p - L = h[(d_i - s) h10 + (d_i+1 - s) h11] with L the linear interpolant, s the cell secant, |d - s| <= 2 H max|f''| and
h10 + |h11| <= 1/4, so |f - P f| <= (1/2 + 1/8) H^2 max|f''|.  f - PxPyPz f = (f - Px f) + Px(f - Py f) + PxPy(f - Pz f)
gives weights 0.625 (1, 1.5, 2.25); averaging the bound over the six orderings gives 0.99 per dimension.  The bound
needs only the pure second derivatives and holds for any interpolant of this family; it is what the property states
("a small multiple of the squared node spacing times its maximum curvature").

Mechanism classification: when a numerical clause fails, the SAME normalised function is cached on the SAME area
translated to the origin; if the clause holds there, the failure is the translation-dependent cancellation of an
absolute-coordinate polynomial and gets the key roundoff:<Class>:absolute-coordinate-cancellation; otherwise the
clause's own key is reported.  numpy.linalg.LinAlgError for an in-area point is reported as
singular:<Class>:fine-grid-conditioning (>= 20000 cells: conditioning limit of the area-wide monomial basis, open
finding for Caching2D) or singular:<Class>:coarse-grid (anything else).
"""
import collections
import math
import os
import pickle
import select
import signal
import struct
import time
import traceback

import numpy as np

ID = "C14"
LEVEL = "exploration"
RULE = ("random 1-/2-/3-D caching problems: area extent 1e-3..1e2 per axis at offsets 0..1e3 extents from the origin "
        "(classes origin/near/mid/far), 2..80 nodes per axis (3-D: 2..24, thorough ..40) incl. resolution > extent, plus "
        "the class farfine for all three dimensions alike (narrow finely resolved areas far from the origin: |x0| 1e3..1e6, "
        "extent 0.1..100, node spacing 1e-2..1e-4 of the extent along one axis, |x|/spacing up to 1e9, curved functions), "
        "function magnitude classes for all dimensions alike: unit (amplitude 1e-2..1e2), pow2 / anyscale (the same kinds "
        "times 2^k or an arbitrary factor, amplitudes 1e-298..1e296, half of them 1e-16..1e-5), offset (offset 1e1..1e10 times "
        "the variation), exact special in-area points in every case (the origin and signed zeros in some coordinates when "
        "the area contains them, area corners / edges / faces, exact nodes) evaluated FIRST on a fresh cache (one of them "
        "twice in a row, optionally preceded by the origin as an out-of-area point) and later in the other orders; "
        "origin-class areas place 0 inside a cell, on a node (exactly), or on a face; "
        "wrapped function from {constant, multilinear, quadratic, product of sines, sine of a sum, exponential, steep "
        "Gaussian}, value bounds absent/tight/loose/degenerate/narrow; 14..44 in-area points (uniform, on/near nominal "
        "nodes, 4e-7 inside the boundary, duplicates) and 6..10 out-of-area points driven through 5..7 fresh caches in "
        "sorted, reversed, special-first, random-interleaved and clustered-then-scattered order; a case is non-trivial when at least "
        "two histories were compared bit-for-bit on >= 5 in-area points and one numerical clause was decided "
        "(distinct = distinct expanded case descriptors)")
LEVEL_TEXT = ("Exploration by runtime monitoring: each generated problem is executed on the real Caching1D/2D/3D "
              "objects under several evaluation histories; results are compared bit-for-bit between histories and "
              "against the wrapped Python function at the arguments the recording wrapper actually received; "
              "appropriate because the property quantifies over continuous inputs and unbounded histories of "
              "deterministic single-threaded code")
LEVEL_NOTE = ("trusted: the Python reference functions and their analytic curvature bounds in this module; 'any "
              "twice-differentiable function' is restated as the sampled family above; points within 3e-7 of the "
              "area boundary are not judged (documented 1e-7 skin)")
TECHNIQUE = ("runtime monitoring: history independence (fresh caches driven with permuted point sets incl. interleaved "
             "out-of-area points, bit-identical results) + argument recorder (nodes = arguments received) + "
             "reference-model oracle (multilinear exactness with computed cancellation allowance, h^2 max|f''| bound)")
ASSUMPTIONS = ["wrapped functions are deterministic, finite and pure (the recording wrapper only appends to a list)",
               "in-area = inside the closed area (faces, edges, corners included), out-of-area = at least 3e-7 outside one "
               "face (the documented 1e-7 skin lies outside the area and is not judged)",
               "rounding allowance 1e-9 S_v + 64 eps (16 S_off + magnitude of the monomials of the cell cubic in the area-"
               "normalised coordinates), S_v / S_off = varying / constant part of the function's magnitude (translation "
               "invariant, homogeneous in the function); clauses whose allowance exceeds 1e-3 S_v count as *_weak only",
               "magnitudes whose cell-cubic monomials reach 1e300 or that lie below 1e-290 are outside double precision "
               "for this scheme and are not judged numerically (history / area clauses still are)",
               "each case runs in a forked child (os.fork + pipe); a child killed by a signal is a violation crash:<Class>:<SIG>",
               "value bounds are finite with min <= max"]
ASAN_MODULES = ['cherab.core.math.caching.caching1d', 'cherab.core.math.caching.caching2d', 'cherab.core.math.caching.caching3d', 'cherab.core.math.interpolators.utility']
ASAN = dict(cases=600, workers=8, timecap=240)
QUICK = dict(cases=600, workers=2, timecap=30)
THOROUGH = dict(cases=40000, workers=16, timecap=600)
REQUIRED = {"history": 15000, "repeat": 1000, "outside_raise": 2000, "outside_passthrough": 4000, "inside": 25000,
            "node": 4000, "multilinear": 1500, "errbound": 3000, "bounds": 3000, "far1d": 500, "far2d": 500, "far3d": 250,
            "scale_exact": 1200, "scale": 500, "special": 5000}

EPS = 2.220446049250313e-16
SKIN = 3e-7
CLS = {1: "Caching1D", 2: "Caching2D", 3: "Caching3D"}
ROUNDOFF_KEY = "roundoff:%s:absolute-coordinate-cancellation"


# ------------------------------------------------------------------------------------------------
# reference functions in normalised coordinates
# ------------------------------------------------------------------------------------------------

class Fn:
    """Base function F(u_1..u_d) (called directly) and the wrapped function shift + scale * F (see phys()).
    For the WRAPPED function: mag(hull) bounds its magnitude incl. internal term magnitudes, split(hull) = (constant part,
    varying part) of that magnitude, grad(hull)[d] / curv(hull)[d] bound |d/du_d| and |d2/du_d2|."""

    def __init__(self, fd, dim):
        self.fd = fd
        self.dim = dim
        self.kind = fd["kind"]
        self.scale = float(fd.get("scale", 1.0))
        self.shift = float(fd.get("shift", 0.0))

    def base(self):
        fd = dict(self.fd)
        fd.pop("scale", None)
        fd.pop("shift", None)
        return Fn(fd, self.dim)

    def mag(self, hull):
        return abs(self.shift) + abs(self.scale) * self._mag0(hull)

    def split(self, hull):
        o, m = self._off0(), self._mag0(hull)
        return abs(self.shift) + abs(self.scale) * o, abs(self.scale) * max(m - o, 0.0)

    def grad(self, hull):
        return [abs(self.scale) * g for g in self._grad0(hull)]

    def curv(self, hull):
        return [abs(self.scale) * c for c in self._curv0(hull)]

    def _off0(self):
        fd, k = self.fd, self.kind
        if k == "const":
            return abs(fd["a"])
        if k in ("multilinear", "quadratic"):
            return sum(abs(c) for mask, c in fd["terms"] if mask == 0)
        if k in ("sinprod", "sinsum", "gauss"):
            return abs(fd["b"])
        return 0.0

    def __call__(self, *u):
        fd = self.fd
        k = self.kind
        if k == "const":
            return fd["a"]
        if k in ("multilinear", "quadratic"):
            s = 0.0
            for mask, c in fd["terms"]:
                t = c
                for d in range(self.dim):
                    if mask >> d & 1:
                        t *= u[d]
                s += t
            if k == "quadratic":
                for d in range(self.dim):
                    s += fd["q"][d] * u[d] * u[d]
            return s
        if k == "sinprod":
            t = fd["a"]
            for d in range(self.dim):
                t *= math.sin(fd["k"][d] * u[d] + fd["p"][d])
            return t + fd["b"]
        if k == "sinsum":
            t = fd["p"][0]
            for d in range(self.dim):
                t += fd["k"][d] * u[d]
            return fd["a"] * math.sin(t) + fd["b"]
        if k == "exp":
            t = 0.0
            for d in range(self.dim):
                t += fd["k"][d] * u[d]
            return fd["a"] * math.exp(min(t, 600.0))      # saturated: far out-of-area pass-through points stay finite
        if k == "gauss":
            t = 0.0
            for d in range(self.dim):
                z = (u[d] - fd["m"][d]) / fd["s"][d]
                t += z * z
            return fd["a"] * math.exp(-0.5 * t) + fd["b"]
        raise ValueError("unknown function kind %r" % k)

    def _mag0(self, hull):
        fd = self.fd
        k = self.kind
        um = [max(abs(lo), abs(hi)) for lo, hi in hull]
        if k == "const":
            return abs(fd["a"])
        if k in ("multilinear", "quadratic"):
            s = 0.0
            for mask, c in fd["terms"]:
                t = abs(c)
                for d in range(self.dim):
                    if mask >> d & 1:
                        t *= um[d]
                s += t
            if k == "quadratic":
                for d in range(self.dim):
                    s += abs(fd["q"][d]) * um[d] ** 2
            return s
        if k in ("sinprod", "sinsum", "gauss"):
            return abs(fd["a"]) + abs(fd["b"])
        if k == "exp":
            t = sum(max(fd["k"][d] * hull[d][0], fd["k"][d] * hull[d][1]) for d in range(self.dim))
            return abs(fd["a"]) * math.exp(t)
        raise ValueError(k)

    def _grad0(self, hull):
        """bounds of |dF/du_d| over the hull"""
        fd = self.fd
        k = self.kind
        um = [max(abs(lo), abs(hi)) for lo, hi in hull]
        if k == "const":
            return [0.0] * self.dim
        if k in ("multilinear", "quadratic"):
            out = []
            for d in range(self.dim):
                s = 0.0
                for mask, c in fd["terms"]:
                    if mask >> d & 1:
                        t = abs(c)
                        for e in range(self.dim):
                            if e != d and mask >> e & 1:
                                t *= um[e]
                        s += t
                if k == "quadratic":
                    s += 2.0 * abs(fd["q"][d]) * um[d]
                out.append(s)
            return out
        if k in ("sinprod", "sinsum"):
            return [abs(fd["a"]) * abs(fd["k"][d]) for d in range(self.dim)]
        if k == "exp":
            m = self._mag0(hull)
            return [m * abs(fd["k"][d]) for d in range(self.dim)]
        if k == "gauss":
            return [abs(fd["a"]) * 0.61 / fd["s"][d] for d in range(self.dim)]
        raise ValueError(k)

    def _curv0(self, hull):
        fd = self.fd
        k = self.kind
        if k in ("const", "multilinear"):
            return [0.0] * self.dim
        if k == "quadratic":
            return [2.0 * abs(fd["q"][d]) for d in range(self.dim)]
        if k in ("sinprod", "sinsum"):
            return [abs(fd["a"]) * fd["k"][d] ** 2 for d in range(self.dim)]
        if k == "exp":
            m = self._mag0(hull)
            return [m * fd["k"][d] ** 2 for d in range(self.dim)]
        if k == "gauss":
            # |g''| <= 1 for g(t) = exp(-t^2/2); the other factors are <= 1
            return [abs(fd["a"]) / fd["s"][d] ** 2 for d in range(self.dim)]
        raise ValueError(k)


def phys(F, centre, ext):
    """f(x) = shift + scale * F((x - c)/e) as a plain Python callable of `dim` floats (scale 1 / shift 0 are not applied at
    all, so that a power-of-two scale is an exact scaling of every value)."""
    g = _phys0(F, centre, ext)
    sc, sh = F.scale, F.shift
    if sc == 1.0 and sh == 0.0:
        return g
    if sh == 0.0:
        return lambda *x: sc * g(*x)
    return lambda *x: sh + sc * g(*x)


def _phys0(F, centre, ext):
    dim = F.dim
    if dim == 1:
        c0, e0 = centre[0], ext[0]
        return lambda x: F((x - c0) / e0)
    if dim == 2:
        c0, e0, c1, e1 = centre[0], ext[0], centre[1], ext[1]
        return lambda x, y: F((x - c0) / e0, (y - c1) / e1)
    c0, e0, c1, e1, c2, e2 = centre[0], ext[0], centre[1], ext[1], centre[2], ext[2]
    return lambda x, y, z: F((x - c0) / e0, (y - c1) / e1, (z - c2) / e2)


class Rec:
    """RECORD: appends the received arguments, returns f(args)."""

    def __init__(self, f):
        self.f = f
        self.calls = []

    def __call__(self, *a):
        self.calls.append(a)
        return self.f(*a)


# ------------------------------------------------------------------------------------------------
# generator
# ------------------------------------------------------------------------------------------------

def _gen_func(rng, dim, kind):
    r = lambda lo, hi: float(rng.uniform(lo, hi))
    amp = float(10 ** rng.uniform(-2, 2)) * (1 if rng.random() < 0.7 else -1)
    if kind == "const":
        return dict(kind=kind, a=[0.0, 1.0, amp, -amp, 1e-30, 3e20][int(rng.integers(6))])
    if kind in ("multilinear", "quadratic"):
        terms = [[m, float(amp * rng.normal())] for m in range(2 ** dim)]
        if rng.random() < 0.3:                      # sparse: only the top mixed term and the constant
            terms = [[0, terms[0][1]], [2 ** dim - 1, terms[-1][1]]]
        fd = dict(kind=kind, terms=terms)
        if kind == "quadratic":
            fd["q"] = [float(amp * rng.normal()) for _ in range(dim)]
        return fd
    if kind in ("sinprod", "sinsum"):
        return dict(kind=kind, a=amp, b=float(amp * rng.normal()) if rng.random() < 0.5 else 0.0,
                    k=[float(10 ** rng.uniform(-0.3, 1.1)) for _ in range(dim)], p=[r(0, 6.3) for _ in range(dim)])
    if kind == "exp":
        return dict(kind=kind, a=amp, k=[r(-4, 4) for _ in range(dim)])
    if kind == "gauss":
        return dict(kind=kind, a=amp, b=float(amp * rng.normal()) if rng.random() < 0.3 else 0.0,
                    m=[r(-0.4, 0.4) for _ in range(dim)], s=[float(10 ** rng.uniform(-1.7, 0)) for _ in range(dim)])
    raise ValueError(kind)


FKINDS = ["const", "multilinear", "multilinear", "multilinear", "quadratic", "quadratic", "sinprod", "sinprod", "sinsum",
          "exp", "gauss", "gauss"]


def _zero_node_axis(rng, e, n):
    """(lo, hi, resolution) of an axis whose sampling grid linspace(lo - 1e-7, hi + 1e-7, n) has a node at exactly 0.0."""
    s0 = e / (n - 1)
    m = 20 - int(math.floor(math.log2(s0)))
    st = round(s0 * 2.0 ** m) / 2.0 ** m               # dyadic step with <= 21 significant bits: k * st is exact
    k = int(rng.integers(1, n - 1))
    start, stop = -k * st, (n - 1 - k) * st
    a = b = None
    x = start + 1e-7
    for cand in [x] + [float(np.nextafter(x, s * np.inf)) for s in (1, -1)]:
        if cand - 1e-7 == start:
            a = cand
    x = stop - 1e-7
    for cand in [x] + [float(np.nextafter(x, s * np.inf)) for s in (1, -1)]:
        if cand + 1e-7 == stop:
            b = cand
    if a is None or b is None or not a < 0.0 < b:
        return None
    h = (b - a) / (n - 1 + 0.5)
    if max(int((b - a) / h) + 1, 2) != n or np.linspace(a - 1e-7, b + 1e-7, n)[k] != 0.0:
        return None
    return float(a), float(b), float(h)


FARKINDS = ["multilinear", "quadratic", "quadratic", "sinprod", "sinprod", "sinsum", "exp", "gauss"]


def gen_case(rng, tier):
    dim = int(rng.choice([1, 2, 3], p=[0.3, 0.4, 0.3]))
    kind = FKINDS[int(rng.integers(len(FKINDS)))]
    offclass = str(rng.choice(["origin", "near", "mid", "far", "farfine"], p=[0.31, 0.31, 0.17, 0.08, 0.13]))
    lo, hi, res, nn = [], [], [], []
    if offclass == "farfine":
        # narrow, finely resolved area far from the origin (wavelength-like axes), the same for 1-D/2-D/3-D: absolute offset
        # 1e3..1e6, node spacing 1e-2..1e-4 of the extent along one axis (|x|/spacing up to 1e9), curved functions
        kind = FARKINDS[int(rng.integers(len(FARKINDS)))]
        fine = int(rng.integers(dim))
        budget = {1: 12000, 2: 60000, 3: 30000}[dim]
        for d in range(dim):
            e = float(10 ** rng.uniform(-1, 2))
            x0 = float(10 ** rng.uniform(3, 6))
            if rng.random() < 0.3:
                x0 = float(round(x0))
            a = x0 if rng.random() < 0.5 else -x0 - e
            b = a + e
            if d == fine:
                sp = e * float(10 ** rng.uniform(-4, -2))
                sp = max(sp, 2e-5, max(abs(a), abs(b)) / 1e9)
                n = int(min(max(round(e / sp), 20), budget // (4 ** (dim - 1))))
            else:
                n = int(rng.integers(2, 9 if dim == 3 else 25))
                if dim == 3 and d == 2 and fine != 2:
                    n = int(min(n, max(2, budget // max(nn[0] * nn[1], 1))))
            h = (b - a) / (n - 1 + float(rng.uniform(0.05, 0.95)))
            lo.append(a)
            hi.append(b)
            res.append(float(h))
            nn.append(n)
        if dim > 1:   # keep the number of cells inside the memory budget whatever the position of the fine axis
            other = 1
            for d in range(dim):
                if d != fine:
                    other *= nn[d]
            if nn[fine] * other > budget:
                nn[fine] = max(20, budget // other)
                res[fine] = float((hi[fine] - lo[fine]) / (nn[fine] - 1 + 0.5))
    for d in range(dim if offclass != "farfine" else 0):
        e = float(10 ** rng.uniform(-3, 2))
        zero_node = None
        if offclass == "origin":
            a = -float(rng.uniform(0, 1)) * e
            zp = rng.random()            # where 0 lies: inside a cell (default) / on the lower face / on the upper face / on a node
            if zp < 0.13:
                a = 0.0
            elif zp < 0.23:
                a = -e
            elif zp < 0.43:
                zero_node = True
        else:
            rel = dict(near=rng.uniform(0, 3), mid=10 ** rng.uniform(0.5, 2), far=10 ** rng.uniform(2, 3))[offclass]
            a = float(rel) * e
            if rng.random() < 0.5:
                a = -a - e
        if rng.random() < 0.2:
            a = float(round(a, 2)) if abs(a) > 0.05 else a
        b = a + e
        nmax = 80 if dim < 3 else (40 if tier == "thorough" else 24)
        u = rng.random()
        if u < 0.1:
            n = 2
        elif u < 0.2:
            n = 3
        else:
            n = int(round(float(np.exp(rng.uniform(np.log(3), np.log(nmax))))))
        if dim == 3 and len(nn) == 2 and nn[0] * nn[1] * n > 30000:
            n = max(2, 30000 // (nn[0] * nn[1]))
        if n == 2 and rng.random() < 0.5:
            h = (b - a) * float(rng.uniform(1.0, 5.0))              # resolution > extent
        else:
            h = (b - a) / (n - 1 + float(rng.uniform(0.05, 0.95)))     # int(extent/h)+1 == n, away from the edges
        if zero_node and n >= 3 and h <= (b - a):
            zn = _zero_node_axis(rng, e, n)
            if zn is not None:
                a, b, h = zn
        lo.append(a)
        hi.append(b)
        res.append(float(h))
        nn.append(n)
    ext = [hi[d] - lo[d] for d in range(dim)]
    centre = [0.5 * (lo[d] + hi[d]) for d in range(dim)]
    fd = _gen_func(rng, dim, kind)
    # ---- magnitude class: the wrapped function is shift + scale * F --------------------------------------------------
    mclass = str(rng.choice(["unit", "pow2", "anyscale", "offset"], p=[0.5, 0.28, 0.08, 0.14]))
    if mclass != "unit":
        m0 = Fn(fd, dim).mag([(-0.7, 0.7)] * dim)
        m0 = m0 if (m0 > 0 and math.isfinite(m0)) else 1.0
        if mclass == "offset":
            target = float(10 ** rng.uniform(-12, 12))
        elif rng.random() < 0.5:
            target = float(10 ** rng.uniform(-16, -5))           # small enough for any absolute threshold, no underflow issues
        else:
            target = float(10 ** rng.uniform(-298, 296))
        sc = 2.0 ** int(min(max(round(math.log2(target) - math.log2(m0)), -1000), 1000))
        if mclass == "anyscale":
            sc *= float(rng.uniform(1.0, 2.0))
        fd["scale"] = float(sc)
        if mclass == "offset":      # large offset, comparatively tiny variation
            fd["shift"] = float((1 if rng.random() < 0.5 else -1) * 10 ** rng.uniform(1, 10) * sc * m0)
    # ---- points --------------------------------------------------------------------------------
    safe_lo = [lo[d] + 4e-7 for d in range(dim)]
    safe_hi = [hi[d] - 4e-7 for d in range(dim)]
    nominal = [np.linspace(lo[d] - 1e-7, hi[d] + 1e-7, nn[d]) for d in range(dim)]

    def coord(d):
        u = rng.random()
        if u < 0.55:
            x = rng.uniform(safe_lo[d], safe_hi[d])
        elif u < 0.8:
            g = nominal[d][int(rng.integers(nn[d]))]
            x = g + [0.0, 1e-9 * ext[d], -1e-9 * ext[d], 1e-3 * res[d], -1e-3 * res[d]][int(rng.integers(5))]
        elif u < 0.9:
            x = safe_lo[d] if rng.random() < 0.5 else safe_hi[d]
        else:
            x = lo[d] + ext[d] * [0.5, 0.25, 0.75][int(rng.integers(3))]
        return float(min(max(x, safe_lo[d]), safe_hi[d]))

    m = int(rng.integers(10, 30))
    pts = [[coord(d) for d in range(dim)] for _ in range(m)]
    # a cluster inside one cell
    base = pts[0]
    for _ in range(int(rng.integers(2, 6))):
        pts.append([float(min(max(base[d] + 0.2 * res[d] * rng.uniform(-1, 1), safe_lo[d]), safe_hi[d])) for d in range(dim)])
    # duplicates
    for _ in range(int(rng.integers(2, 5))):
        pts.append(list(pts[int(rng.integers(len(pts)))]))

    # ---- special exact points: origin / signed zeros, corners, edges, exact nodes --------------------------------------
    special = []
    zero_ok = [lo[d] <= 0.0 <= hi[d] for d in range(dim)]

    def add_special(p):
        p = [float(v) for v in p]
        if all(lo[d] <= p[d] <= hi[d] for d in range(dim)):
            special.append(len(pts))
            pts.append(p)

    if all(zero_ok):
        add_special([0.0] * dim)
        z = [0.0 if rng.random() < 0.5 else -0.0 for _ in range(dim)]
        z[int(rng.integers(dim))] = -0.0
        add_special(z)
    if any(zero_ok):
        p = [coord(d) for d in range(dim)]
        zd = [d for d in range(dim) if zero_ok[d]]
        for d in zd:
            if rng.random() < 0.6:
                p[d] = 0.0 if rng.random() < 0.7 else -0.0
        p[zd[int(rng.integers(len(zd)))]] = 0.0
        add_special(p)
    add_special(list(lo))
    add_special(list(hi))
    add_special([lo[d] if rng.random() < 0.5 else hi[d] for d in range(dim)])
    p = [coord(d) for d in range(dim)]
    de = int(rng.integers(dim))
    p[de] = lo[de] if rng.random() < 0.5 else hi[de]
    add_special(p)
    add_special([float(nominal[d][int(rng.integers(1, nn[d] - 1))]) if nn[d] >= 3 else coord(d) for d in range(dim)])
    p = [coord(d) for d in range(dim)]
    dn = int(rng.integers(dim))
    if nn[dn] >= 3:
        p[dn] = float(nominal[dn][int(rng.integers(1, nn[dn] - 1))])
    add_special(p)

    def out_coord(d, how):
        if how == "near_lo":
            return lo[d] - float(rng.uniform(4e-7, max(res[d] * 0.999, 5e-7)))
        if how == "near_hi":
            return hi[d] + float(rng.uniform(4e-7, max(res[d] * 0.999, 5e-7)))
        if how == "far_lo":
            return lo[d] - res[d] * float(rng.uniform(1.001, 4)) - 1e-6
        if how == "far_hi":
            return hi[d] + res[d] * float(rng.uniform(1.001, 4)) + 1e-6
        if how == "huge_lo":
            return lo[d] - 1e9 * ext[d]
        return hi[d] + 1e9 * ext[d]

    hows = ["near_lo", "near_hi", "far_lo", "far_hi", "huge_lo", "huge_hi"]
    outs = []
    for j in range(int(rng.integers(6, 11))):
        p = [coord(d) for d in range(dim)]
        d_out = int(rng.integers(dim)) if j >= 2 or dim == 1 else dim - 1 - j % dim   # incl. "only the last axis outside"
        p[d_out] = float(out_coord(d_out, hows[j % 6] if j < 6 else hows[int(rng.integers(6))]))
        if dim > 1 and rng.random() < 0.2:
            d2 = int(rng.integers(dim))
            p[d2] = float(out_coord(d2, hows[int(rng.integers(6))]))
        outs.append(p)
    origin_out = None
    if any(0.0 < lo[d] - 4e-7 or 0.0 > hi[d] + 4e-7 for d in range(dim)):
        origin_out = len(outs)
        outs.append([0.0] * dim)                   # the origin as an out-of-area point
    # ---- value bounds ---------------------------------------------------------------------------
    F = Fn(fd, dim)
    f = phys(F, centre, ext)
    vals = [f(*p) for p in pts]
    vmin, vmax = min(vals), max(vals)
    span = max(vmax - vmin, 1e-3 * max(abs(vmin), abs(vmax)), 1e-320)
    bclass = str(rng.choice(["none", "tight", "loose", "degenerate", "narrow"], p=[0.3, 0.3, 0.2, 0.1, 0.1]))
    if bclass == "none":
        bounds = None
    elif bclass == "tight":
        bounds = [vmin - 0.05 * span, vmax + 0.05 * span]
    elif bclass == "loose":
        bounds = [vmin - float(10 ** rng.uniform(1, 6)) * span, vmax + float(10 ** rng.uniform(1, 6)) * span]
    elif bclass == "degenerate":
        c = [vmin, 0.0, vmax + span][int(rng.integers(3))]
        bounds = [c, c]
    else:
        bounds = [vmin + 0.3 * span, vmin + 0.6 * span]
    # ---- orders: entries are ["i", k] (in-area point k) or ["o", k] (out-of-area point k) -----------------
    nin, nout = len(pts), len(outs)
    idx_sorted = sorted(range(nin), key=lambda k: pts[k])
    o_sorted = [["i", k] for k in idx_sorted] + [["o", k] for k in range(nout)]
    o_rev = [["o", k] for k in reversed(range(nout))] + [["i", k] for k in reversed(idx_sorted)]
    mix = [["i", k] for k in range(nin)] + [["o", k] for k in range(nout)] + [["i", int(rng.integers(nin))] for _ in range(6)]
    perm = rng.permutation(len(mix))
    o_rand = [mix[int(j)] for j in perm]
    cidx = sorted(range(nin), key=lambda k: sum(((pts[k][d] - pts[0][d]) / ext[d]) ** 2 for d in range(dim)))
    half = nin // 2
    rest = [cidx[half:][int(j)] for j in rng.permutation(nin - half)]
    o_clu = [["i", k] for k in cidx[:half]] + [["o", int(rng.integers(nout))]] + [["i", k] for k in rest] + [["i", cidx[0]]]
    # special points first on a fresh cache: (the origin outside the area,) one special point twice in a row, the others,
    # then everything else
    sp = [special[int(j)] for j in rng.permutation(len(special))]
    if all(zero_ok) and rng.random() < 0.7:
        sp.remove(special[0])
        sp.insert(0, special[0])                   # the origin itself is the very first in-area call
    head = []
    spec_nbe = bool(rng.random() < 0.5)
    if origin_out is not None and rng.random() < 0.6:
        head = [["o", origin_out]]
    restp = [int(j) for j in rng.permutation(nin) if int(j) not in set(special)]
    o_spec = head + [["i", sp[0]], ["i", sp[0]]] + [["i", k] for k in sp[1:]] + [["i", k] for k in restp] + \
        [["o", k] for k in range(nout)] + [["i", sp[0]]]
    orders = [dict(name="sorted", nbe=False, seq=o_sorted), dict(name="reversed", nbe=True, seq=o_rev),
              dict(name="special-first", nbe=spec_nbe, seq=o_spec),
              dict(name="random", nbe=bool(rng.random() < 0.5), seq=o_rand),
              dict(name="clustered", nbe=bool(rng.random() < 0.5), seq=o_clu)]
    zclass = []
    for d in range(dim):
        if not zero_ok[d]:
            zclass.append("outside")
        elif lo[d] == 0.0 or hi[d] == 0.0:
            zclass.append("face")
        else:
            zclass.append("node" if bool((nominal[d] == 0.0).any()) else "cell")
    return dict(dim=dim, lo=lo, hi=hi, res=res, nn=nn, offclass=offclass, mclass=mclass, zclass=zclass, func=fd, bounds=bounds,
                bclass=bclass, pts=pts, outs=outs, special=special, orders=orders)


def _mk_fixed(dim, lo, hi, res, fd, bounds=None, npts=24, seed=1, bclass=None):
    """Deterministic case builder for fixed_cases (own small LCG so nothing depends on numpy's generator version)."""
    state = [seed * 2654435761 % 2 ** 32 or 1]

    def rnd():
        state[0] = (1103515245 * state[0] + 12345) % 2 ** 31
        return state[0] / 2 ** 31
    pts = [[lo[d] + 4e-7 + (hi[d] - lo[d] - 8e-7) * rnd() for d in range(dim)] for _ in range(npts)]
    pts.append([lo[d] + 4e-7 for d in range(dim)])
    pts.append([hi[d] - 4e-7 for d in range(dim)])
    pts.append(list(pts[0]))
    outs = []
    for d in range(dim):
        for delta in (-0.5 * res[d], -2.5 * res[d] - 1e-6):
            p = [0.5 * (lo[k] + hi[k]) for k in range(dim)]
            p[d] = lo[d] + delta
            outs.append(p)
        for delta in (0.5 * res[d], 2.5 * res[d] + 1e-6):
            p = [0.5 * (lo[k] + hi[k]) for k in range(dim)]
            p[d] = hi[d] + delta
            outs.append(p)
    nin, nout = len(pts), len(outs)
    srt = sorted(range(nin), key=lambda k: pts[k])
    inter = []
    for j, k in enumerate(reversed(range(nin))):
        inter.append(["i", k])
        if j < nout:
            inter.append(["o", j])
    orders = [dict(name="sorted", nbe=False, seq=[["i", k] for k in srt] + [["o", k] for k in range(nout)]),
              dict(name="reversed", nbe=True, seq=[["o", k] for k in range(nout)] + [["i", k] for k in reversed(srt)]),
              dict(name="interleaved", nbe=False, seq=inter + [["i", 0], ["i", nin - 1]])]
    nn = [max(int((hi[d] - lo[d]) / res[d]) + 1, 2) for d in range(dim)]
    return dict(dim=dim, lo=list(map(float, lo)), hi=list(map(float, hi)), res=list(map(float, res)), nn=nn,
                offclass="fixed", func=fd, bounds=bounds, bclass=bclass or ("none" if bounds is None else "tight"),
                pts=pts, outs=outs, orders=orders)


def fixed_cases(tier):
    ml1 = dict(kind="multilinear", terms=[[0, 0.7], [1, -1.3]])
    ml2 = dict(kind="multilinear", terms=[[0, 0.7], [1, -1.3], [2, 0.4], [3, 2.1]])
    ml3 = dict(kind="multilinear", terms=[[m, c] for m, c in enumerate([0.7, -1.3, 0.4, 2.1, -0.6, 0.9, 1.1, -1.7])])
    sin1 = dict(kind="sinprod", a=1.0, b=0.0, k=[6.0], p=[0.3])
    sin2 = dict(kind="sinprod", a=2.0, b=0.5, k=[5.0, 3.0], p=[0.3, 1.0])
    sin3 = dict(kind="sinsum", a=1.0, b=0.0, k=[4.0, 3.0, 2.0], p=[0.3])
    g2 = dict(kind="gauss", a=3.0, b=0.0, m=[0.1, -0.2], s=[0.05, 0.3])
    out = [
        # the repository tests' own configurations, other access patterns
        _mk_fixed(1, [-5], [2], [0.1], sin1, seed=1),
        _mk_fixed(2, [-5, 0.5], [2, 4], [0.1, 0.05], sin2, seed=2),
        _mk_fixed(3, [-5, 0.5, -8.3], [2, 4, -1.1], [0.5, 0.25, 0.6], sin3, seed=3),
        # two-node grids and resolution > extent
        _mk_fixed(1, [0.0], [1.0], [3.0], ml1, seed=4),
        _mk_fixed(2, [0.0, -1.0], [1.0, 1.0], [3.0, 0.9], ml2, seed=5),
        _mk_fixed(3, [0.0, -1.0, 2.0], [1.0, 1.0, 2.5], [3.0, 0.9, 0.2], ml3, seed=6),
        # value bounds: tight, degenerate, loose
        _mk_fixed(1, [1.0], [3.0], [0.07], sin1, bounds=[-1.0, 1.0], seed=7),
        _mk_fixed(2, [1.0, -2.0], [3.0, 0.0], [0.07, 0.11], ml2, bounds=[5.0, 5.0], seed=8, bclass="degenerate"),
        _mk_fixed(3, [1.0, -2.0, 0.0], [3.0, 0.0, 1.0], [0.3, 0.4, 0.25], ml3, bounds=[-1e6, 1e7], seed=9, bclass="loose"),
        # steep Gaussian, non-square 2-D grid (index order of the coefficient block matters)
        _mk_fixed(2, [0.0, 10.0], [2.0, 10.5], [0.02, 0.1], g2, seed=10, npts=40),
        # areas far from the origin (cancellation of the absolute-coordinate polynomial)
        _mk_fixed(1, [1000.0], [1001.0], [0.05], ml1, seed=11),
        _mk_fixed(2, [100.0, -101.0], [101.0, -100.0], [0.05, 0.05], ml2, seed=12),
        _mk_fixed(3, [100.0, 100.0, 100.0], [101.0, 101.0, 101.0], [0.05, 0.05, 0.05], ml3, seed=13),
        _mk_fixed(3, [20.0, -21.0, 20.0], [21.0, -20.0, 21.0], [0.1, 0.1, 0.1], sin3, seed=14),
    ]
    return out


# ------------------------------------------------------------------------------------------------
# monitor
# ------------------------------------------------------------------------------------------------

def _bits(v):
    return struct.pack("<d", float(v))


def _make_cache(dim, f, lo, hi, res, nbe, bounds):
    from cherab.core.math import Caching1D, Caching2D, Caching3D
    fb = None if bounds is None else (float(bounds[0]), float(bounds[1]))
    if dim == 1:
        return Caching1D(f, (lo[0], hi[0]), res[0], no_boundary_error=nbe, function_boundaries=fb)
    if dim == 2:
        return Caching2D(f, (lo[0], hi[0], lo[1], hi[1]), (res[0], res[1]), no_boundary_error=nbe, function_boundaries=fb)
    return Caching3D(f, (lo[0], hi[0], lo[1], hi[1], lo[2], hi[2]), (res[0], res[1], res[2]), no_boundary_error=nbe,
                     function_boundaries=fb)


def _inside(p, lo, hi):
    """In the caching area, faces, edges and corners included (the documented 1e-7 skin lies OUTSIDE the area)."""
    return all(lo[d] <= p[d] <= hi[d] for d in range(len(p)))


def _drive(ctx, cname, dim, f, lo, hi, res, nbe, bounds, seq, pts, outs, judge_outside=True, skey=None):
    """Run one history on a fresh cache.  Returns (cache, recorder, values per evaluation of in-area points, node calls)."""
    rec = Rec(f)
    cache = _make_cache(dim, rec, lo, hi, res, nbe, bounds)
    got = {}            # point index -> list of returned values (in evaluation order)
    nodes = []          # arguments received while serving in-area points
    for kind, k in seq:
        n0 = len(rec.calls)
        if kind == "i":
            p = pts[k]
            try:
                v = cache(*p)
            except np.linalg.LinAlgError as e:
                if skey is None:
                    raise
                ctx.check(False, skey, "numpy.linalg.LinAlgError (%s) instead of a value for a point inside the caching area: the "
                          "constraint matrix of the cell cubic in the monomial basis of the normalised coordinates is numerically "
                          "singular" % str(e)[:80], monitor="inside", point=p, lo=lo, hi=hi, res=res)
                continue
            except ValueError as e:
                ctx.check(False, "inside:%s:raises-ValueError" % cname,
                          "ValueError for a point at least 3e-7 inside the caching area", monitor="inside",
                          point=p, lo=lo, hi=hi, error=str(e)[:200])
                continue
            ctx.mon("inside")
            got.setdefault(k, []).append(v)
            nodes.extend(rec.calls[n0:])
        else:
            p = outs[k]
            if not judge_outside:
                continue
            if nbe:
                v = cache(*p)
                want = f(*p)
                new = rec.calls[n0:]
                ok_args = len(new) == 1 and all(_bits(a) == _bits(b) for a, b in zip(new[0], p))
                ctx.check(ok_args, "outside:%s:passthrough-arguments" % cname,
                          "no_boundary_error=True: the wrapped function did not receive exactly one call with exactly the "
                          "out-of-area point", monitor="outside_passthrough", point=p, received=[list(c) for c in new[:5]],
                          lo=lo, hi=hi)
                ctx.check(_bits(v) == _bits(want), "outside:%s:passthrough-value" % cname,
                          "no_boundary_error=True: value at an out-of-area point is not the wrapped function's value",
                          monitor="outside_passthrough", point=p, got=v, want=want, lo=lo, hi=hi)
            else:
                try:
                    v = cache(*p)
                except ValueError:
                    ctx.mon("outside_raise")
                else:
                    ctx.check(False, "outside:%s:no-ValueError" % cname,
                              "no ValueError for a point at least 3e-7 outside the caching area (no_boundary_error=False)",
                              monitor="outside_raise", point=p, returned=v, lo=lo, hi=hi, res=res)
                if len(rec.calls) != n0:
                    ctx.check(False, "outside:%s:samples-while-raising" % cname,
                              "the wrapped function was called while an out-of-area point was being rejected",
                              monitor="outside_raise", point=p, received=[list(c) for c in rec.calls[n0:n0 + 5]])
    return cache, rec, got, nodes


def _grid(nodes, dim):
    """Per-dimension sorted unique recorded node coordinates, |x|max and smallest gap."""
    arr = np.array(nodes, dtype=float).reshape(-1, dim)
    axes, xmax, hmin = [], [], []
    for d in range(dim):
        a = np.unique(arr[:, d])
        axes.append(a)
        xmax.append(float(np.abs(a).max()))
        hmin.append(float(np.diff(a).min()) if a.size > 1 else float("inf"))
    return axes, xmax, hmin


def _envelope(F, case, nodes, pts, bounds):
    """Rounding allowance and local node spacings, relative to the function's own scales.

    The magnitude of the wrapped function is split into a constant part S_off (|shift| + constant term; max with the
    value bounds when supplied) and a varying part S_v.
    tol_round = 1e-9 S_v + 64 eps (16 S_off + S_v prod_d g_d),  g_d = 1 + 2 rho_d th1_d + 8 rho_d^2 (1 + rho_d) th2_d
    rho_d = L_d / h_d with L_d = extent_d + 2 resolution_d (the span the class documents it normalises to [0, 1]) and h_d
    the smallest gap between recorded node coordinates.  th1_d = min(1, H_d max|df/dx_d| / S_v), th2_d = min(4, 6 H_d^2
    max|d2f/dx_d2| / S_v).  S_v prod g is the summed magnitude of the monomials of the cell cubic in the area-normalised
    coordinates (cell coefficients a_0 <= S, a_1 ~ H f', a_2, a_3 <= 6 H^2 max|f''|, each multiplied by (2 rho)^k).  Nothing
    in it is absolute: it scales with the function and does not depend on where the area lies.
    """
    dim = case["dim"]
    axes, xmax, hmin = _grid(nodes, dim)
    ext = [case["hi"][d] - case["lo"][d] for d in range(dim)]
    centre = case["_centre"]
    hull = [(min((axes[d][0] - centre[d]) / ext[d], -0.5), max((axes[d][-1] - centre[d]) / ext[d], 0.5)) for d in range(dim)]
    Soff, Sv = F.split(hull)           # constant part / varying part of the magnitude of the wrapped function
    if bounds is not None:
        Soff = max(Soff, abs(bounds[0]), abs(bounds[1]))
    S = Soff + Sv
    P = np.array(pts, dtype=float).reshape(-1, dim)
    ok = np.ones(len(pts), dtype=bool)
    Hs = np.zeros((len(pts), dim))
    for d in range(dim):
        a = axes[d]
        if a.size < 4:
            ok &= False
            Hs[:, d] = float(np.diff(a).max()) if a.size > 1 else 0.0
            continue
        i = np.searchsorted(a, P[:, d], side="right") - 1
        ok &= (i >= 1) & (i + 2 <= a.size - 1)
        i = np.clip(i, 1, a.size - 3)
        Hs[:, d] = np.maximum(np.maximum(a[i] - a[i - 1], a[i + 1] - a[i]), a[i + 2] - a[i + 1])
    G = F.grad(hull)
    cu = F.curv(hull)
    rho, rho_abs, g = [], [], 1.0
    for d in range(dim):
        Hd = float(Hs[ok, d].max()) if ok.any() else (float(np.diff(axes[d]).max()) if axes[d].size > 1 else ext[d])
        th1 = min(1.0, Hd / ext[d] * G[d] / Sv) if Sv > 0 else 0.0
        th2 = min(4.0, 6.0 * (Hd / ext[d]) ** 2 * cu[d] / Sv) if Sv > 0 else 0.0
        r = (ext[d] + 2.0 * case["res"][d]) / hmin[d]
        rho.append(r)
        rho_abs.append(xmax[d] / hmin[d])
        g *= 1.0 + 2.0 * r * th1 + 8.0 * r * r * (1.0 + r) * th2
    a_local = 64.0 * EPS * (16.0 * Soff + Sv * g)
    tol = 1e-9 * Sv + a_local
    # the class forms products of samples and inverse node spacings: beyond this magnitude intermediate monomials overflow,
    # below it they become denormal -- genuine limits of double precision, not judged
    terms = (Soff + Sv * g) * 64.0
    regime = "overflow" if not (terms < 1e300) else ("underflow" if 0.0 < S < 1e-290 else "ok")
    return dict(S=S, Soff=Soff, Sv=Sv, tol=tol, weak=bool(Sv > 0 and tol > 1e-3 * Sv), rho=rho, rho_abs=rho_abs, axes=axes,
                Hs=Hs, ok=ok, cu=cu, ext=ext, a_local=a_local, regime=regime)


def _judge(ctx, name, err, tol, weak, cname=""):
    """Count under the deciding monitor only when the cancellation allowance leaves the clause decidable."""
    err = np.asarray(err, dtype=float)
    tol = np.broadcast_to(np.asarray(tol, dtype=float), err.shape)
    mon = name + ("_weak" if weak else "")
    ctx.mon(mon, int(err.size))
    with np.errstate(divide="ignore", invalid="ignore"):
        ratio = np.where(err == 0, 0.0, err / tol)
    ratio = np.where(np.isfinite(err), ratio, np.inf)
    fin = ratio[np.isfinite(ratio) & (ratio <= 1.0)]     # margin of the comparisons that held; failures are reported
    if fin.size:
        ctx.margin(mon + ":" + cname, float(fin.max()))     # per class: the 3-D margins carry the sub-threshold tail of the known round-off finding
    bad = ~(ratio <= 1.0)
    if bad.any():
        return int(np.argmax(np.where(np.isnan(ratio), np.inf, ratio)))
    return None


class _Quiet:
    """ctx stand-in for diagnosis drives: swallows counters and verdicts (the diagnosis only classifies)."""

    def __init__(self, ctx):
        self.ctx = ctx

    def mon(self, *a, **k):
        pass

    def check(self, ok, *a, **k):
        return bool(ok)

    def margin(self, *a, **k):
        pass


class _NoCount:      # counting shim: diagnosis runs must not inflate the evidence
    def mon(self, *a, **k):
        pass

    def margin(self, *a, **k):
        pass


def _clauses(ctx, case, F, f, lo, hi, bounds, pts, vals, nodes, cache, diag=False):
    """Numerical clauses on one driven cache: node exactness, multilinear reproduction / error bound.
    Returns (failures [(clause, what, detail)], decided)."""
    dim = case["dim"]
    fails = []
    if not nodes:
        return fails, False
    env = _envelope(F, case, nodes, pts, bounds)
    if env["regime"] != "ok":
        if not diag:
            ctx.skip("function magnitude x monomial growth in the %s range of double precision: numerical clauses not judged" % env["regime"])
        return fails, False
    S, allow, weak = env["S"], env["tol"], env["weak"]
    info = dict(allowance=allow, a_local=env["a_local"], rho_local=env["rho"], x_over_spacing=env["rho_abs"], S=S,
                S_variation=env["Sv"], fkind=F.kind, scale=F.scale, shift=F.shift)
    far = max(env["rho_abs"]) >= 1e4 and not weak and not diag       # "far from the origin" = |x| / node spacing >= 1e4
    farmon = "far%dd" % dim
    c = _NoCount() if diag else ctx
    judged = False
    P = np.array(pts, dtype=float).reshape(-1, dim)
    V = np.array(vals, dtype=float)
    W = np.array([f(*p) for p in pts], dtype=float)
    # ---- node exactness --------------------------------------------------------------------------------
    inn = [n for n in sorted(set(nodes)) if _inside(n, lo, hi)]
    if len(inn) > 60:
        step = len(inn) / 60.0
        inn = [inn[int(j * step)] for j in range(60)]
    if inn:
        if case.get("_skey"):
            keep, gv = [], []
            for n in inn:
                try:
                    gv.append(cache(*n))
                    keep.append(n)
                except np.linalg.LinAlgError as e:
                    if not diag:
                        ctx.check(False, case["_skey"], "numpy.linalg.LinAlgError (%s) instead of a value at a sampling node inside "
                                  "the caching area: the constraint matrix of the cell cubic is numerically singular" % str(e)[:80],
                                  monitor="inside", point=list(n), lo=lo, hi=hi, res=case["res"])
            inn = keep
        else:
            gv = [cache(*n) for n in inn]
        wv = [f(*n) for n in inn]
        k = _judge(c, "node", np.abs(np.array(gv) - np.array(wv)), allow, weak, CLS[dim])
        judged = True
        if far:
            ctx.mon(farmon, len(inn))
        if k is not None:
            fails.append(("node-exact", "value at a sampling node (an argument the wrapped function received) differs from "
                          "the wrapped function beyond the rounding allowance",
                          dict(node=list(inn[k]), got=gv[k], want=wv[k], tol=allow, **info)))
    elif not diag:
        ctx.skip("no recorded node inside the area (two-node axis): node clause not evaluated")
    # ---- multilinear reproduction ----------------------------------------------------------------------
    e = np.abs(V - W)
    if F.kind in ("const", "multilinear"):
        k = _judge(c, "multilinear", e, allow, weak, CLS[dim])
        judged = True
        if far:
            ctx.mon(farmon, int(e.size))
        if k is not None:
            fails.append(("multilinear", "a function that is linear in each coordinate is not reproduced within the rounding "
                          "allowance", dict(point=list(P[k]), got=float(V[k]), want=float(W[k]), tol=allow, **info)))
    else:
        # ---- h^2 max|f''| bound ------------------------------------------------------------------------
        ok, Hs, cu, ext = env["ok"], env["Hs"], env["cu"], env["ext"]
        tol = np.full(len(pts), allow)
        for d in range(dim):
            tol = tol + (Hs[:, d] / ext[d]) ** 2 * cu[d]
        if ok.any():
            k = _judge(c, "errbound", e[ok], tol[ok], weak, CLS[dim])
            judged = True
            if far:
                ctx.mon(farmon, int(ok.sum()))
            if k is not None:
                kk = int(np.flatnonzero(ok)[k])
                fails.append(("errbound", "interpolation error exceeds sum_d H_d^2 max|d2f/dx_d2| plus the rounding allowance",
                              dict(point=list(P[kk]), got=float(V[kk]), want=float(W[kk]), tol=float(tol[kk]),
                                   H=list(Hs[kk]), curv_norm=cu, **info)))
        if (~ok).any() and not diag:
            ctx.skip("point without four recorded neighbouring node coordinates: error bound not evaluated")
    return fails, judged and not weak


def _bounds_clause(ctx, case, F, bounds, pts, vals, vals_nb, nodes_nb, diag=False):
    env = _envelope(F, case, nodes_nb, pts, bounds)
    if env["regime"] != "ok":
        return [], False
    e = np.abs(np.array(vals, dtype=float) - np.array(vals_nb, dtype=float))
    k = _judge(_NoCount() if diag else ctx, "bounds", e, 2 * env["tol"], env["weak"], CLS[case["dim"]])
    fails = []
    if k is not None:
        fails.append(("bounds", "supplying function_boundaries changes the result beyond the rounding allowance",
                      dict(point=pts[k], with_bounds=vals[k], without_bounds=float(vals_nb[k]), tol=2 * env["tol"],
                           rho_local=env["rho"], x_over_spacing=env["rho_abs"], S=env["S"], S_variation=env["Sv"],
                           bounds=bounds, bclass=case["bclass"], fkind=F.kind, scale=F.scale, shift=F.shift)))
    return fails, not env["weak"]


def _translated(case):
    """The same normalised function on the same area translated so that its centre is the origin."""
    dim = case["dim"]
    c = case["_centre"]
    t = dict(case)
    t["lo"] = [case["lo"][d] - c[d] for d in range(dim)]
    t["hi"] = [case["hi"][d] - c[d] for d in range(dim)]
    t["_centre"] = [0.0] * dim
    t["pts"] = [[p[d] - c[d] for d in range(dim)] for p in case["pts"]]
    return t


class _SubCtx:
    """Ctx stand-in used inside the forked child; its content is merged into the worker's ctx by the parent."""

    def __init__(self, case):
        self.case = case
        self.monitors = collections.Counter()
        self.classes = collections.Counter()
        self.skips = collections.Counter()
        self.margins = {}
        self.violations = []
        self.viol_counts = collections.Counter()
        self._nontrivial = False

    def mon(self, name, n=1):
        self.monitors[name] += n

    def cls(self, name):
        self.classes[name] += 1

    def skip(self, reason):
        self.skips[reason] += 1

    def nontrivial(self, flag=True):
        self._nontrivial = self._nontrivial or bool(flag)

    def margin(self, name, ratio):
        if ratio == ratio and ratio > self.margins.get(name, 0.0):
            self.margins[name] = float(ratio)

    def viol(self, key, what, **detail):
        self.viol_counts[key] += 1
        if self.viol_counts[key] <= 5:
            self.violations.append((key, what, detail))

    def check(self, ok, key, what, monitor=None, **detail):
        self.mon(monitor or key.split(":")[0])
        if not ok:
            self.viol(key, what, **detail)
        return bool(ok)


CASE_WATCHDOG_S = 600


def crash_hint(case):
    """Used by vf.core when a whole worker dies with this case in flight (in-process mode only)."""
    return CLS[case["dim"]]


def run_case(case, ctx):
    """Every case runs in a forked child: the caching modules are compiled without bounds checks, so a wrong cell index
    corrupts the heap and may kill the process; the parent turns the death of the child into a violation witnessed by
    the case in flight instead of losing the whole shard (set C14_NOFORK=1 to run in-process for debugging)."""
    if os.environ.get("C14_NOFORK") or os.environ.get("VF_ASAN_DIR"):
        # (under the framework's ASan pass the worker itself must die so that vf.core attributes the ASan report)
        return _run_case(case, ctx)
    import cherab.core.math  # noqa: F401  (import in the parent so that every child inherits the loaded modules)
    rfd, wfd = os.pipe()
    pid = os.fork()
    if pid == 0:
        status = 0
        try:
            os.close(rfd)
            sub = _SubCtx(case)
            harness = None
            try:
                _run_case(case, sub)
            except BaseException as e:  # noqa  (classified exactly like vf.core.run_one)
                tb = traceback.format_exc()
                frames = traceback.extract_tb(e.__traceback__)
                top = ""
                for fr in reversed(frames):
                    if "/cherab/" in fr.filename:
                        top = os.path.basename(fr.filename) + ":" + fr.name
                        break
                here = os.path.dirname(os.path.dirname(os.path.abspath(__file__)))
                if not frames or frames[-1].filename.startswith(here):
                    harness = tb[-3000:]
                else:
                    sub.viol("unexpected-exception:%s@%s" % (type(e).__name__, top),
                             "unexpected %s while executing an in-domain case: %s" % (type(e).__name__, str(e)[:300]),
                             traceback=tb[-3000:])
            payload = pickle.dumps(dict(monitors=dict(sub.monitors), classes=dict(sub.classes), skips=dict(sub.skips),
                                        margins=sub.margins, violations=sub.violations, viol_counts=dict(sub.viol_counts),
                                        nontrivial=sub._nontrivial, harness=harness))
            with os.fdopen(wfd, "wb") as f:
                f.write(payload)
        except BaseException:  # noqa
            status = 3
        finally:
            os._exit(status)
    os.close(wfd)
    chunks = []
    t0 = time.time()
    timed_out = False
    with os.fdopen(rfd, "rb") as f:
        while True:
            ready, _, _ = select.select([f], [], [], 5.0)
            if ready:
                b = os.read(f.fileno(), 1 << 20)
                if not b:
                    break
                chunks.append(b)
            elif time.time() - t0 > CASE_WATCHDOG_S:
                timed_out = True
                os.kill(pid, signal.SIGKILL)
                break
    _, st = os.waitpid(pid, 0)
    if timed_out:
        raise RuntimeError("C14 harness: case exceeded the %d s watchdog (no verdict)" % CASE_WATCHDOG_S)
    cname = CLS[case["dim"]]
    if os.WIFSIGNALED(st):
        sig = os.WTERMSIG(st)
        try:
            signame = signal.Signals(sig).name
        except ValueError:
            signame = "signal%d" % sig
        ctx.cls("dim%d" % case["dim"])
        ctx.viol("crash:%s:%s" % (cname, signame),
                 "the process executing this caching case on the real %s objects was killed by %s (memory corruption in the "
                 "unchecked index arithmetic); the wrapped function and the oracle are pure Python" % (cname, signame),
                 signal=signame)
        return
    if os.WEXITSTATUS(st) != 0 or not chunks:
        raise RuntimeError("C14 harness: child failed to report (exit status %r)" % os.WEXITSTATUS(st))
    res = pickle.loads(b"".join(chunks))
    if res["harness"]:
        raise RuntimeError("C14 harness error in child:\n" + res["harness"])
    for k, v in res["monitors"].items():
        ctx.mon(k, v)
    for k, v in res["classes"].items():
        for _ in range(v):
            ctx.cls(k)
    for k, v in res["skips"].items():
        for _ in range(v):
            ctx.skip(k)
    for k, v in res["margins"].items():
        ctx.margin(k, v)
    stored = collections.Counter()
    for key, what, detail in res["violations"]:
        ctx.viol(key, what, **detail)
        stored[key] += 1
    for key, n in res["viol_counts"].items():
        ctx.viol_counts[key] += n - stored[key]
    if res["nontrivial"]:
        ctx.nontrivial()


def _run_case(case, ctx):
    dim = case["dim"]
    cname = CLS[dim]
    lo, hi, res = case["lo"], case["hi"], case["res"]
    ext = [hi[d] - lo[d] for d in range(dim)]
    case = dict(case)
    case["_centre"] = [0.5 * (lo[d] + hi[d]) for d in range(dim)]
    F = Fn(case["func"], dim)
    f = phys(F, case["_centre"], ext)
    bounds = case["bounds"]
    pts, outs = case["pts"], case["outs"]
    ncell = 1
    for n in case["nn"]:
        ncell *= n
    # (a LinAlgError on a coarse grid is a different defect from the conditioning limit of very fine grids)
    skey = case["_skey"] = "singular:%s:%s" % (cname, "fine-grid-conditioning" if ncell >= 20000 else "coarse-grid")
    ctx.cls("dim%d" % dim)
    ctx.cls("func:" + F.kind)
    ctx.cls("offset:" + case["offclass"])
    ctx.cls("magnitude:" + case.get("mclass", "unit"))
    for z in set(case.get("zclass", [])):
        ctx.cls("zero-on-axis:" + z)
    if case.get("zclass") and all(z != "outside" for z in case["zclass"]):
        ctx.cls("origin-in-area")
    special = set(case.get("special", []))
    ctx.cls("bounds:" + case["bclass"])
    if min(case["nn"]) == 2:
        ctx.cls("two-node-axis")
    if any(res[d] > ext[d] for d in range(dim)):
        ctx.cls("resolution>extent")
    # sanity of the generated case (harness side): every point on the side of the skin it claims
    for p in pts:
        if not _inside(p, lo, hi):
            raise AssertionError("generator produced an in-area point inside the skin")
    for p in outs:
        if not any(p[d] < lo[d] - SKIN or p[d] > hi[d] + SKIN for d in range(dim)):
            raise AssertionError("generator produced an out-of-area point inside the skin")

    # ---- histories -------------------------------------------------------------------------------------
    runs = []
    for od in case["orders"]:
        cache, rec, got, nodes = _drive(ctx, cname, dim, f, lo, hi, res, bool(od["nbe"]), bounds, od["seq"], pts, outs, skey=skey)
        runs.append(dict(name=od["name"], cache=cache, rec=rec, got=got, nodes=nodes))
        ctx.mon("caches")
        ctx.mon("wrapped_calls", len(rec.calls))
    # repeated evaluations inside one history
    for r in runs:
        for k, vs in r["got"].items():
            if len(vs) > 1:
                same = all(_bits(v) == _bits(vs[0]) for v in vs[1:])
                ctx.check(same, "history:%s:repeat-differs" % cname,
                          "the same point evaluated twice in one history returned different bits", monitor="repeat",
                          point=pts[k], values=vs, order=r["name"])
    # across histories
    ref = runs[0]
    ncomp = 0
    for r in runs[1:]:
        for k, vs in r["got"].items():
            if k not in ref["got"]:
                continue
            a, b = ref["got"][k][0], vs[0]
            ncomp += 1
            if k in special:
                ctx.mon("special")
            ctx.check(_bits(a) == _bits(b), "history:%s:order-dependent" % cname,
                      "two evaluation orders of the same point set returned different bits at the same point",
                      monitor="history", point=pts[k], order_a=ref["name"], order_b=r["name"], a=a, b=b,
                      absdiff=abs(a - b) if (a == a and b == b) else None)
    # evidence only: calls per node
    nd = ref["nodes"]
    if nd:
        cnt = {}
        for n in nd:
            cnt[n] = cnt.get(n, 0) + 1
        ctx.mon("distinct_nodes", len(cnt))
        ctx.margin("calls_per_node_max(evidence)", float(max(cnt.values())))

    # ---- numerical clauses on the first history --------------------------------------------------------
    if not all(k in ref["got"] for k in range(len(pts))):
        return          # an in-area point raised: already reported
    vals = [ref["got"][k][0] for k in range(len(pts))]
    regime = _envelope(F, case, ref["nodes"], pts, bounds)["regime"] if ref["nodes"] else "ok"
    if regime == "ok" and not all(math.isfinite(v) for v in vals):
        bad = [k for k, v in enumerate(vals) if not math.isfinite(v)][0]
        ctx.viol("nonfinite:%s" % cname, "cache returned a non-finite value for a finite function inside the area",
                 point=pts[bad], got=vals[bad], want=f(*pts[bad]))
        return
    seq_in = [s for s in case["orders"][0]["seq"] if s[0] == "i"]
    fails, decided = _clauses(ctx, case, F, f, lo, hi, bounds, pts, vals, ref["nodes"], ref["cache"])

    # ---- value bounds must not change results ----------------------------------------------------------
    if bounds is not None:
        c2, rec2, got2, nodes2 = _drive(ctx, cname, dim, f, lo, hi, res, False, None, seq_in, pts, outs, judge_outside=False, skey=skey)
        ctx.mon("caches")
        if all(k in got2 for k in range(len(pts))) and nodes2:
            v2 = [got2[k][0] for k in range(len(pts))]
            bf, dec = _bounds_clause(ctx, case, F, bounds, pts, vals, v2, nodes2)
            fails += bf
            decided = decided or dec

    # ---- scale equivariance: cache(shift + scale F) against shift + scale cache(F) --------------------------------------
    if (F.scale != 1.0 or F.shift != 0.0) and regime == "ok" and ref["nodes"]:
        F0 = F.base()
        f0 = phys(F0, case["_centre"], ext)
        sc, sh = F.scale, F.shift
        pow2 = sh == 0.0 and math.frexp(sc)[0] == 0.5
        b0 = None
        if bounds is not None and sh == 0.0:
            b0 = [bounds[0] / sc, bounds[1] / sc]
            if not pow2 and b0[0] == b0[1] and bounds[0] != bounds[1]:
                b0 = None
        if bounds is None or b0 is not None:
            c0, rec0, got0, nodes0 = _drive(_Quiet(ctx), cname, dim, f0, lo, hi, res, False, b0, seq_in, pts, outs,
                                            judge_outside=False, skey=skey)
            ctx.mon("caches")
            if all(k in got0 for k in range(len(pts))) and nodes0:
                env = _envelope(F, case, ref["nodes"], pts, bounds)
                v0 = np.array([got0[k][0] for k in range(len(pts))], dtype=float)
                with np.errstate(over="ignore", under="ignore", invalid="ignore"):
                    want = sh + sc * v0 if sh != 0.0 else sc * v0
                V = np.array(vals, dtype=float)
                if pow2:
                    # a power of two scales every sample, every intermediate and the result exactly while nothing leaves
                    # the normal range: judged where the scaled values and their rounding errors (eps^2 S) stay normal
                    aw = np.abs(want)
                    # (both sides: a base value in the subnormal range has already lost bits, so 2^k times it cannot be
                    #  compared bit for bit with the cache of the scaled function)
                    a0 = np.abs(v0)
                    normal = (np.isfinite(want) & (aw < 1e300) & (a0 < 1e300)
                              & (((aw > 1e-290) & (a0 > 1e-290)) | ((want == 0.0) & (v0 == 0.0))))
                    if env["S"] > 1e-250 and env["S"] / abs(sc) > 1e-250 and normal.any():
                        same = np.array([_bits(a) == _bits(b) for a, b in zip(V[normal], want[normal])])
                        ctx.mon("scale_exact", int(normal.sum()))
                        decided = True
                        if not same.all():
                            kk = int(np.flatnonzero(normal)[int(np.argmin(same))])
                            fails.append(("scale", "cache of 2^k f differs from 2^k times the cache of f (every operation of the scheme is "
                                          "linear in the samples, so a power of two must scale the result exactly)",
                                          dict(point=pts[kk], scaled_cache=float(V[kk]), scale_times_cache=float(want[kk]),
                                               scale=sc, rel=float(abs(V[kk] - want[kk]) / (abs(want[kk]) + 5e-324)),
                                               n_differ=int((~same).sum()), fkind=F.kind, bounds=bounds)))
                    else:
                        ctx.skip("power-of-two scale outside the range where intermediates stay normal: exact equivariance not judged")
                else:
                    kq = _judge(ctx, "scale", np.abs(V - want), 2 * env["tol"], env["weak"], cname)
                    decided = decided or not env["weak"]
                    if kq is not None:
                        fails.append(("scale", "cache of shift + scale f differs from shift + scale times the cache of f beyond the rounding "
                                      "allowance", dict(point=pts[kq], scaled_cache=float(V[kq]), shift_scale_cache=float(want[kq]),
                                                        tol=2 * env["tol"], scale=sc, shift=sh, S=env["S"], S_variation=env["Sv"],
                                                        fkind=F.kind, bounds=bounds)))

    if ncomp >= 5 and len(runs) >= 2 and decided:
        ctx.nontrivial()

    # ---- classify failures by mechanism ----------------------------------------------------------------
    if fails:
        tfail = None
        off = max(max(abs(lo[d]), abs(hi[d])) / ext[d] for d in range(dim))
        if off > 1.5:
            t = _translated(case)
            tf = phys(F, t["_centre"], ext)
            shim = _Quiet(ctx)
            tc, trec, tgot, tnodes = _drive(shim, cname, dim, tf, t["lo"], t["hi"], res, False, bounds, seq_in, t["pts"], [],
                                            judge_outside=False, skey=skey)
            if all(k in tgot for k in range(len(pts))) and tnodes:
                tvals = [tgot[k][0] for k in range(len(pts))]
                tfail, _ = _clauses(ctx, t, F, tf, t["lo"], t["hi"], bounds, t["pts"], tvals, tnodes, tc, diag=True)
                if bounds is not None:
                    tc2, _, tgot2, tn2 = _drive(shim, cname, dim, tf, t["lo"], t["hi"], res, False, None, seq_in, t["pts"], [],
                                                judge_outside=False, skey=skey)
                    if all(k in tgot2 for k in range(len(pts))) and tn2:
                        bf, _ = _bounds_clause(ctx, t, F, bounds, t["pts"], tvals, [tgot2[k][0] for k in range(len(pts))], tn2,
                                               diag=True)
                        tfail = tfail + bf
        for clause, what, detail in fails:
            if clause != "scale" and tfail is not None and not tfail:
                ctx.viol(ROUNDOFF_KEY % cname,
                         "%s clause fails on an area far from the origin although the same function on the same area translated "
                         "to the origin satisfies every clause: %s" % (clause, what), clause=clause, offset_in_extents=off,
                         **detail)
            else:
                ctx.viol("%s:%s" % (clause, cname), what,
                         translated_fails=None if tfail is None else [x[0] for x in tfail], **detail)
