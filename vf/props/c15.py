"""C15 — observer groups broadcast settings faithfully and keep members consistent.

Runtime monitoring of the REAL group classes (SightLineGroup, FibreOpticGroup, PixelGroup, TargettedPixelGroup,
SpectroscopicSightLineGroup, SpectroscopicFibreOpticGroup, BolometerCamera):

  * group-level attributes are discovered by introspection (inspect.getmembers(cls, property)); a hand-written domain
    table (ATTRS) supplies, per attribute, a generator of valid values, the member attribute it maps to, whether the
    setter names ndarray, whether a single value is documented to broadcast, and which *derived* member attributes
    may legitimately move with it (e.g. collection_area with x_width);
  * every assignment is bracketed by snapshots of the ENTIRE public state of every member (all public non-callable
    attributes found by dir()), so "only that attribute of the right members changed" and "a wrong-length sequence
    raises ValueError and changes nothing" are decided on the whole member state, not on the assigned attribute;
  * every getter is compared, in the harness's own member order, with the values read from the members directly;
  * lookups by every index, random slices and every unique member name are compared with the harness's member list;
  * an own invariant wrapper (vf/groupinv_c15.py) is installed on every Python setter / mutator of the classes and
    evaluates parent / children / len after each call; the same invariant is evaluated explicitly after every op;
  * foreign objects (not instances of the group's member type) are offered through every membership path;
  * observe(): members get counting pipelines (sub-classes of Raysect's PowerPipeline0D / PowerPipeline2D counting
    initialise/finalise) in a tiny world; after k group.observe() calls every member must have been observed k times;
  * random histories of add / assign-members / rename / broadcast / wrong-length / lookup / read ops;
  * aliasing monitor: every caller-owned mutable container handed to the group (constructor argument, observers=,
    sight_lines=, foil_detectors=, every broadcast attribute assigned from a list / ndarray incl. nested per-member
    lists) is edited in place by the "caller" right after the call (append a foreign object and a valid observer,
    overwrite, reverse, pop, insert; ndarrays overwritten in place) and the complete observable group state (members
    and order, len, parents, name lookup, every getter, whole member snapshots) must stay exactly as it was; add_*()
    must not change lists the caller passed earlier; one list given to two groups must not couple them; containers
    returned by getters / slice lookup are mutated and the group must be unaffected;
  * initial parent states: every observer offered through any entry point (constructor, observers=, sight_lines=,
    foil_detectors=, add_*) starts in one of: no parent / child of the world / child of a plain Node / child of ANOTHER
    group of the same class / member of another group / already a child of THIS group / already a member (re-add) /
    listed twice in one assignment. Judged: an accepted observer is a member where the call put it and its parent is
    the group; all later ops (lookup, broadcast, observe) run against the resulting membership. Classified on the
    unchanged tree and therefore NOT judged: re-adding a member keeps a second entry (add_observer / add_foil_detector
    append unconditionally), a list naming an observer twice is stored as given, a duplicated member is observed once
    per entry; and the FORMER group of an observer that moved to another group (it keeps a stale entry: out of the
    single-group domain, see ASSUMPTIONS);
  * rejected operations: a foreign object is offered alone, as the bare right-hand side, and at EVERY position of a
    list that also holds the current members and fresh valid observers in all parent states (incl. members of other
    groups), through every container entry point and the constructor. After the exception the statement's clauses
    must still hold for every group involved: the target's membership state (members, len, parents, name lookup,
    getters) is what it was, and every other group whose member was offered still has the same members and is still
    their parent. The statement does not promise more for a type rejection ("changes nothing" is worded for
    wrong-length sequences only), so offered observers that belong to no group and end up as non-member children of
    the target are counted (`rejected_nonmember_reparented_observed`) but not judged; for wrong-length broadcast
    assignments the whole group state (membership + getters + complete member snapshots) must be identical.

  * observe() after histories: every observer a case creates carries an observation counter; group.observe() must
    observe exactly the members, each exactly once per call, and no other observer - driven also after the membership
    and the scene-graph children have diverged (members replaced through the setter, extra children never added,
    members temporarily re-parented to the world);
  * coincidence assignments: elements that are the CURRENT value of the same attribute (for all / some / shifted
    members) or of another attribute of the same member whose values are always valid for the assigned one (COMPAT:
    y_width := current x_width, radius := acceptance_angle, pixel_samples := samples_per_task, ...); the read-back must
    equal the assigned sequence in every case.

  * scene placement: the group sits under 0 / 1 / 2 transformed nodes (with or without a World root) and has an
    identity / translated / rotated / translated+rotated transform of its own; every case kind runs under a drawn
    placement and a fixed block drives every attribute under every placement class. Members hold group-frame values,
    so assign / read-back must be independent of where the group sits;
  * round trip: group.attr = group.attr must change nothing for every attribute with a getter and a setter (origin /
    direction: values equal within 1e-12, the member's own roll about the sight line is not judged; display_progress /
    accumulate have per-pipeline getters and are excluded; names only when every member is named).

The oracle shares no code with cherab: expectations are computed from the case description and from values read
directly from the member observers (Raysect objects).
"""
import inspect
import zlib

import numpy as np

ID = "C15"
LEVEL = "exploration"
RULE = ("fixed sweep: one case per (group class, discovered group attribute, group size 0/1/3/5) driving scalar / list / "
        "tuple / ndarray(where the setter names it) and wrong-length (n-1, n+1, 0, 2n) assignments with whole-member "
        "snapshots, plus foreign-type x membership-path cases, lookup cases and observe cases per class; random part: "
        "histories of 5-30 add / assign-members / rename / broadcast / wrong-length / lookup / read ops on groups of 0-6 "
        "members with diversified initial member state (every list/ndarray the harness hands over is afterwards edited in "
        "place and the group state re-compared; getter results are mutated; shared-list two-group cases), random observe "
        "cases and random foreign cases; a case is "
        "non-trivial when at least one deciding comparison ran on a group with >= 1 member (or a foreign / wrong-length "
        "rejection was judged); distinct = distinct fully expanded op lists")
LEVEL_TEXT = ("Exploration by runtime monitoring: the real setters/getters/mutators of all seven classes are executed on "
              "generated histories; every (class, attribute, value kind) combination is driven deterministically in the "
              "fixed sweep (so a copy-paste slip in any single setter is reached in the quick tier) and randomly in "
              "histories; right level because the property quantifies over an unbounded set of histories")
LEVEL_NOTE = ("trusted: Raysect's member observers (their own setters/getters are the ground truth the group is compared "
              "with) and the hand-written domain table below; scalar assignment to `names` and `pipelines` is documented "
              "by the classes as unsupported and is skipped (counted)")
TECHNIQUE = ("runtime monitoring: invariant at a hook (own wrapper on every Python setter/mutator of the group classes) + "
             "generic snapshot/assign/compare round trip driven by introspection + counting pipelines for observe()")
ASSUMPTIONS = [
    "member observers (Raysect SightLine/FibreOptic/Pixel/TargettedPixel, cherab Spectroscopic*/BolometerFoil/IRVB) "
    "store and return what their own setters are given; the group is judged against direct member reads",
    "an observer belongs to at most one group and is not re-parented behind the group's back (single-group histories)",
    "members of one group do not share pipeline objects (a shared pipeline makes per-member display_progress/"
    "accumulate ill-defined)",
    "values are drawn from ranges that are valid for every member state (spectral_rays <= 8 <= spectral_bins, "
    "min_wavelength < 400 < max_wavelength), so a member-level validation error is never the expected outcome",
    "`names` and `pipelines` have no single-value form (class docstrings and the repository's own tests require "
    "TypeError / per-observer lists); BolometerCamera documents list-only foil_detectors assignment",
]
QUICK = dict(cases=2000, workers=2, timecap=25)
THOROUGH = dict(cases=300000, workers=16, timecap=300)
REQUIRED = {"registry": 2, "assign_scalar": 300, "assign_seq": 1200, "wronglen": 2000, "getter": 10000,
            "snapshot_members": 20000, "lookup_index": 500, "lookup_slice": 800, "lookup_name": 300, "invariant": 5000,
            "hook_invariant": 5000, "foreign": 500, "observe_members": 50, "history_ops": 5000, "random_histories": 50,
            "alias_container": 200, "alias_values": 800, "alias_add": 100, "alias_getter": 800, "alias_two_groups": 60,
            "entry_states": 1500, "entry:already-parented-to-this-group": 50, "entry:already-a-member": 100,
            "entry:member-of-another-group": 50, "entry:parented-to-another-group": 50, "entry:parented-to-world": 50,
            "entry:parented-to-a-node": 50, "entry:no-parent": 300, "dup_assign": 100,
            "rejected_ops": 400, "rejected_other_groups": 150,
            "assign_current_values": 1200, "observe_nonmembers": 300, "observe_diverged": 60,
            "roundtrip": 1500, "placed_nontrivially": 500}

CLASSES = ["SightLineGroup", "FibreOpticGroup", "PixelGroup", "TargettedPixelGroup",
           "SpectroscopicSightLineGroup", "SpectroscopicFibreOpticGroup", "BolometerCamera"]
CAMERA = "BolometerCamera"
MEMBER_TYPE = {"SightLineGroup": "SightLine", "FibreOpticGroup": "FibreOptic", "PixelGroup": "Pixel",
               "TargettedPixelGroup": "TargettedPixel", "SpectroscopicSightLineGroup": "SpectroscopicSightLine",
               "SpectroscopicFibreOpticGroup": "SpectroscopicFibreOptic", CAMERA: "BolometerFoil|BolometerIRVB"}
SPECTRO = ("SpectroscopicSightLineGroup", "SpectroscopicFibreOpticGroup")

# membership / read-only structural properties (not broadcast attributes)
STRUCTURAL = {"observers": "rw", "sight_lines": "rw", "foil_detectors": "rw", "slits": "ro"}

# --- hand-written domain table --------------------------------------------------------------------------------------
# type: value generator id; member: member attribute; nd: setter names ndarray; scalar: single value broadcast documented;
# derived: member attributes that may change together with the assigned one
ATTRS = {
    "names": dict(type="str", member="name", nd=False, scalar=False, derived=()),
    "render_engine": dict(type="engine", member="render_engine", nd=False, scalar=True, derived=()),
    "spectral_bins": dict(type="int", lo=8, hi=600, member="spectral_bins", nd=True, scalar=True, derived=()),
    "spectral_rays": dict(type="int", lo=1, hi=8, member="spectral_rays", nd=True, scalar=True, derived=()),
    "max_wavelength": dict(type="float", lo=400.5, hi=1200.0, member="max_wavelength", nd=True, scalar=True, derived=()),
    "min_wavelength": dict(type="float", lo=1.0, hi=399.5, member="min_wavelength", nd=True, scalar=True, derived=()),
    "ray_extinction_prob": dict(type="float", lo=0.0, hi=1.0, member="ray_extinction_prob", nd=True, scalar=True, derived=()),
    "ray_max_depth": dict(type="int", lo=0, hi=1000, member="ray_max_depth", nd=True, scalar=True, derived=()),
    "ray_extinction_min_depth": dict(type="int", lo=0, hi=50, member="ray_extinction_min_depth", nd=True, scalar=True, derived=()),
    "ray_importance_sampling": dict(type="bool", member="ray_importance_sampling", nd=True, scalar=True, derived=()),
    "ray_important_path_weight": dict(type="float", lo=0.0, hi=1.0, member="ray_important_path_weight", nd=True, scalar=True, derived=()),
    "quiet": dict(type="bool", member="quiet", nd=True, scalar=True, derived=()),
    "pixel_samples": dict(type="int", lo=1, hi=5000, member="pixel_samples", nd=True, scalar=True, derived=()),
    "samples_per_task": dict(type="int", lo=1, hi=5000, member="samples_per_task", nd=True, scalar=True, derived=()),
    "pipelines": dict(type="pipes", member="pipelines", nd=False, scalar=False, derived=("display_progress", "accumulate")),
    "sensitivity": dict(type="float", lo=0.01, hi=10.0, member="sensitivity", nd=True, scalar=True, derived=()),
    "acceptance_angle": dict(type="float", lo=0.1, hi=90.0, member="acceptance_angle", nd=True, scalar=True,
                             derived=("solid_angle", "sensitivity", "etendue")),
    "radius": dict(type="float", lo=1e-4, hi=0.1, member="radius", nd=True, scalar=True,
                   derived=("collection_area", "sensitivity", "etendue")),
    "x_width": dict(type="float", lo=1e-4, hi=0.1, member="x_width", nd=True, scalar=True,
                    derived=("collection_area", "sensitivity", "etendue")),
    "y_width": dict(type="float", lo=1e-4, hi=0.1, member="y_width", nd=True, scalar=True,
                    derived=("collection_area", "sensitivity", "etendue")),
    "targets": dict(type="prims", member="targets", nd=False, scalar=True, derived=()),
    "targetted_path_prob": dict(type="float", lo=0.0, hi=1.0, member="targetted_path_prob", nd=False, scalar=True, derived=()),
    "origin": dict(type="point", member="origin", nd=False, scalar=True, derived=("transform", "direction")),
    "direction": dict(type="vector", member="direction", nd=False, scalar=True, derived=("transform", "origin")),
    "display_progress": dict(type="bool", member="display_progress", nd=True, scalar=True, derived=()),
    "accumulate": dict(type="bool", member="accumulate", nd=True, scalar=True, derived=()),
}
_BASE = ["names", "render_engine", "spectral_bins", "spectral_rays", "max_wavelength", "min_wavelength",
         "ray_extinction_prob", "ray_max_depth", "ray_extinction_min_depth", "ray_importance_sampling",
         "ray_important_path_weight", "quiet", "pixel_samples", "samples_per_task", "pipelines"]
_SPEC = ["origin", "direction", "display_progress", "accumulate"]
# attributes the class documentation promises (a vanished one is a violation)
EXPECTED = {
    "SightLineGroup": _BASE + ["sensitivity"],
    "FibreOpticGroup": _BASE + ["acceptance_angle", "radius"],
    "PixelGroup": _BASE + ["x_width", "y_width"],
    "TargettedPixelGroup": _BASE + ["x_width", "y_width", "targets", "targetted_path_prob"],
    "SpectroscopicSightLineGroup": _BASE + _SPEC + ["sensitivity"],
    "SpectroscopicFibreOpticGroup": _BASE + _SPEC + ["acceptance_angle", "radius"],
    CAMERA: [],
}
# cross-attribute coincidences: COMPAT[a] = member attributes whose CURRENT value is always a valid value for a
# (the attribute itself first: "assign what it already holds")
COMPAT = {
    "x_width": ["x_width", "y_width"], "y_width": ["y_width", "x_width"],
    "radius": ["radius", "acceptance_angle"], "acceptance_angle": ["acceptance_angle", "radius"],
    "ray_extinction_prob": ["ray_extinction_prob", "ray_important_path_weight", "targetted_path_prob"],
    "ray_important_path_weight": ["ray_important_path_weight", "ray_extinction_prob", "targetted_path_prob"],
    "targetted_path_prob": ["targetted_path_prob", "ray_extinction_prob", "ray_important_path_weight"],
    "pixel_samples": ["pixel_samples", "samples_per_task", "spectral_bins"],
    "samples_per_task": ["samples_per_task", "pixel_samples", "spectral_bins"],
    "ray_max_depth": ["ray_max_depth", "ray_extinction_min_depth", "pixel_samples"],
    "ray_extinction_min_depth": ["ray_extinction_min_depth", "ray_max_depth", "spectral_rays"],
    "spectral_bins": ["spectral_bins"], "spectral_rays": ["spectral_rays"],
    "max_wavelength": ["max_wavelength"], "min_wavelength": ["min_wavelength"],
    "sensitivity": ["sensitivity", "max_wavelength", "min_wavelength"],
    "quiet": ["quiet", "ray_importance_sampling"], "ray_importance_sampling": ["ray_importance_sampling", "quiet"],
}
_FALLBACK = {"int": lambda a: ATTRS[a]["lo"], "float": lambda a: 0.5 * (ATTRS[a]["lo"] + ATTRS[a]["hi"]), "bool": lambda a: True}
PIPE_KINDS = ["power", "radiance", "spectral_power", "spectral_radiance"]
FOREIGN_TYPES = ["SightLine", "FibreOptic", "Pixel", "TargettedPixel", "SpectroscopicSightLine",
                 "SpectroscopicFibreOptic", "BolometerFoil", "Sphere", "Node", "None", "str", "int"]
SNAP_EXCLUDE = {"pixels_as_foils", "sightline_vectors"}     # getters that create scene-graph nodes as a side effect
NAME_ALPHABET = ["a", "b", "c", "d", "e", "f", "ch1", "ch2", "LOS 1", "LOS 2", ""]

_S = {}


# ----------------------------------------------------------------------------------------------
# lazy imports / worker state
# ----------------------------------------------------------------------------------------------

def _state():
    if _S:
        return _S
    from raysect.core import Node, Point3D, Vector3D, AffineMatrix3D, translate
    from raysect.core.workflow import SerialEngine
    from raysect.optical import World
    from raysect.primitive import Sphere
    from raysect.optical.material import AbsorbingSurface
    from raysect.optical.observer import (SightLine, FibreOptic, Pixel, TargettedPixel, PowerPipeline0D,
                                          RadiancePipeline0D, SpectralPowerPipeline0D, SpectralRadiancePipeline0D,
                                          PowerPipeline2D)
    from cherab.tools.observers import (SpectroscopicSightLine, SpectroscopicFibreOptic, BolometerFoil, BolometerIRVB,
                                        BolometerSlit)
    from vf import groupinv_c15 as inv

    class CountingPower0D(PowerPipeline0D):
        """Raysect mono pipeline that counts how often an observation initialises / finalises it."""
        def __init__(self, *a, **k):
            super().__init__(*a, **k)
            self.n_init = 0
            self.n_final = 0

        def initialise(self, *a, **k):
            self.n_init += 1
            return super().initialise(*a, **k)

        def finalise(self, *a, **k):
            self.n_final += 1
            return super().finalise(*a, **k)

    class CountingPower2D(PowerPipeline2D):
        def __init__(self, *a, **k):
            super().__init__(*a, **k)
            self.n_init = 0
            self.n_final = 0

        def initialise(self, *a, **k):
            self.n_init += 1
            return super().initialise(*a, **k)

        def finalise(self, *a, **k):
            self.n_final += 1
            return super().finalise(*a, **k)

    pending = []

    def record(key, what, detail):
        pending.append((key, what, detail))

    inv.install(record, post=False)
    classes = inv.load_classes()
    _S.update(Node=Node, Point3D=Point3D, Vector3D=Vector3D, AffineMatrix3D=AffineMatrix3D, translate=translate,
              SerialEngine=SerialEngine, World=World, Sphere=Sphere, AbsorbingSurface=AbsorbingSurface, SightLine=SightLine, FibreOptic=FibreOptic,
              Pixel=Pixel, TargettedPixel=TargettedPixel, PowerPipeline0D=PowerPipeline0D,
              RadiancePipeline0D=RadiancePipeline0D, SpectralPowerPipeline0D=SpectralPowerPipeline0D,
              SpectralRadiancePipeline0D=SpectralRadiancePipeline0D,
              SpectroscopicSightLine=SpectroscopicSightLine, SpectroscopicFibreOptic=SpectroscopicFibreOptic,
              BolometerFoil=BolometerFoil, BolometerIRVB=BolometerIRVB, BolometerSlit=BolometerSlit,
              CountingPower0D=CountingPower0D, CountingPower2D=CountingPower2D, inv=inv, pending=pending,
              classes=classes)
    _S["member_types"] = {
        "SightLineGroup": (SightLine,), "FibreOpticGroup": (FibreOptic,), "PixelGroup": (Pixel,),
        "TargettedPixelGroup": (TargettedPixel,), "SpectroscopicSightLineGroup": (SpectroscopicSightLine,),
        "SpectroscopicFibreOpticGroup": (SpectroscopicFibreOptic,), CAMERA: (BolometerFoil, BolometerIRVB)}
    return _S


def worker_init(ctx):
    _state()


def _props(cname):
    """Introspected properties of a group class: name -> property object."""
    S = _state()
    cache = S.setdefault("_props", {})
    if cname not in cache:      # the classes are patched once (worker_init) and never change afterwards
        cache[cname] = dict(inspect.getmembers(S["classes"][cname], lambda o: isinstance(o, property)))
    return cache[cname]


def _broadcast_attrs(cname):
    return sorted(n for n in _props(cname) if n not in STRUCTURAL)


# ----------------------------------------------------------------------------------------------
# case generation
# ----------------------------------------------------------------------------------------------

def _gen_value1(rng, attr):
    t = ATTRS[attr]
    ty = t["type"]
    if ty == "int":
        return int(rng.integers(t["lo"], t["hi"] + 1))
    if ty == "float":
        v = float(rng.uniform(t["lo"], t["hi"]))
        if t["lo"] == 0.0 and rng.random() < 0.05:
            v = [0.0, 1.0][int(rng.integers(2))]
        if v <= 0.0 and t["lo"] > 0.0:
            v = t["lo"]
        return v
    if ty == "bool":
        return bool(rng.integers(2))
    if ty == "str":
        return NAME_ALPHABET[int(rng.integers(len(NAME_ALPHABET)))] if rng.random() < 0.6 else "n%d" % int(rng.integers(1000))
    if ty == "engine":
        return int(rng.integers(4))
    if ty == "prims":
        k = int(rng.integers(1, 4))
        return [int(i) for i in rng.choice(5, size=k, replace=False)]
    if ty == "pipes":
        k = int(rng.integers(1, 4))
        return [PIPE_KINDS[int(rng.integers(4))] for _ in range(k)]
    if ty == "point":
        return [float(x) for x in rng.uniform(-5, 5, size=3)]
    if ty == "vector":
        while True:
            v = rng.normal(size=3) * 10 ** rng.uniform(-1, 1)
            if abs(v[0]) + abs(v[1]) > 0.2 * np.linalg.norm(v):      # stay away from the +-z axis (member-level up-vector rule)
                return [float(x) for x in v]
    raise ValueError(ty)


def _kinds(attr):
    t = ATTRS[attr]
    k = []
    if t["scalar"]:
        k.append("scalar")
    k += ["list", "tuple"]
    if t["nd"]:
        k.append("ndarray")
    return k


def _seq_kinds(attr):
    return [k for k in _kinds(attr) if k != "scalar"]


def _gen_assign(rng, attr, n, kind=None):
    kinds = _kinds(attr)
    kind = kind or kinds[int(rng.integers(len(kinds)))]
    if kind == "scalar":
        return {"op": "assign", "attr": attr, "kind": "scalar", "value": _gen_value1(rng, attr)}
    vals = [_gen_value1(rng, attr) for _ in range(n)]
    if ATTRS[attr]["type"] == "str" and n > 1 and rng.random() < 0.7:
        vals = ["u%d" % i for i in rng.permutation(n)]           # unique names so that name lookup is exercised
    return {"op": "assign", "attr": attr, "kind": kind, "value": vals}


def _compat_sources(cname, attr):
    have = set(_broadcast_attrs(cname))
    return [a for a in COMPAT.get(attr, []) if a in have]


def _gen_assign_cur(rng, cname, attr, n, kind=None, src=None, mode=None):
    """Assignment whose elements are (partly) the CURRENT values of the same / another attribute of the same member."""
    srcs = _compat_sources(cname, attr)
    src = src or srcs[int(rng.integers(len(srcs)))]
    kinds = _kinds(attr)
    kind = kind or kinds[int(rng.integers(len(kinds)))]
    if kind == "scalar":
        return {"op": "assign", "attr": attr, "kind": "scalar", "value": {"cur": src, "of": int(rng.integers(0, max(n, 1)))}, "cur": True}
    mode = mode or ["all", "alternate", "random", "shifted"][int(rng.integers(4))]
    vals = []
    for j in range(n):
        if mode == "all" or (mode == "alternate" and j % 2 == 0) or (mode == "random" and rng.random() < 0.5):
            vals.append({"cur": src})
        elif mode == "shifted":
            vals.append({"cur": src, "of": j + 1})
        else:
            vals.append(_gen_value1(rng, attr))
    return {"op": "assign", "attr": attr, "kind": kind, "value": vals, "cur": True}


def _wrong_lengths(n):
    return sorted({L for L in (n - 1, n + 1, 0, 1, 2 * n, n + 3) if L >= 0 and L != n})


def _gen_wronglen(rng, attr, n, kind=None, length=None):
    kinds = _seq_kinds(attr)
    kind = kind or kinds[int(rng.integers(len(kinds)))]
    ls = _wrong_lengths(n)
    L = length if length is not None else ls[int(rng.integers(len(ls)))]
    return {"op": "wronglen", "attr": attr, "kind": kind, "value": [_gen_value1(rng, attr) for _ in range(L)]}


def _gen_member(rng, cname, i):
    name = None
    r = rng.random()
    if r < 0.55:
        name = "m%d" % i
    elif r < 0.85:
        name = NAME_ALPHABET[int(rng.integers(len(NAME_ALPHABET)))]
    spec = {"name": name, "init": {}}
    spec["pstate"] = "none" if rng.random() < 0.5 else PSTATES[int(rng.integers(1, len(PSTATES)))]
    if cname == CAMERA:
        spec["name"] = name if name is not None else "det%d" % i       # BolometerFoil requires a str id
        spec["mtype"] = "BolometerIRVB" if rng.random() < 0.12 else "BolometerFoil"
        spec["slit"] = int(rng.integers(2))
        spec["pos"] = [float(x) for x in rng.uniform(-0.02, 0.02, size=2)]
        return spec
    spec["mtype"] = MEMBER_TYPE[cname]
    if cname == "SightLineGroup" and rng.random() < 0.1:
        spec["mtype"] = "SpectroscopicSightLine"                        # a subclass instance is a legitimate member
    if cname == "FibreOpticGroup" and rng.random() < 0.1:
        spec["mtype"] = "SpectroscopicFibreOptic"
    attrs = [a for a in _broadcast_attrs(cname) if a in ATTRS and ATTRS[a]["type"] in ("int", "float", "bool")
             and a not in ("display_progress", "accumulate")]
    for a in attrs:
        if rng.random() < 0.25:
            spec["init"][a] = _gen_value1(rng, a)
    k = int(rng.integers(1, 3))
    spec["pipes"] = [PIPE_KINDS[int(rng.integers(4))] for _ in range(k)]
    if cname in SPECTRO or spec["mtype"].startswith("Spectroscopic"):
        if rng.random() < 0.6:
            spec["origin"] = _gen_value1(rng, "origin")
        if rng.random() < 0.6:
            spec["direction"] = _gen_value1(rng, "direction")
    if "TargettedPixel" in spec["mtype"]:
        spec["targets"] = _gen_value1(rng, "targets")
    return spec


def _gen_slices(rng, n, k):
    out = []
    for _ in range(k):
        def b():
            return None if rng.random() < 0.3 else int(rng.integers(-n - 2, n + 3))
        step = [None, 1, 2, -1, -2, 3][int(rng.integers(6))]
        out.append([b(), b(), step])
    return out


def _member_paths(cname):
    if cname == CAMERA:
        return dict(add=["add_foil_detector"], set=["foil_detectors"])
    if cname in SPECTRO:
        return dict(add=["add_observer", "add_sight_line"], set=["observers", "sight_lines"])
    return dict(add=["add_observer"], set=["observers"])


def _gen_init(rng, cname, n0):
    if cname == CAMERA:
        via = ["add", "set_list"][int(rng.integers(2))]
    else:
        via = ["ctor_list", "ctor_tuple", "add", "set_list", "set_tuple"][int(rng.integers(5))]
    return {"via": via, "n0": n0}


def _gen_history(rng, cname, tier):
    n0 = int(rng.integers(0, 7))
    if rng.random() < 0.1:
        n0 = 0
    nops = int(rng.integers(5, 31))
    cap = 10
    if tier == "thorough" and rng.random() < 0.3:        # thorough tier: larger groups and longer histories as well
        n0 = int(rng.integers(0, 11))
        nops = int(rng.integers(30, 61))
        cap = 14
    attrs = _broadcast_attrs(cname)
    paths = _member_paths(cname)
    pool = [_gen_member(rng, cname, i) for i in range(n0)]
    members = list(range(n0))
    ops = []
    in_world = bool(rng.random() < 0.7)
    for _ in range(nops):
        n = len(members)
        r = rng.random()
        if r < 0.12 and len(pool) < cap:
            via = paths["add"][int(rng.integers(len(paths["add"])))]
            if members and rng.random() < 0.15:
                idx = members[int(rng.integers(len(members)))]         # re-add an observer that is already a member
            else:
                pool.append(_gen_member(rng, cname, len(pool)))
                idx = len(pool) - 1
            ops.append({"op": "add", "m": idx, "via": via})
            members.append(idx)                                        # (the unchanged code keeps a second entry)
        elif r < 0.20:
            # assign a new member list: random subset/permutation of the pool (possibly with fresh members)
            if len(pool) < cap and rng.random() < 0.4:
                pool.append(_gen_member(rng, cname, len(pool)))
            k = int(rng.integers(0, min(len(pool), 6) + 1))
            ms = [int(i) for i in rng.permutation(len(pool))[:k]]
            if ms and rng.random() < 0.12:
                ms.insert(int(rng.integers(len(ms) + 1)), ms[int(rng.integers(len(ms)))])   # same observer listed twice
            via = paths["set"][int(rng.integers(len(paths["set"])))]
            kind = "list" if cname == CAMERA else ["list", "tuple"][int(rng.integers(2))]
            ops.append({"op": "set_members", "ms": ms, "via": via, "kind": kind})
            members = list(ms)
        elif r < 0.55 and attrs:
            a = attrs[int(rng.integers(len(attrs)))]
            if a in ATTRS:
                if rng.random() < 0.3 and _compat_sources(cname, a):
                    ops.append(_gen_assign_cur(rng, cname, a, n))
                else:
                    ops.append(_gen_assign(rng, a, n))
            else:
                ops.append({"op": "generic", "attr": a})
        elif r < 0.67 and attrs:
            a = attrs[int(rng.integers(len(attrs)))]
            if a in ATTRS:
                ops.append(_gen_wronglen(rng, a, n))
            else:
                ops.append({"op": "generic", "attr": a})
        elif r < 0.73 and n:
            ops.append({"op": "rename_member", "i": int(rng.integers(n)), "name": _gen_value1(rng, "names")})
        elif r < 0.80 and attrs:
            ops.append({"op": "read", "attr": attrs[int(rng.integers(len(attrs)))]})
        elif r < 0.93:
            ops.append({"op": "lookup", "slices": _gen_slices(rng, n, 3)})
        elif r < 0.96 and in_world:
            ops.append(_gen_observe_op(rng))
        elif cname != CAMERA and cname not in SPECTRO:
            k = int(rng.integers(1, 3))
            ops.append({"op": "connect_pipelines", "kinds": [PIPE_KINDS[int(rng.integers(4))] for _ in range(k)]})
        else:
            ops.append({"op": "lookup", "slices": _gen_slices(rng, n, 2)})
    ops.append({"op": "lookup", "slices": _gen_slices(rng, len(members), 2)})
    if rng.random() < 0.5:
        ops.append({"op": "getter_alias"})
    if rng.random() < 0.15:
        vias = paths["set"] + ([] if cname == CAMERA else ["ctor"])
        ops.append({"op": "two_groups", "via": vias[int(rng.integers(len(vias)))], "k": int(rng.integers(0, 4))})
    ops.append({"op": "read_all"})
    if rng.random() < 0.4:
        ops.insert(len(ops) - 1, {"op": "roundtrip"})
    return {"kind": "history", "cls": cname, "in_world": in_world, "placement": _gen_placement(rng), "pool": pool,
            "init": _gen_init(rng, cname, n0), "ops": ops}


def _gen_affine(rng, kind):
    t = [float(x) for x in rng.uniform(-3, 3, size=3)] if kind in ("translation", "both") else [0.0, 0.0, 0.0]
    r = [float(x) for x in rng.uniform(-170, 170, size=3)] if kind in ("rotation", "both") else [0.0, 0.0, 0.0]
    return {"t": t, "r": r}


GT_KINDS = ["identity", "translation", "rotation", "both"]


def _gen_placement(rng, depth=None, gt=None):
    """Scene placement of the group: 0 / 1 / 2 transformed nodes between the root and the group (root = the World when
    the case is in a world, else the top node / the group itself) and the group's own transform."""
    depth = int(rng.integers(0, 3)) if depth is None else depth
    gt = GT_KINDS[int(rng.integers(4))] if gt is None else gt
    chain = [_gen_affine(rng, GT_KINDS[int(rng.integers(1, 4))]) for _ in range(depth)]
    return {"chain": chain, "gt": None if gt == "identity" else _gen_affine(rng, gt), "gt_kind": gt, "depth": depth}


def _gen_observe_op(rng):
    return {"op": "observe", "reps": int(rng.integers(1, 3)), "ps": int(rng.integers(1, 12)), "spt": int(rng.integers(1, 12)),
            "bins": int(rng.integers(1, 4)), "strays": int(rng.integers(0, 3)) if rng.random() < 0.5 else 0,
            "reparent": [int(i) for i in rng.integers(0, 8, size=int(rng.integers(0, 3)))] if rng.random() < 0.4 else []}


def _gen_observe(rng, cname):
    n = int(rng.integers(0, 6))
    pool = [_gen_member(rng, cname, i) for i in range(n)]
    ops = []
    if cname != CAMERA and rng.random() < 0.5:
        attrs = [a for a in _broadcast_attrs(cname) if a in ATTRS]
        for _ in range(int(rng.integers(1, 4))):
            ops.append(_gen_assign(rng, attrs[int(rng.integers(len(attrs)))], n))
    paths = _member_paths(cname)
    if rng.random() < 0.6:                # membership replaced / extended before observing: old members stay children
        pool += [_gen_member(rng, cname, len(pool) + i) for i in range(int(rng.integers(0, 3)))]
        k = int(rng.integers(0, len(pool) + 1))
        ops.append({"op": "set_members", "ms": [int(i) for i in rng.permutation(len(pool))[:k]],
                    "via": paths["set"][int(rng.integers(len(paths["set"])))], "kind": "list"})
    ops.append(_gen_observe_op(rng))
    ops.append({"op": "lookup", "slices": []})
    return {"kind": "observe", "cls": cname, "in_world": True, "placement": _gen_placement(rng), "pool": pool,
            "init": _gen_init(rng, cname, n), "ops": ops}


def _gen_foreign(rng, cname):
    n = int(rng.integers(0, 4))
    pool = [_gen_member(rng, cname, i) for i in range(n)]
    paths = _member_paths(cname)
    vias = paths["add"] + paths["set"] + ([] if cname == CAMERA else ["ctor"])
    ops = []
    for _ in range(int(rng.integers(1, 4))):
        extras = [PSTATES[int(rng.integers(len(PSTATES)))] for _ in range(int(rng.integers(0, 4)))]
        ops.append({"op": "foreign", "ftype": FOREIGN_TYPES[int(rng.integers(len(FOREIGN_TYPES)))],
                    "via": vias[int(rng.integers(len(vias)))], "pos": int(rng.integers(0, n + len(extras) + 1)),
                    "extras": extras, "bare": bool(rng.random() < 0.1)})
    ops.append({"op": "lookup", "slices": []})
    return {"kind": "foreign", "cls": cname, "in_world": bool(rng.random() < 0.5), "placement": _gen_placement(rng), "pool": pool,
            "init": _gen_init(rng, cname, n), "ops": ops}


def gen_case(rng, tier):
    cname = CLASSES[int(rng.integers(len(CLASSES)))]
    r = rng.random()
    if r < 0.72:
        return _gen_history(rng, cname, tier)
    if r < 0.88:
        return _gen_observe(rng, cname)
    return _gen_foreign(rng, cname)


def fixed_cases(tier):
    cases = []
    for cname in CLASSES:
        cases.append({"kind": "registry", "cls": cname})
    # sweep: every (class, attribute, size) x every value kind and wrong length
    for cname in CLASSES:
        if cname == CAMERA:
            continue
        for attr in _broadcast_attrs(cname):
            for n in (0, 1, 3, 5):
                rng = np.random.default_rng([15, zlib.crc32(("%s.%s" % (cname, attr)).encode()), n])
                pool = [_gen_member(rng, cname, i) for i in range(n)]
                ops = []
                if attr in ATTRS:
                    if not ATTRS[attr]["scalar"]:
                        ops.append({"op": "scalar_unsupported", "attr": attr})
                    for kind in _kinds(attr):
                        ops.append(_gen_assign(rng, attr, n, kind))
                        ops.append({"op": "read", "attr": attr})
                    for kind in _seq_kinds(attr):
                        for L in _wrong_lengths(n):
                            ops.append(_gen_wronglen(rng, attr, n, kind, L))
                    if ATTRS[attr]["type"] in ("int", "float"):           # both ends of the member-level valid range
                        lo, hi = ATTRS[attr]["lo"], ATTRS[attr]["hi"]
                        for kind in _kinds(attr):
                            if kind == "scalar":
                                ops.append({"op": "assign", "attr": attr, "kind": "scalar", "value": lo})
                                ops.append({"op": "assign", "attr": attr, "kind": "scalar", "value": hi})
                            else:
                                ops.append({"op": "assign", "attr": attr, "kind": kind, "value": [(lo, hi)[i % 2] for i in range(n)]})
                                ops.append({"op": "assign", "attr": attr, "kind": kind, "value": [(hi, lo)[i % 2] for i in range(n)]})
                    ops.append(_gen_assign(rng, attr, n, "list"))
                    if n in (1, 3):
                        for src in _compat_sources(cname, attr):           # cross-attribute / same-attribute coincidences
                            for kind in _kinds(attr):
                                for mode in (("all",) if kind == "scalar" else ("all", "alternate") + (("shifted",) if src == attr else ())):
                                    if src != attr:
                                        ops.append(_gen_assign(rng, src, n, "list"))   # fresh, distinct source values
                                    ops.append(_gen_assign_cur(rng, cname, attr, n, kind, src, mode))
                else:
                    ops.append({"op": "generic", "attr": attr})
                ops.append({"op": "roundtrip", "attrs": [attr]})
                ops.append({"op": "read_all"})
                cases.append({"kind": "sweep", "cls": cname, "attr": attr, "in_world": n == 3,
                              "placement": _gen_placement(rng, depth=(0, 1, 2, 1)[(n + len(attr)) % 4], gt=GT_KINDS[(n + len(attr) // 2) % 4]),
                              "pool": pool,
                              "init": {"via": ["ctor_list", "add", "set_tuple", "ctor_tuple"][n % 4], "n0": n}, "ops": ops})
    # scene placement classes: parent None / world / transformed node / nested nodes  x  group transform identity /
    # translation / rotation / both; the assign / read-back / round-trip machinery for every attribute under each
    for cname in CLASSES:
        attrs = [a for a in _broadcast_attrs(cname) if a in ATTRS]
        for pi, (in_world, depth) in enumerate(((False, 0), (True, 0), (True, 1), (True, 2), (False, 2))):
            for gi, gt in enumerate(GT_KINDS):
                rng = np.random.default_rng([15, 66, zlib.crc32(cname.encode()), pi, gi])
                pool = [_gen_member(rng, cname, i) for i in range(3)]
                for p_ in pool:
                    if p_.get("mtype") == "BolometerIRVB":
                        p_["mtype"] = "BolometerFoil"
                ops = []
                for attr in attrs:
                    geo = ATTRS[attr]["type"] in ("point", "vector", "prims")
                    for kind in (_kinds(attr) if geo else ["list"]):
                        ops.append(_gen_assign(rng, attr, 3, kind))
                    ops.append({"op": "roundtrip", "attrs": [attr]})
                ops += [{"op": "lookup", "slices": [[None, None, None]]}, {"op": "roundtrip"}, {"op": "read_all"}]
                if in_world:
                    ops.append({"op": "observe", "reps": 1, "ps": 2, "spt": 2, "bins": 1})
                cases.append({"kind": "placement", "cls": cname, "in_world": in_world, "placement": _gen_placement(rng, depth, gt),
                              "pool": pool, "init": {"via": ["add", "set_list"][gi % 2] if cname == CAMERA else ["ctor_list", "add", "set_list", "ctor_tuple"][gi],
                                                     "n0": 3}, "ops": ops})
    # lookups and membership paths
    for cname in CLASSES:
        for n in (0, 1, 2, 4, 6):
            rng = np.random.default_rng([15, 77, zlib.crc32(cname.encode()), n])
            pool = [_gen_member(rng, cname, i) for i in range(n)]
            for i, p in enumerate(pool):
                p["name"] = "uniq%d" % i
                if p.get("mtype") == "BolometerIRVB":
                    p["mtype"] = "BolometerFoil"
            for via in (["add", "set_list"] if cname == CAMERA else ["ctor_list", "ctor_tuple", "add", "set_list", "set_tuple"]):
                ops = [{"op": "lookup", "slices": [[None, None, None], [1, None, None], [None, -1, None], [None, None, -1],
                                                   [None, None, 2], [-3, 5, 1], [4, 0, -2], [0, 0, None]]},
                       {"op": "read_all"}]
                cases.append({"kind": "lookup", "cls": cname, "in_world": False, "pool": pool,
                              "init": {"via": via, "n0": n}, "ops": ops})
    # aliasing: every container entry point with a caller-owned list, then add_*, lookups, getter-result mutation
    for cname in CLASSES:
        paths = _member_paths(cname)
        for n in (0, 2, 4):
            rng = np.random.default_rng([15, 33, zlib.crc32(cname.encode()), n])
            pool = [_gen_member(rng, cname, i) for i in range(n + 2)]
            for i, p in enumerate(pool):
                p["name"] = "al%d" % i
                if p.get("mtype") == "BolometerIRVB":
                    p["mtype"] = "BolometerFoil"
            inits = ["set_list", "add"] if cname == CAMERA else ["ctor_list", "set_list", "add"]
            for via0 in inits:
                for via in paths["set"]:
                    ops = [{"op": "lookup", "slices": [[None, None, None]]},
                           {"op": "add", "m": n, "via": paths["add"][-1]},
                           {"op": "set_members", "ms": list(range(n + 1))[::-1], "via": via, "kind": "list"},
                           {"op": "lookup", "slices": [[None, None, None]]},
                           {"op": "add", "m": n + 1, "via": paths["add"][0]},
                           {"op": "lookup", "slices": [[None, None, -1]]},
                           {"op": "getter_alias"}, {"op": "read_all"}]
                    cases.append({"kind": "alias", "cls": cname, "in_world": False, "pool": pool,
                                  "init": {"via": via0, "n0": n}, "ops": ops})
        for via in paths["set"] + ([] if cname == CAMERA else ["ctor"]):
            for k in (0, 1, 3):
                cases.append({"kind": "alias", "cls": cname, "in_world": False, "pool": [], "init": {"via": "add", "n0": 0},
                              "ops": [{"op": "two_groups", "via": via, "k": k}]})
    # every initial parent state of the offered observers x every member entry point; then re-add, duplicate listing,
    # lookups, a broadcast and an observation on the resulting group
    for cname in CLASSES:
        paths = _member_paths(cname)
        inits = ["add", "set_list"] if cname == CAMERA else ["ctor_list", "ctor_tuple", "add", "set_list", "set_tuple"]
        for ps in PSTATES:
            rng = np.random.default_rng([15, 44, zlib.crc32((cname + ps).encode())])
            pool = [_gen_member(rng, cname, i) for i in range(5)]
            for i, p in enumerate(pool):
                p["name"] = "ps%d" % i
                p["pstate"] = ps
                if p.get("mtype") == "BolometerIRVB":
                    p["mtype"] = "BolometerFoil"
            for via0 in inits:
                for addvia in paths["add"]:
                    for setvia in paths["set"]:
                        ops = [{"op": "lookup", "slices": [[None, None, None]]},
                               {"op": "add", "m": 2, "via": addvia},
                               {"op": "lookup", "slices": [[None, None, None]]},
                               {"op": "observe", "reps": 1, "ps": 3, "spt": 2, "bins": 1},
                               {"op": "add", "m": 0, "via": addvia},                       # re-add a member
                               {"op": "lookup", "slices": [[None, None, None]]},
                               {"op": "set_members", "ms": [3, 1, 4], "via": setvia, "kind": "list"},
                               {"op": "lookup", "slices": [[None, None, -1]]},
                               {"op": "set_members", "ms": [0, 1, 0, 2], "via": setvia, "kind": "list"},   # listed twice
                               {"op": "lookup", "slices": [[None, None, None]]},
                               {"op": "read_all"}]
                        if cname != CAMERA:
                            ops.insert(3, _gen_assign(rng, "pixel_samples", 3, "list"))
                            ops.insert(9, _gen_assign(rng, "spectral_bins", 3, "scalar"))
                        cases.append({"kind": "parent-state", "cls": cname, "pstate": ps, "in_world": True, "pool": pool,
                                      "init": {"via": via0, "n0": 2}, "ops": ops})
    # foreign types through every membership path
    for cname in CLASSES:
        paths = _member_paths(cname)
        vias = paths["add"] + paths["set"] + ([] if cname == CAMERA else ["ctor"])
        rng = np.random.default_rng([15, 99, zlib.crc32(cname.encode())])
        pool = [_gen_member(rng, cname, i) for i in range(2)]
        for ft in FOREIGN_TYPES:
            for via in vias:
                adds_ = via in paths["add"]
                ex = [] if adds_ else [["other_member", "world"], ["none", "other_child", "other_member"], ["node", "this_child"]][FOREIGN_TYPES.index(ft) % 3]
                ops = [{"op": "foreign", "ftype": ft, "via": via, "pos": p, "extras": ex} for p in range(1 if adds_ else 3 + len(ex))]
                if not adds_:
                    ops.append({"op": "foreign", "ftype": ft, "via": via, "bare": True})
                cases.append({"kind": "foreign", "cls": cname, "in_world": False, "pool": pool,
                              "init": {"via": "add", "n0": 2}, "ops": ops})
    # observe
    for cname in CLASSES:
        for n in (0, 1, 3):
            for reps in (1, 2):
                rng = np.random.default_rng([15, 55, zlib.crc32(cname.encode()), n])
                pool = [_gen_member(rng, cname, i) for i in range(n)]
                for p in pool:
                    if p.get("mtype") == "BolometerIRVB":
                        p["mtype"] = "BolometerFoil"
                cases.append({"kind": "observe", "cls": cname, "in_world": True, "pool": pool,
                              "init": {"via": "add", "n0": n},
                              "ops": [{"op": "observe", "reps": reps, "ps": 3 + n, "spt": 2, "bins": 2}]})
    # observe after membership and scene-graph children have diverged
    for cname in CLASSES:
        paths = _member_paths(cname)
        rng = np.random.default_rng([15, 57, zlib.crc32(cname.encode())])
        pool = [_gen_member(rng, cname, i) for i in range(6)]
        for i, p in enumerate(pool):
            p["name"] = "ob%d" % i
            if p.get("mtype") == "BolometerIRVB":
                p["mtype"] = "BolometerFoil"
        obs = {"op": "observe", "reps": 1, "ps": 3, "spt": 2, "bins": 1}
        for via0 in (["add", "set_list"] if cname == CAMERA else ["ctor_list", "add", "set_list"]):
            for setvia in paths["set"]:
                ops = [dict(obs),
                       {"op": "set_members", "ms": [4, 1, 3], "via": setvia, "kind": "list"},      # 0, 2 stay children
                       dict(obs),
                       dict(obs, strays=2),
                       dict(obs, reparent=[0, 2]),
                       {"op": "add", "m": 5, "via": paths["add"][-1]},
                       dict(obs, reps=2, strays=1, reparent=[1]),
                       {"op": "set_members", "ms": [], "via": setvia, "kind": "list"},
                       dict(obs),
                       {"op": "lookup", "slices": []}]
                cases.append({"kind": "observe", "cls": cname, "in_world": True, "pool": pool,
                              "init": {"via": via0, "n0": 3}, "ops": ops})
    # BolometerCamera holding an IRVB detector between two foils
    rng = np.random.default_rng([15, 56])
    pool = [_gen_member(rng, CAMERA, i) for i in range(3)]
    for i, p in enumerate(pool):
        p["mtype"] = "BolometerIRVB" if i == 1 else "BolometerFoil"
    cases.append({"kind": "observe", "cls": CAMERA, "in_world": True, "pool": pool, "init": {"via": "add", "n0": 3},
                  "ops": [{"op": "lookup", "slices": []}, {"op": "observe", "reps": 1, "ps": 3, "spt": 2, "bins": 1}]})
    return cases


# ----------------------------------------------------------------------------------------------
# execution environment
# ----------------------------------------------------------------------------------------------

class Env:
    def __init__(self, case):
        S = _state()
        self.S = S
        self.case = case
        self.cname = case["cls"]
        self.G = S["classes"][self.cname]
        self.world = S["World"]() if case.get("in_world") else None
        # target primitives live in their own frame; observe() moves that frame onto the group so that the targets stay in
        # front of the (untransformed) pixels wherever the group is placed
        self.prim_frame = S["Node"](parent=self.world)
        # scene placement of the group: chain of (transformed) nodes between the root and the group + group transform
        self.group_parent = self.world
        self.group_transform = None
        pl = case.get("placement")
        if pl:
            top = self.world
            self.chain = []
            for spec in pl.get("chain", []):
                top = S["Node"](parent=top, transform=self.affine(spec))
                self.chain.append(top)
            self.group_parent = top
            if pl.get("gt"):
                self.group_transform = self.affine(pl["gt"])
        self.keep = []                         # pins objects referenced by id() in snapshots
        self.engines = {}
        self.prims = {}
        self.pipe_kind = {}
        self.group = None
        self.members = []                      # the harness's own member list (model of membership + order)
        self.pool = {}
        self.slits = {}
        self.geom_margin = 0.0
        self.prepped = set()
        self.all_observers = []            # every valid observer this case created (members or not)
        self.caller_lists = []             # (entry, list object) recently handed to container entry points

    def affine(self, spec):
        from raysect.core import translate, rotate
        t, r = spec.get("t", [0, 0, 0]), spec.get("r", [0, 0, 0])
        return translate(*t) * rotate(*r)

    # -- object pools -------------------------------------------------------------------------
    def engine(self, i):
        if i not in self.engines:
            self.engines[i] = self.S["SerialEngine"]()
        return self.engines[i]

    def prim(self, i):
        if i not in self.prims:
            self.prims[i] = self.S["Sphere"](0.01, parent=self.prim_frame, transform=self.S["translate"](0.1 * i, 0.3, 1.0),
                                             material=self.S["AbsorbingSurface"]())
        return self.prims[i]

    def pipeline(self, kind):
        S = self.S
        cls = {"power": S["PowerPipeline0D"], "radiance": S["RadiancePipeline0D"],
               "spectral_power": S["SpectralPowerPipeline0D"], "spectral_radiance": S["SpectralRadiancePipeline0D"]}[kind]
        p = cls(accumulate=False) if kind in ("power", "radiance") else cls(accumulate=False, display_progress=False)
        self.keep.append(p)
        return p

    def slit(self, i):
        if i not in self.slits:
            S = self.S
            self.slits[i] = S["BolometerSlit"]("slit%d" % i, S["Point3D"](0.03 * i, 0, 0), S["Vector3D"](1, 0, 0), 0.004,
                                                S["Vector3D"](0, 1, 0), 0.004, parent=self.group)
        return self.slits[i]

    # -- members ------------------------------------------------------------------------------
    def member(self, idx):
        if idx in self.pool:
            return self.pool[idx]
        S = self.S
        spec = self.case["pool"][idx]
        mt = spec["mtype"]
        if mt == "BolometerFoil":
            m = S["BolometerFoil"](spec["name"], S["Point3D"](spec["pos"][0], spec["pos"][1], -0.05), S["Vector3D"](1, 0, 0),
                                   0.002, S["Vector3D"](0, 1, 0), 0.002, self.slit(spec["slit"]))
        elif mt == "BolometerIRVB":
            m = S["BolometerIRVB"](spec["name"], 0.004, (1, 2), self.slit(spec["slit"]),
                                   S["translate"](spec["pos"][0], spec["pos"][1], -0.05))
        else:
            pipes = [self.pipeline(k) for k in spec["pipes"]]
            kw = dict(pipelines=pipes, name=spec["name"])
            if mt.startswith("Spectroscopic"):
                if "origin" in spec:
                    kw["origin"] = S["Point3D"](*spec["origin"])
                if "direction" in spec:
                    kw["direction"] = S["Vector3D"](*spec["direction"])
            if "TargettedPixel" in mt:
                kw["targets"] = [self.prim(i) for i in spec["targets"]]
            m = S[mt](**kw)
            # diversified initial member state, set on the member itself (order respects Raysect's own dependencies)
            init = spec["init"]
            for a in sorted(init, key=lambda a: {"spectral_rays": 0, "spectral_bins": 1, "max_wavelength": 2, "min_wavelength": 3}.get(a, 9)):
                setattr(m, ATTRS[a]["member"], init[a])
        self.pool[idx] = m
        self.keep.append(m)
        self.all_observers.append(m)
        return m

    # -- values -------------------------------------------------------------------------------
    def dec1(self, attr, v):
        ty = ATTRS[attr]["type"]
        if ty in ("int", "float", "bool", "str"):
            return v
        if ty == "engine":
            return self.engine(v)
        if ty == "prims":
            return [self.prim(i) for i in v]
        if ty == "pipes":
            return [self.pipeline(k) for k in v]
        if ty == "point":
            return self.S["Point3D"](*v)
        if ty == "vector":
            return self.S["Vector3D"](*v)
        raise ValueError(ty)

    def resolve(self, attr, v, j):
        """An element {"cur": src[, "of": k]} stands for the CURRENT value of member attribute src of the member at the
        same position (or at position k) at the moment of the assignment."""
        if isinstance(v, dict) and "cur" in v:
            k = v.get("of", j)
            if not self.members:
                return _FALLBACK[ATTRS[attr]["type"]](attr)
            return getattr(self.members[k % len(self.members)], ATTRS[v["cur"]]["member"])
        return self.dec1(attr, v)

    def decode(self, attr, kind, value):
        """-> (python value to assign, list of per-element decoded values or None for scalar)"""
        if kind == "scalar":
            d = self.resolve(attr, value, 0)
            return d, None
        elems = [self.resolve(attr, v, j) for j, v in enumerate(value)]
        if kind == "list":
            return list(elems), elems
        if kind == "tuple":
            return tuple(elems), elems
        if kind == "ndarray":
            ty = ATTRS[attr]["type"]
            dt = {"int": np.int64, "float": np.float64, "bool": np.bool_}[ty]
            return np.array(elems, dtype=dt), elems
        raise ValueError(kind)


# ----------------------------------------------------------------------------------------------
# snapshots and comparisons (independent of cherab)
# ----------------------------------------------------------------------------------------------

def _canon(v, env):
    S = env.S
    if v is None or isinstance(v, (bool, int, float, str)):
        return ("v", v)
    if isinstance(v, np.generic):
        return ("v", v.item())
    if isinstance(v, S["Point3D"]):
        return ("P", v.x, v.y, v.z)
    if isinstance(v, S["Vector3D"]):
        return ("V", v.x, v.y, v.z)
    if isinstance(v, S["AffineMatrix3D"]):
        return ("M",) + tuple(v[i, j] for i in range(4) for j in range(4))
    if isinstance(v, (list, tuple)):
        return ("L",) + tuple(_canon(e, env) for e in v)
    if isinstance(v, dict):
        return ("D",) + tuple(sorted((repr(k), _canon(e, env)) for k, e in v.items()))
    if isinstance(v, np.ndarray):
        return ("A", v.shape) + tuple(_canon(e, env) for e in v.ravel().tolist())
    env.keep.append(v)
    return ("O", id(v))


_PUBLIC = {}


def _public_names(m):
    """Public attribute names of a member: dir() of its type (cached) plus instance attributes."""
    t = type(m)
    if t not in _PUBLIC:
        _PUBLIC[t] = [n for n in dir(t) if not n.startswith("_") and n not in SNAP_EXCLUDE]
    names = _PUBLIC[t]
    d = getattr(m, "__dict__", None)
    if d:
        extra = [n for n in d if not n.startswith("_") and n not in SNAP_EXCLUDE and n not in names]
        if extra:
            names = names + sorted(extra)
    return names


def snap_member(m, env):
    out = {}
    for n in _public_names(m):
        try:
            v = getattr(m, n)
        except Exception as e:  # noqa - a raising getter is part of the state ("raises X")
            out[n] = ("raises", type(e).__name__)
            continue
        if callable(v) and not isinstance(v, (list, tuple, dict)):
            continue
        out[n] = _canon(v, env)
    return out


def snap_all(env, ctx):
    ctx.mon("snapshot_members", len(env.members))
    return [snap_member(m, env) for m in env.members]


def _diff(a, b):
    keys = sorted(set(a) | set(b))
    return [k for k in keys if a.get(k) != b.get(k)]


def _veq(a, b):
    try:
        r = (a == b)
        return bool(r)
    except Exception:  # noqa
        return False


def _close3(a, b, tol):
    return all(abs(x - y) <= tol for x, y in zip(a, b))


def _expected_read_ok(env, attr, member, v):
    """Does the member now hold the assigned value v (decoded)?  -> (ok, got_repr)"""
    S = env.S
    t = ATTRS[attr]
    got = getattr(member, t["member"])
    ty = t["type"]
    if attr in ("display_progress", "accumulate"):
        pl = member.pipelines
        if attr == "display_progress":
            want = [v if isinstance(p, S["SpectralPowerPipeline0D"]) else None for p in pl]
        else:
            want = [v if isinstance(p, (S["PowerPipeline0D"], S["SpectralPowerPipeline0D"])) else None for p in pl]
        return (list(got) == want), repr(got)
    if ty == "engine":
        return got is v, repr(got)
    if ty in ("prims", "pipes"):
        return (len(got) == len(v) and all(g is w for g, w in zip(got, v))), repr(got)
    if ty == "point":
        # origin is read back through the member's transform (translate * rotate_basis): a few ulp at most
        tol = 1e-12 * (1.0 + max(abs(v.x), abs(v.y), abs(v.z)))
        err = max(abs(got.x - v.x), abs(got.y - v.y), abs(got.z - v.z))
        env.geom_margin = max(env.geom_margin, err / tol)
        return err <= tol, repr(got)
    if ty == "vector":
        # direction is normalised by rotate_basis and read back as the image of the z axis: a few ulp of a unit vector
        L = (v.x * v.x + v.y * v.y + v.z * v.z) ** 0.5
        err = max(abs(got.x - v.x / L), abs(got.y - v.y / L), abs(got.z - v.z / L))
        env.geom_margin = max(env.geom_margin, err / 1e-12)
        return err <= 1e-12, repr(got)
    return _veq(got, v), repr(got)


# ----------------------------------------------------------------------------------------------
# monitors
# ----------------------------------------------------------------------------------------------

def drain_hook(env, ctx):
    S = env.S
    done = S["inv"].COUNTS["invariant"]
    last = S.get("_hook_seen", 0)
    if done > last:
        ctx.mon("hook_invariant", done - last)
        S["_hook_seen"] = done
    while S["pending"]:
        key, what, detail = S["pending"].pop(0)
        ctx.viol(key, what, **detail)


def group_members(env):
    """Members as the group's public getter returns them."""
    if env.cname == CAMERA:
        return list(env.group.foil_detectors)
    return list(env.group.observers)


def check_invariant(env, ctx, where):
    """Explicit evaluation after every op: membership == the harness's list (same objects, same order); parent is the
    group; member among group.children; len(group) == n."""
    g = env.group
    cn = env.cname
    ctx.mon("invariant")
    got = group_members(env)
    want = env.members
    if len(got) != len(want) or any(a is not b for a, b in zip(got, want)):
        ctx.viol("members:%s:after-%s" % (cn, where),
                 "member getter returns %d members that are not the expected %d objects in order" % (len(got), len(want)),
                 got=[repr(x) for x in got][:8], want=[repr(x) for x in want][:8])
    if len(g) != len(want):
        ctx.viol("len:%s:after-%s" % (cn, where), "len(group)=%d, expected %d members" % (len(g), len(want)))
    children = g.children
    for i, m in enumerate(want):
        if m.parent is not g:
            ctx.viol("parent:%s:after-%s" % (cn, where), "member %d has parent %r, not the group" % (i, m.parent))
            break
    for i, m in enumerate(want):
        if not any(c is m for c in children):
            ctx.viol("children:%s:after-%s" % (cn, where), "member %d is not among group.children" % i)
            break
    if want:
        ctx.nontrivial()
    drain_hook(env, ctx)


def check_getter(env, ctx, attr):
    """group.<attr> must be the members' current values in member order."""
    cn = env.cname
    p = _props(cn).get(attr)
    if p is None:
        return
    ctx.mon("getter")
    try:
        got = getattr(env.group, attr)
    except Exception as e:  # noqa
        ctx.viol("getter:%s.%s:raises-%s" % (cn, attr, type(e).__name__), "reading group.%s raised %s: %s" % (attr, type(e).__name__, e))
        return
    mem = env.members
    if attr in STRUCTURAL:
        if attr == "slits":
            ctx.skip("slits getter: not a member attribute (property silent)")
            return
        ok = len(got) == len(mem) and all(a is b for a, b in zip(got, mem))
        if not ok:
            ctx.viol("getter:%s.%s:not-members-in-order" % (cn, attr), "group.%s does not return the members in order" % attr)
        return
    mattr = ATTRS[attr]["member"] if attr in ATTRS else attr
    try:
        n_got = len(got)
    except TypeError:
        ctx.viol("getter:%s.%s:not-a-sequence" % (cn, attr), "group.%s returned %r" % (attr, got))
        return
    if n_got != len(mem):
        ctx.viol("getter:%s.%s:length" % (cn, attr), "group.%s has %d entries for %d members" % (attr, n_got, len(mem)))
        return
    for i, m in enumerate(mem):
        try:
            direct = getattr(m, mattr)
        except AttributeError:
            ctx.skip("member has no attribute %s" % mattr)
            return
        if _canon(got[i], env) != _canon(direct, env):
            ctx.viol("getter:%s.%s:not-member-values" % (cn, attr),
                     "group.%s[%d] = %r but member %d holds %s = %r" % (attr, i, got[i], i, mattr, direct))
            return
    if mem:
        ctx.nontrivial()


def _has_setter(env, ctx, attr):
    cn = env.cname
    p = _props(cn).get(attr)
    if p is None:
        ctx.viol("attr-missing:%s.%s" % (cn, attr), "group class %s has no property %s" % (cn, attr))
        return False
    if p.fset is None:
        ctx.viol("no-setter:%s.%s" % (cn, attr),
                 "group attribute %s.%s has a getter but no setter: assigning to it raises AttributeError" % (cn, attr))
        return False
    return True


def _collateral(env, ctx, attr, before, after, kindkey):
    """Everything except the assigned member attribute (and its documented derived attributes) must be unchanged."""
    cn = env.cname
    t = ATTRS[attr]
    allowed = {t["member"]} | set(t["derived"])
    for j, (b, a) in enumerate(zip(before, after)):
        changed = [k for k in _diff(b, a) if k not in allowed]
        if changed:
            ctx.viol("%s:%s.%s:collateral-change" % (kindkey, cn, attr),
                     "assigning group.%s changed other member attributes %s of member %d" % (attr, changed, j),
                     before={k: b.get(k) for k in changed}, after={k: a.get(k) for k in changed})
            return
        # derived geometric attributes of the spectroscopic observers: the *other* one must survive within rounding
        if attr == "origin" and "direction" in b:
            env.geom_margin = max(env.geom_margin, max(abs(x - y) for x, y in zip(b["direction"][1:], a["direction"][1:])) / 1e-12)
            if not _close3(b["direction"][1:], a["direction"][1:], 1e-12):
                ctx.viol("%s:%s.origin:direction-not-preserved" % (kindkey, cn), "setting origin changed the direction of member %d" % j)
                return
        if attr == "direction" and "origin" in b:
            sc = 1e-12 * (1 + max(abs(x) for x in b["origin"][1:]))
            env.geom_margin = max(env.geom_margin, max(abs(x - y) for x, y in zip(b["origin"][1:], a["origin"][1:])) / sc)
            if not _close3(b["origin"][1:], a["origin"][1:], sc):
                ctx.viol("%s:%s.direction:origin-not-preserved" % (kindkey, cn), "setting direction changed the origin of member %d" % j)
                return


def op_assign(env, ctx, op):
    cn, attr, kind = env.cname, op["attr"], op["kind"]
    if not _has_setter(env, ctx, attr):
        return
    t = ATTRS[attr]
    if kind == "scalar" and not t["scalar"]:
        ctx.skip("scalar assignment to %s is documented as unsupported" % attr)
        return
    n = len(env.members)
    if kind != "scalar" and len(op["value"]) != n:
        # (history generation keeps lengths in step; after a failed membership op they may differ) -> treat as wronglen
        return op_wronglen(env, ctx, dict(op, op="wronglen"))
    value, elems = env.decode(attr, kind, op["value"])
    kindkey = "scalar" if kind == "scalar" else "seq"
    tag = "%s:%s.%s" % (kindkey, cn, attr) + ("" if kind == "scalar" else ":" + kind)
    before = snap_all(env, ctx)
    ctx.mon("assign_scalar" if kind == "scalar" else "assign_seq")
    if op.get("cur"):
        ctx.mon("assign_current_values")
    try:
        setattr(env.group, attr, value)
    except Exception as e:  # noqa  - every generated value is valid for every member: no exception is acceptable
        ctx.viol(tag + ":raises-%s" % type(e).__name__,
                 "assigning a valid %s value to group.%s raised %s: %s" % (kind, attr, type(e).__name__, str(e)[:200]), n=n)
        check_invariant(env, ctx, attr + "=")
        return
    after = snap_all(env, ctx)
    last = {id(m): j for j, m in enumerate(env.members)}      # a member listed twice keeps the element assigned last
    for j, m in enumerate(env.members):
        if last[id(m)] != j:
            continue
        v = value if elems is None else elems[j]
        ok, got = _expected_read_ok(env, attr, m, v)
        if not ok:
            ctx.viol(tag + ":member-value", "after group.%s = <%s>, member %d holds %s (expected %r)" % (attr, kind, j, got, v), n=n)
            break
    _collateral(env, ctx, attr, before, after, kindkey)
    if t["type"] in ("point", "vector") and n:
        ctx.mon("geom_roundtrip", n)
        ctx.margin("geom_roundtrip", env.geom_margin)
    if n:
        ctx.nontrivial()
    check_getter(env, ctx, attr)
    check_invariant(env, ctx, attr + "=")
    check_value_alias(env, ctx, attr, kind, value, after)


def op_wronglen(env, ctx, op):
    cn, attr, kind = env.cname, op["attr"], op["kind"]
    if not _has_setter(env, ctx, attr):
        return
    n = len(env.members)
    if len(op["value"]) == n:
        return op_assign(env, ctx, dict(op, op="assign"))
    value, elems = env.decode(attr, kind, op["value"])
    before = snap_all(env, ctx)
    t0 = _membership_state(env, env.group)
    ctx.mon("wronglen")
    ctx.nontrivial()
    raised = None
    try:
        setattr(env.group, attr, value)
    except ValueError:
        raised = "ValueError"
    except Exception as e:  # noqa
        raised = type(e).__name__
        ctx.viol("wronglen:%s.%s:raises-%s" % (cn, attr, raised),
                 "a %s of length %d assigned to group.%s (%d members) raised %s instead of ValueError: %s" % (
                     kind, len(op["value"]), attr, n, raised, str(e)[:200]))
    if raised is None:
        ctx.viol("wronglen:%s.%s:no-ValueError" % (cn, attr),
                 "a %s of length %d was accepted by group.%s of a group with %d members" % (kind, len(op["value"]), attr, n))
    after = snap_all(env, ctx)
    for j, (b, a) in enumerate(zip(before, after)):
        d = _diff(b, a)
        if d:
            ctx.viol("wronglen:%s.%s:changed-state" % (cn, attr),
                     "wrong-length assignment to group.%s changed attributes %s of member %d" % (attr, d, j),
                     before={k: b.get(k) for k in d}, after={k: a.get(k) for k in d})
            break
    d = _state_diff(t0, _membership_state(env, env.group))
    if d:
        ctx.viol("wronglen:%s.%s:changed-group-state" % (cn, attr),
                 "wrong-length assignment to group.%s changed the group's membership / getter state: %s" % (attr, d[:6]))
    check_invariant(env, ctx, attr + "=")


def op_generic(env, ctx, op):
    """Attribute found by introspection that the domain table does not know: drive it with values harvested from the
    members themselves (reverse order, then broadcast of member 0's value)."""
    cn, attr = env.cname, op["attr"]
    p = _props(cn).get(attr)
    if p is None:
        return
    ctx.mon("untabled_attribute")
    if p.fset is None:
        ctx.viol("no-setter:%s.%s" % (cn, attr), "group attribute %s.%s has a getter but no setter" % (cn, attr))
        return
    check_getter(env, ctx, attr)
    mem = env.members
    try:
        vals = [getattr(m, attr) for m in mem]
    except AttributeError:
        ctx.skip("untabled attribute %s: members have no same-named attribute" % attr)
        return
    if not mem:
        return
    rev = list(reversed(vals))
    try:
        setattr(env.group, attr, rev)
    except Exception as e:  # noqa
        ctx.skip("untabled attribute %s: harvested values rejected (%s)" % (attr, type(e).__name__))
        return
    for j, m in enumerate(mem):
        if _canon(getattr(m, attr), env) != _canon(rev[j], env):
            ctx.viol("seq:%s.%s:list:member-value" % (cn, attr), "untabled attribute %s: member %d did not receive element %d" % (attr, j, j))
            break
    check_getter(env, ctx, attr)
    check_invariant(env, ctx, attr + "=")


NO_ROUNDTRIP = {"display_progress", "accumulate"}      # their getters return per-pipeline lists, not assignable values


def _canon_close(a, b, tol):
    if isinstance(a, tuple) and isinstance(b, tuple):
        return len(a) == len(b) and all(_canon_close(x, y, tol) for x, y in zip(a, b))
    if isinstance(a, float) and isinstance(b, float):
        return abs(a - b) <= tol * (1.0 + abs(a))
    return a == b


def op_roundtrip(env, ctx, op):
    """group.attr = group.attr must change nothing (what is read is what the members hold; assigning it element-wise
    gives every member the value it already has) - in whatever frame the group sits in the scene."""
    cn = env.cname
    g = env.group
    props = _props(cn)
    attrs = op.get("attrs") or [a for a in sorted(props) if a not in STRUCTURAL]
    for a in attrs:
        pr = props.get(a)
        if pr is None or pr.fget is None or pr.fset is None or a in NO_ROUNDTRIP:
            continue
        if a == "names" and any(not isinstance(m.name, str) for m in env.members):
            ctx.skip("names round trip with an unnamed member: Raysect's own name setter rejects None")
            continue
        before = snap_all(env, ctx)
        ctx.mon("roundtrip")
        try:
            v = getattr(g, a)
            setattr(g, a, v)
        except Exception as e:  # noqa
            ctx.viol("roundtrip:%s.%s:raises-%s" % (cn, a, type(e).__name__),
                     "group.%s = group.%s raised %s: %s" % (a, a, type(e).__name__, str(e)[:200]))
            continue
        after = snap_all(env, ctx)
        geo = a in ATTRS and ATTRS[a]["type"] in ("point", "vector")
        for j, (b, c) in enumerate(zip(before, after)):
            d = _diff(b, c)
            if geo:       # the member-level setters rebuild the transform from (origin, direction): the roll about the
                # sight line is theirs to choose; the VALUES (origin, direction) must survive within rounding
                d = [k for k in d if k != "transform" and not (k in ("origin", "direction") and _canon_close(b[k], c[k], 1e-12))]
            if d:
                ctx.viol("roundtrip:%s.%s:changed-members" % (cn, a),
                         "group.%s = group.%s changed attributes %s of member %d" % (a, a, d, j),
                         before={k: b.get(k) for k in d}, after={k: c.get(k) for k in d})
                break
    if env.members:
        ctx.nontrivial()
    check_invariant(env, ctx, "roundtrip")


def op_lookup(env, ctx, op):
    cn = env.cname
    g = env.group
    mem = env.members
    n = len(mem)
    for i in list(range(n)) + list(range(-n, 0)):
        ctx.mon("lookup_index")
        try:
            got = g[i]
        except Exception as e:  # noqa
            ctx.viol("lookup:%s:index:raises-%s" % (cn, type(e).__name__), "group[%d] raised %s on a group of %d members" % (i, type(e).__name__, n))
            break
        if got is not mem[i]:
            ctx.viol("lookup:%s:index:wrong-member" % cn, "group[%d] is not member %d of %d" % (i, i % n, n))
            break
    for s in op.get("slices", []):
        sl = slice(*s)
        want = tuple(mem)[sl]
        ctx.mon("lookup_slice")
        try:
            got = g[sl]
        except Exception as e:  # noqa
            ctx.viol("lookup:%s:slice:raises-%s" % (cn, type(e).__name__),
                     "group[%s:%s:%s] raised %s: %s" % (s[0], s[1], s[2], type(e).__name__, str(e)[:120]))
            break
        try:
            ok = len(got) == len(want) and all(a is b for a, b in zip(got, want))
        except TypeError:
            ok = False
        if not ok:
            ctx.viol("lookup:%s:slice:wrong-members" % cn, "group[%s:%s:%s] did not return the sliced member sequence" % (s[0], s[1], s[2]), n=n)
            break
    names = [m.name for m in mem]
    for j, s in enumerate(names):
        if not isinstance(s, str):
            continue
        if names.count(s) != 1:
            ctx.skip("lookup by a duplicated name: property silent")
            continue
        ctx.mon("lookup_name")
        try:
            got = g[s]
        except Exception as e:  # noqa
            ctx.viol("lookup:%s:name:raises-%s" % (cn, type(e).__name__), "group[%r] raised %s although exactly one member has that name" % (s, type(e).__name__))
            break
        if got is not mem[j]:
            ctx.viol("lookup:%s:name:wrong-member" % cn, "group[%r] did not return the member with that unique name" % s)
            break
    if n:
        ctx.nontrivial()


def _make_foreign(env, ftype):
    S = env.S
    if ftype == "None":
        return None
    if ftype == "str":
        return "observer"
    if ftype == "int":
        return 3
    if ftype == "Sphere":
        return S["Sphere"](0.01)
    if ftype == "Node":
        return S["Node"]()
    if ftype == "BolometerFoil":
        slit = S["BolometerSlit"]("fslit", S["Point3D"](0, 0, 0), S["Vector3D"](1, 0, 0), 0.004, S["Vector3D"](0, 1, 0), 0.004)
        env.keep.append(slit)
        return S["BolometerFoil"]("ffoil", S["Point3D"](0, 0, -0.05), S["Vector3D"](1, 0, 0), 0.002, S["Vector3D"](0, 1, 0), 0.002, slit)
    if ftype == "TargettedPixel":
        return S["TargettedPixel"](targets=[env.prim(0)], pipelines=[env.pipeline("power")])
    if ftype in ("SpectroscopicSightLine", "SpectroscopicFibreOptic"):
        return S[ftype]()
    return S[ftype](pipelines=[env.pipeline("power")])


def _membership_state(env, g):
    """What the statement fixes about a group's membership: members (identity, order), len, every member's parent,
    name lookup, the membership / broadcast getters."""
    st = group_state(env, g, snaps=False)
    return {k: v for k, v in st.items() if not (k.startswith("get:") and STRUCTURAL.get(k[4:]) == "ro")}


def _judge_rejection(env, ctx, entry, what, t0, others, offered, strays):
    """After an operation was REJECTED (raised): the statement's clauses must still hold for every group involved.
    Judged: the target's membership state is what it was (nothing was accepted); every other group the offered
    observers are members of still has the same members and is still the parent of each of them.
    NOT judged (the statement is silent; counted as an observation): offered observers that are members of no group
    end up as non-member children of the target."""
    cn = env.cname
    ctx.mon("rejected_ops")
    t1 = _membership_state(env, env.group) if env.group is not None and t0 is not None else None
    if t0 is not None:
        d = _state_diff(t0, t1)
        if d:
            ctx.viol("rejected:%s.%s:target-group-changed" % (cn, entry),
                     "%s.%s rejected %s (raised) but the group's membership state changed: %s" % (cn, entry, what, d[:6]))
    for og, st0 in others:
        ctx.mon("rejected_other_groups")
        mem = list(og.foil_detectors) if cn == CAMERA else list(og.observers)
        if tuple(id(x) for x in mem) != st0["members"]:
            ctx.viol("rejected:%s.%s:other-group-membership-changed" % (cn, entry),
                     "%s.%s rejected %s but the members of ANOTHER group changed" % (cn, entry, what))
        elif any(x.parent is not og for x in mem):
            ctx.viol("rejected:%s.%s:member-of-another-group-reparented" % (cn, entry),
                     "%s.%s rejected %s (raised), yet an offered observer that is a member of another group was re-parented: "
                     "that group now has a member whose scene-graph parent is not the group" % (cn, entry, what))
    for m, par0 in strays:
        ctx.mon("rejected_nonmember_offered")
        if m.parent is not par0:
            ctx.mon("rejected_nonmember_reparented_observed")      # observation only


def op_foreign(env, ctx, op):
    """Offer an object that is not an instance of the group's member type through a membership entry point: alone
    (add_*, or as the bare right-hand side of an assignment) or at any POSITION of a list that also holds the current
    members and fresh valid observers in different parent states (incl. members of other groups)."""
    S = env.S
    cn = env.cname
    ft, via = op["ftype"], op["via"]
    obj = _make_foreign(env, ft)
    env.keep.append(obj)
    if obj is not None and isinstance(obj, S["member_types"][cn]):
        ctx.skip("offered object is an instance of the group's member type (legitimate member)")
        return
    ctx.mon("foreign")
    ctx.nontrivial()
    g = env.group
    what = "a foreign %s" % ft
    adds = ("add_observer", "add_sight_line", "add_foil_detector")
    # the offered sequence: current members (fresh look-alikes for the constructor) + fresh valid observers + the foreign object
    valid, others, strays = [], [], []
    if via not in adds and not op.get("bare"):
        if via == "ctor":
            valid = [_make_member_like(env, m) for m in env.members]
        else:
            valid = list(env.members)
        for ps in op.get("extras", []):
            m = fresh_member(env)
            og = apply_pstate(env, m, ps if not (ps == "this_child" and via == "ctor") else "none")
            if og is not None and any(x is m for x in (og.foil_detectors if cn == CAMERA else og.observers)):
                others.append(og)
            else:
                strays.append((m, m.parent))
            valid.append(m)
        drain_hook(env, ctx)
    fpos = min(op.get("pos", 0), len(valid))
    mixed = valid[:fpos] + [obj] + valid[fpos:]
    others = [(og, _membership_state(env, og)) for og in others]
    t0 = _membership_state(env, g) if via != "ctor" else None
    accepted = False
    g2 = None
    try:
        if via in adds:
            getattr(g, via)(obj)
        elif op.get("bare"):
            if via == "ctor":
                g2 = env.G(observers=obj)
            else:
                setattr(g, via, obj)
        elif via == "ctor":
            g2 = env.G(observers=mixed)
        else:
            setattr(g, via, mixed)
        accepted = True
    except Exception as e:  # noqa - any exception is a rejection; the type is recorded as evidence only
        ctx.mon("foreign_rejected_with_" + type(e).__name__)
    if via == "ctor":
        if accepted and op.get("bare") and obj is None:
            return                                      # observers=None is the documented "no observers" default
        if accepted:
            if any(x is obj for x in g2.observers):
                ctx.viol("foreign:%s:ctor:%s-accepted" % (cn, ft), "%s(observers=[..., <%s>]) accepted a foreign object" % (cn, ft))
            else:
                ctx.viol("foreign:%s:ctor:%s-silently-dropped" % (cn, ft), "constructor neither raised nor stored the foreign %s" % ft)
            return
        _judge_rejection(env, ctx, "ctor", what, None, others, mixed, strays)
        S["pending"].clear()        # hook reports about the half-built, discarded group are not about a group anybody holds
        return
    now = group_members(env)
    is_member = any(x is obj for x in now)
    if accepted or is_member:
        ctx.viol("foreign:%s:%s:%s-accepted" % (cn, via, ft),
                 "%s.%s took a foreign %s (raised: %s, is a member afterwards: %s)" % (cn, via, ft, not accepted, is_member))
        env.members = now          # resynchronise the model so that later ops judge their own step only
        return
    _judge_rejection(env, ctx, via, what, t0, others, mixed, strays)
    check_invariant(env, ctx, via + "(foreign)")


def _make_member_like(env, m):
    """A fresh valid member of the same class as m (for constructor-path foreign tests)."""
    S = env.S
    if isinstance(m, S["TargettedPixel"]):
        return type(m)(targets=[env.prim(0)], pipelines=[env.pipeline("power")])
    if isinstance(m, (S["SpectroscopicSightLine"], S["SpectroscopicFibreOptic"])):
        return type(m)()
    return type(m)(pipelines=[env.pipeline("power")])


def op_observe(env, ctx, op):
    """group.observe() with a per-observer observation counter on EVERY observer the case created: exactly the members
    must be observed, each exactly once per call, and nothing else - also when membership and scene-graph children have
    diverged (members replaced through the setter: the old ones stay children; extra observers parented to the group
    without being added; members temporarily re-parented elsewhere in the same world)."""
    S = env.S
    cn = env.cname
    g = env.group
    env.prim_frame.transform = g.to_root()
    for _ in range(op.get("strays", 0)):            # children of the group that were never added
        fresh_member(env).parent = g
    uniq = []
    for m in env.members:
        if not any(x is m for x in uniq):
            uniq.append(m)
    mult = [sum(1 for x in env.members if x is u) for u in uniq]
    outsiders = [o for o in env.all_observers if not any(o is u for u in uniq)]
    counters = {}
    has_irvb = False
    for m in uniq + outsiders:
        m.render_engine = S["SerialEngine"]()
        m.quiet = True
        m.spectral_rays = 1
        m.spectral_bins = 8 + op["bins"]     # stays inside the value domain of the table (spectral_rays <= 8 <= spectral_bins)
        m.ray_max_depth = 10                 # Raysect's Ray (not the observer) rejects min depth < 1 / max depth < min depth
        m.ray_extinction_min_depth = 2
        m.pixel_samples = op["ps"]
        if isinstance(m, S["BolometerIRVB"]):
            has_irvb = has_irvb or any(m is u for u in uniq)
            c = S["CountingPower2D"](accumulate=True, display_progress=False)
        else:
            m.samples_per_task = op["spt"]
            c = S["CountingPower0D"](accumulate=True)
        m.pipelines = [c]
        counters[id(m)] = c
    moved = []
    for i in op.get("reparent", []):                # members re-parented behind the group's back, for the observation only
        if uniq:
            m = uniq[i % len(uniq)]
            if not any(m is x for x, _ in moved):
                moved.append((m, m.parent))
                # a plain node that sits where the group sits, so the scene geometry (targets, slits) is unchanged
                m.parent = S["Node"](parent=env.world, transform=g.to_root())
    reps = op["reps"]
    tag = "observe:%s%s" % (cn, ":irvb-member" if has_irvb else "")
    try:
        for _ in range(reps):
            try:
                g.observe()
            except Exception as e:  # noqa
                ctx.viol(tag + ":raises-%s" % type(e).__name__,
                         "group.observe() raised %s: %s; members observed so far: %s" % (
                             type(e).__name__, str(e)[:200], [counters[id(u)].n_init for u in uniq]))
                return
    finally:
        for m, par in moved:
            m.parent = par
        drain_hook(env, ctx)
    diverged = bool(moved) or any(c is not None and not any(c is u for u in uniq) and isinstance(c, S["member_types"][cn]) for c in g.children)
    if diverged:
        ctx.mon("observe_diverged")
    for j, m in enumerate(uniq):
        c = counters[id(m)]
        if mult[j] != 1:
            ctx.skip("member listed %d times: the unchanged code observes it once per entry; property silent" % mult[j])
            continue
        ctx.mon("observe_members")
        ok = c.n_init == reps and c.n_final == reps
        if ok and not isinstance(m, S["BolometerIRVB"]):
            ok = c.value.samples == reps * op["ps"]
        if not ok:
            ctx.viol(tag + ":member-not-observed-once",
                     "after %d group.observe() call(s) member %d of %d was initialised %d and finalised %d times%s" % (
                         reps, j, len(uniq), c.n_init, c.n_final, " (member temporarily re-parented to the world)" if any(m is x for x, _ in moved) else ""),
                     samples=None if isinstance(m, S["BolometerIRVB"]) else int(c.value.samples), expected_samples=reps * op["ps"])
            break
    for o in outsiders:
        ctx.mon("observe_nonmembers")
        c = counters[id(o)]
        if c.n_init or c.n_final:
            ctx.viol("observe:%s:non-member-observed" % cn,
                     "group.observe() observed an observer that is not a member (%s; initialised %d times)" % (
                         "a child of the group node" if o.parent is g else "not even a child of the group", c.n_init))
            break
    if uniq:
        ctx.nontrivial()
    check_invariant(env, ctx, "observe")


def op_registry(env, ctx):
    cn = env.cname
    props = _props(cn)
    ctx.mon("registry")
    ctx.nontrivial()
    for a in EXPECTED[cn]:
        ctx.mon("registry_attr")
        if a not in props:
            ctx.viol("attr-missing:%s.%s" % (cn, a), "documented group attribute %s.%s does not exist as a property" % (cn, a))
    for a, p in props.items():
        ctx.mon("registry_attr")
        if a in STRUCTURAL:
            if STRUCTURAL[a] == "rw" and p.fset is None:
                ctx.viol("no-setter:%s.%s" % (cn, a), "membership property %s.%s has no setter" % (cn, a))
            continue
        if a not in ATTRS:
            ctx.skip("untabled attribute %s.%s (driven generically)" % (cn, a))
        if p.fget is None:
            ctx.viol("no-getter:%s.%s" % (cn, a), "group attribute %s.%s cannot be read" % (cn, a))
        if p.fset is None:
            ctx.viol("no-setter:%s.%s" % (cn, a),
                     "group attribute %s.%s has a getter but no setter: assigning to it raises AttributeError" % (cn, a))
    # the structural member property must exist
    need = "foil_detectors" if cn == CAMERA else "observers"
    if need not in props:
        ctx.viol("attr-missing:%s.%s" % (cn, need), "membership property %s.%s is missing" % (cn, need))


# ----------------------------------------------------------------------------------------------
# aliasing monitor: the group must not share mutable containers with its caller
# ----------------------------------------------------------------------------------------------

def group_state(env, g=None, snaps=True):
    """Everything the property lets a user observe of a group: members (identity, order), len, each member's parent,
    name lookup for every unique name, every broadcast getter, and the whole public state of every member."""
    g = env.group if g is None else g
    cam = hasattr(type(g), "foil_detectors")
    st = {}
    try:
        mem = list(g.foil_detectors) if cam else list(g.observers)
    except Exception as e:  # noqa
        return {"members": ("raises", type(e).__name__)}
    env.keep.extend(mem)
    st["members"] = tuple(id(m) for m in mem)
    try:
        st["len"] = len(g)
    except Exception as e:  # noqa
        st["len"] = ("raises", type(e).__name__)
    parents = []
    for m in mem:
        par = getattr(m, "parent", None)
        env.keep.append(par)
        parents.append(id(par))
    st["parents"] = tuple(parents)
    names = [getattr(m, "name", None) for m in mem]
    look = []
    for nm in names:
        if isinstance(nm, str) and names.count(nm) == 1:
            try:
                r = g[nm]
                env.keep.append(r)
                look.append((nm, id(r)))
            except Exception as e:  # noqa
                look.append((nm, "raises", type(e).__name__))
    st["name_lookup"] = tuple(look)
    for a, prop in sorted(_props(type(g).__name__).items()):
        if prop.fget is None:
            continue
        try:
            st["get:" + a] = _canon(getattr(g, a), env)
        except Exception as e:  # noqa
            st["get:" + a] = ("raises", type(e).__name__)
    for i, m in enumerate(mem if snaps else ()):
        try:
            st["member%d" % i] = tuple(sorted(snap_member(m, env).items()))
        except Exception as e:  # noqa
            st["member%d" % i] = ("raises", type(e).__name__)
    return st


def _state_diff(a, b):
    return [k for k in sorted(set(a) | set(b)) if a.get(k) != b.get(k)]


def fresh_member(env):
    """A brand-new valid member for env's group class (never added to anything)."""
    S = env.S
    cn = env.cname
    env.n_fresh = getattr(env, "n_fresh", 0) + 1
    nm = "fresh%d" % env.n_fresh
    if cn == CAMERA:
        m = S["BolometerFoil"](nm, S["Point3D"](0.001 * env.n_fresh, 0, -0.05), S["Vector3D"](1, 0, 0), 0.002,
                               S["Vector3D"](0, 1, 0), 0.002, env.slit(0))
    else:
        mt = MEMBER_TYPE[cn]
        if mt.startswith("Spectroscopic"):
            m = S[mt](name=nm)
        elif mt == "TargettedPixel":
            m = S[mt](targets=[env.prim(0)], pipelines=[env.pipeline("power")], name=nm)
        else:
            m = S[mt](pipelines=[env.pipeline("power")], name=nm)
    env.keep.append(m)
    env.all_observers.append(m)
    return m


def mutate_caller_list(env, L, step):
    """In-place edits of a caller-owned member list: append a foreign object and a valid observer / overwrite, reorder, pop."""
    if step == 0:
        L.append(env.S["Sphere"](0.01))
        L.append(fresh_member(env))
    else:
        L[0] = fresh_member(env)
        L.reverse()
        L.pop()
        L.insert(0, fresh_member(env))


def check_container_alias(env, ctx, entry, L, g=None):
    """After `entry` received the caller-owned list L: mutating L must leave the group exactly as it was."""
    g = env.group if g is None else g
    cn = env.cname
    ctx.mon("alias_container")
    s0 = group_state(env, g)
    for step in (0, 1):
        mutate_caller_list(env, L, step)
        s1 = group_state(env, g)
        d = _state_diff(s0, s1)
        if d:
            ctx.viol("aliasing:%s.%s:group-changed-after-caller-mutated-its-list" % (cn, entry),
                     "after %s.%s received a caller-owned list, editing that list in place (%s) changed the group: %s" % (
                         cn, entry, "append foreign + valid observer" if step == 0 else "overwrite/reverse/pop/insert", d[:8]),
                     members_before=len(s0.get("members", ())), members_after=len(s1.get("members", ())) if isinstance(s1.get("members"), tuple) else None)
            break
    ctx.nontrivial()
    env.caller_lists.append((entry, L))
    del env.caller_lists[:-3]


def check_add_keeps_caller_lists(env, ctx, via, call):
    """Run the add-style mutator `call`; lists the caller handed to earlier entry points must not change."""
    cn = env.cname
    before = [(entry, L, list(L)) for entry, L in env.caller_lists]
    call()
    for entry, L, was in before:
        ctx.mon("alias_add")
        if len(L) != len(was) or any(a is not b for a, b in zip(L, was)):
            ctx.viol("aliasing:%s.%s:caller-list-changed-by-%s" % (cn, entry, via),
                     "%s.%s() changed the list object the caller had earlier passed to %s (length %d -> %d)" % (
                         cn, via, entry, len(was), len(L)))


def _alt_value(env, attr, v):
    """A different valid element for the caller to overwrite its own container with."""
    t = ATTRS[attr]
    ty = t["type"]
    if ty == "int":
        return t["lo"] if v != t["lo"] else t["lo"] + 1
    if ty == "float":
        mid = 0.5 * (t["lo"] + t["hi"])
        return mid if v != mid else 0.75 * t["lo"] + 0.25 * t["hi"]
    if ty == "bool":
        return not v
    if ty == "str":
        return "aliased"
    if ty == "engine":
        return env.S["SerialEngine"]()
    if ty == "prims":
        return [env.prim(4), env.prim(3)]
    if ty == "pipes":
        return [env.pipeline("radiance")]
    if ty == "point":
        return env.S["Point3D"](0.5, -0.25, 0.125)
    if ty == "vector":
        return env.S["Vector3D"](1.0, 1.0, 0.5)
    raise ValueError(ty)


def check_value_alias(env, ctx, attr, kind, value, after):
    """The caller edits, in place, the list / ndarray (and nested lists) it has just assigned to group.<attr>:
    members and the getter must keep the values they had right after the assignment."""
    cn = env.cname
    if not isinstance(value, (list, np.ndarray)):
        ctx.skip("aliasing of an immutable value (tuple / scalar): nothing the caller could mutate")
        return
    ctx.mon("alias_values")
    try:
        g0 = _canon(getattr(env.group, attr), env)
    except Exception as e:  # noqa
        g0 = ("raises", type(e).__name__)
    ty = ATTRS[attr]["type"]
    if isinstance(value, np.ndarray):
        what = "ndarray"
        if value.size:
            value[:] = value[::-1].copy()
            value[0] = _alt_value(env, attr, value[0].item())
    else:
        what = "list"
        for inner in value:
            if isinstance(inner, list) and inner:          # nested per-member lists (pipelines, targets)
                inner.reverse()
                inner.append(inner[0])
                inner[0] = _alt_value(env, attr, None)[0]
        flat = ty == "prims" and kind == "scalar"
        if value:
            value.reverse()
            value[0] = _alt_value(env, attr, value[0])[0] if flat else _alt_value(env, attr, value[0])
            value.append(value[0])
        else:
            value.append(_alt_value(env, attr, None)[0] if flat else _alt_value(env, attr, None))
    now = snap_all(env, ctx)
    bad = None
    for j, (b, a) in enumerate(zip(after, now)):
        d = _diff(b, a)
        if d:
            bad = "member %d attributes %s" % (j, d)
            break
    if bad is None:
        try:
            g1 = _canon(getattr(env.group, attr), env)
        except Exception as e:  # noqa
            g1 = ("raises", type(e).__name__)
        if g1 != g0:
            bad = "the value read back from group.%s" % attr
    if bad:
        ctx.viol("aliasing:%s.%s:values-changed-after-caller-mutated-its-%s" % (cn, attr, what),
                 "after group.%s = <caller-owned %s>, editing that %s in place changed %s" % (attr, what, what, bad))
    if env.members:
        ctx.nontrivial()


def _mutate_result(obj, depth=0):
    """In-place edits of a container a getter handed out. Returns True if anything mutable was found."""
    hit = False
    if isinstance(obj, list):
        for e in list(obj):
            hit = _mutate_result(e, depth + 1) or hit
        obj.append(object())
        obj.reverse()
        del obj[1:]
        hit = True
    elif isinstance(obj, tuple) and depth < 2:
        for e in obj:
            if isinstance(e, (list, tuple, dict, np.ndarray)):
                hit = _mutate_result(e, depth + 1) or hit
    elif isinstance(obj, dict):
        obj["aliased"] = 1
        hit = True
    elif isinstance(obj, np.ndarray) and obj.size and obj.dtype != object:
        obj[...] = obj.ravel()[0] * 0 + 1
        hit = True
    return hit


def op_getter_alias(env, ctx, op):
    """Mutate every container a group getter (and slice lookup) returns: the group must be unaffected."""
    cn = env.cname
    g = env.group
    s0 = group_state(env)
    targets = [(a, lambda a=a: getattr(g, a)) for a, pr in sorted(_props(cn).items()) if pr.fget is not None]
    targets.append(("__getitem__[slice]", lambda: g[0:len(env.members) + 1]))
    for a, read in targets:
        try:
            got = read()
        except Exception:  # noqa - judged elsewhere (getter / lookup monitors)
            continue
        if not _mutate_result(got):
            ctx.skip("getter returns an immutable container")
            continue
        ctx.mon("alias_getter")
        s1 = group_state(env)
        d = _state_diff(s0, s1)
        if d:
            ctx.viol("aliasing:%s.%s:group-changed-after-getter-result-mutated" % (cn, a),
                     "editing the container returned by group.%s in place changed the group: %s" % (a, d[:8]))
            s0 = s1
    if env.members:
        ctx.nontrivial()
    check_invariant(env, ctx, "getter-result-mutation")


def op_two_groups(env, ctx, op):
    """The same caller-owned list handed to two groups; an add on one must not change the other (and vice versa)."""
    cn = env.cname
    entry = op["via"]
    drain_hook(env, ctx)
    L = [fresh_member(env) for _ in range(op["k"])]
    add = _member_paths(cn)["add"][0]
    groups = []
    for _ in range(2):
        if entry == "ctor":
            gi = env.G(observers=L)
        else:
            gi = env.G()
            setattr(gi, entry, L)
        groups.append(gi)
    env.keep.extend(groups)
    for i in (0, 1):
        other = groups[1 - i]
        ctx.mon("alias_two_groups")
        s0 = group_state(env, other)
        getattr(groups[i], add)(fresh_member(env))
        s1 = group_state(env, other)
        d = [k for k in _state_diff(s0, s1) if k in ("members", "len", "name_lookup") or k.startswith("get:")]
        if d:
            ctx.viol("aliasing:%s.%s:shared-list-couples-two-groups" % (cn, entry),
                     "two groups were given the same list through %s; %s() on one changed the other: %s" % (entry, add, d[:6]))
            break
    # this op deliberately lets two groups hold the same observers (the second assignment re-parents them), which is
    # outside the single-group domain of the parent invariant: hook reports raised *during this op* are discarded
    env.S["pending"].clear()
    ctx.nontrivial()


# ----------------------------------------------------------------------------------------------
# membership ops
# ----------------------------------------------------------------------------------------------

PSTATES = ["none", "world", "node", "other_child", "other_member", "this_child"]


def apply_pstate(env, m, ps):
    """Put observer m into an initial scene-graph parent state: no parent / the world / a plain Node / child of ANOTHER
    group of the same class / member of another group / already a child of THIS group. A fresh "other" group is
    created per observer (returned) and never used for anything else."""
    S = env.S
    if ps == "none":
        return None
    if ps == "world":
        m.parent = env.world if env.world is not None else S["World"]()
    elif ps == "node":
        nd = S["Node"](parent=env.world)
        env.keep.append(nd)
        m.parent = nd
    elif ps in ("other_child", "other_member"):
        og = env.G(parent=env.world, name="other")
        env.keep.append(og)
        if ps == "other_child":
            m.parent = og
        else:
            getattr(og, _member_paths(env.cname)["add"][0])(m)
        return og
    elif ps == "this_child":
        if env.group is not None:
            m.parent = env.group
    else:
        raise ValueError(ps)
    return None


def prep_parent(env, idx):
    """Initial parent state of pool member idx, applied once, just before it is first offered to the group."""
    if idx in env.prepped:
        return
    env.prepped.add(idx)
    apply_pstate(env, env.member(idx), env.case["pool"][idx].get("pstate", "none"))


def _label(env, m):
    """Initial state of an offered observer, from what is observable right before the call."""
    S = env.S
    g = env.group
    if g is not None and any(x is m for x in env.members):
        return "already-a-member"
    par = m.parent
    if par is None:
        return "no-parent"
    if g is not None and par is g:
        return "already-parented-to-this-group"
    if isinstance(par, S["World"]):
        return "parented-to-world"
    if isinstance(par, env.G):
        mem = list(par.foil_detectors) if env.cname == CAMERA else list(par.observers)
        return "member-of-another-group" if any(x is m for x in mem) else "parented-to-another-group"
    return "parented-to-a-node"


def _same(a, b):
    return len(a) == len(b) and all(x is y for x, y in zip(a, b))


def do_add(env, ctx, via, m):
    """One add_* call, judged by the membership post-conditions of the statement: an accepted observer is a member
    (for a new observer: the last one, everybody else untouched), its parent is the group. For an observer that is
    already a member the statement does not say whether a second entry is kept, so [old..., m], the unchanged list
    and a rejection that leaves the membership alone are all accepted."""
    cn = env.cname
    lab = _label(env, m)
    was_member = lab == "already-a-member"
    before = list(env.members)
    ctx.mon("entry_states")
    ctx.mon("entry:" + lab)
    try:
        check_add_keeps_caller_lists(env, ctx, via, lambda: getattr(env.group, via)(m))
    except Exception as e:  # noqa
        now = group_members(env)
        if was_member:
            ctx.skip("re-adding a member was rejected: property silent")
            if not _same(now, before):
                ctx.viol("add:%s:%s:rejected-but-membership-changed" % (cn, lab), "%s(member) raised %s and changed the membership" % (via, type(e).__name__))
        else:
            ctx.viol("add:%s:%s:raises-%s" % (cn, lab, type(e).__name__),
                     "%s.%s(<valid observer, %s>) raised %s: %s" % (cn, via, lab, type(e).__name__, str(e)[:200]))
        env.members = now
        check_invariant(env, ctx, via)
        return
    now = group_members(env)
    if not any(x is m for x in now):
        ctx.viol("add:%s:%s:not-a-member" % (cn, lab),
                 "%s.%s() accepted an observer (%s) without raising, but it is not among the members afterwards "
                 "(len %d -> %d)" % (cn, via, lab, len(before), len(now)))
    elif not was_member and not _same(now, before + [m]):
        ctx.viol("add:%s:%s:not-appended-or-others-changed" % (cn, lab),
                 "after %s.%s(<%s>) the members are not the previous members followed by the new observer" % (cn, via, lab))
    elif was_member and not (_same(now, before + [m]) or _same(now, before) or _same(now, [x for x in before if x is not m] + [m])):
        ctx.viol("add:%s:%s:others-changed" % (cn, lab), "re-adding a member through %s.%s changed other members / their order" % (cn, via))
    if m.parent is not env.group:
        ctx.viol("add:%s:%s:parent-not-the-group" % (cn, lab), "after %s.%s(<%s>) the observer's parent is %r" % (cn, via, lab, m.parent))
    env.members = now                 # later ops judge their own step against the actual membership
    ctx.nontrivial()
    check_invariant(env, ctx, via)


def do_set(env, ctx, entry, ms, kind, where):
    """Constructor argument / observers= / sight_lines= / foil_detectors= with the observers ms (list or tuple)."""
    cn = env.cname
    labels = [_label(env, m) for m in ms]
    dup = len({id(m) for m in ms}) != len(ms)
    val = list(ms) if kind == "list" else tuple(ms)
    before = list(env.members)
    for lab in labels:
        ctx.mon("entry_states")
        ctx.mon("entry:" + lab)
    try:
        if entry == "ctor":
            env.group = env.G(parent=env.group_parent, transform=env.group_transform, name="grp", observers=val)
        else:
            setattr(env.group, entry, val)
    except Exception as e:  # noqa
        if entry == "ctor":
            env.group = env.G(parent=env.group_parent, transform=env.group_transform, name="grp")
        now = group_members(env)
        if dup:
            ctx.skip("a member list naming the same observer twice was rejected: property silent")
            if entry != "ctor" and not _same(now, before):
                ctx.viol("assign:%s.%s:same-observer-listed-twice:rejected-but-membership-changed" % (cn, entry),
                         "%s = <list with a repeated observer> raised %s and changed the membership" % (entry, type(e).__name__))
        else:
            ctx.viol("assign:%s.%s:raises-%s" % (cn, entry, type(e).__name__),
                     "%s.%s given valid observers (%s) raised %s: %s" % (cn, entry, sorted(set(labels)), type(e).__name__, str(e)[:200]))
        env.members = now
        check_invariant(env, ctx, where)
        return
    now = group_members(env)
    for m, lab in zip(ms, labels):
        if not any(x is m for x in now):
            ctx.viol("assign:%s.%s:%s:not-a-member" % (cn, entry, lab),
                     "%s.%s accepted an observer (%s) without raising, but it is not among the members afterwards" % (cn, entry, lab))
        elif m.parent is not env.group:
            ctx.viol("assign:%s.%s:%s:parent-not-the-group" % (cn, entry, lab), "after %s.%s the observer's parent is %r" % (cn, entry, m.parent))
    if dup:
        ctx.mon("dup_assign")
        first = []
        for m in ms:
            if not any(x is m for x in first):
                first.append(m)
        if not (_same(now, ms) or _same(now, first)):
            ctx.viol("assign:%s.%s:same-observer-listed-twice:members-neither-as-listed-nor-deduplicated" % (cn, entry),
                     "%d observers listed (one twice): the group holds %d members in another arrangement" % (len(ms), len(now)))
        env.members = now
    else:
        env.members = list(ms)        # exact expectation; judged (members / len / parent / children) by check_invariant
    if ms:
        ctx.nontrivial()
    check_invariant(env, ctx, where)
    if isinstance(val, list):
        check_container_alias(env, ctx, entry, val)
        check_invariant(env, ctx, where + "+caller-edits-its-list")


def build_group(env, ctx):
    case = env.case
    cn = env.cname
    init = case["init"]
    n0 = init["n0"]
    via = init["via"]
    idxs = list(range(n0))
    if via in ("ctor_list", "ctor_tuple") and cn != CAMERA:
        for i in idxs:
            prep_parent(env, i)
        do_set(env, ctx, "ctor", [env.member(i) for i in idxs], "list" if via == "ctor_list" else "tuple", "init-" + via)
        return
    env.group = env.G(parent=env.group_parent, transform=env.group_transform, name="cam" if cn == CAMERA else "grp")
    for i in idxs:
        prep_parent(env, i)
    first = [env.member(i) for i in idxs]
    paths = _member_paths(cn)
    if via == "add":
        for m in first:
            do_add(env, ctx, paths["add"][0], m)
    elif via in ("set_list", "set_tuple"):
        do_set(env, ctx, paths["set"][0] if cn != CAMERA else "foil_detectors", first, "list" if via == "set_list" or cn == CAMERA else "tuple",
               "init-" + via)
    else:
        raise ValueError(via)
    if not first:
        check_invariant(env, ctx, "init-" + via)


def op_add(env, ctx, op):
    prep_parent(env, op["m"])
    do_add(env, ctx, op["via"], env.member(op["m"]))


def op_set_members(env, ctx, op):
    for i in op["ms"]:
        prep_parent(env, i)
    do_set(env, ctx, op["via"], [env.member(i) for i in op["ms"]], op["kind"], op["via"] + "=")


def op_connect(env, ctx, op):
    S = env.S
    cls = {"power": S["PowerPipeline0D"], "radiance": S["RadiancePipeline0D"],
           "spectral_power": S["SpectralPowerPipeline0D"], "spectral_radiance": S["SpectralRadiancePipeline0D"]}
    env.group.connect_pipelines([cls[k] for k in op["kinds"]])
    check_getter(env, ctx, "pipelines")
    check_invariant(env, ctx, "connect_pipelines")


def run_case(case, ctx):
    kind = case["kind"]
    cn = case["cls"]
    ctx.cls("%s:%s" % (kind, cn))
    pl = case.get("placement")
    if pl:
        ctx.mon("placement:depth%d:%s%s" % (pl["depth"], pl["gt_kind"], "" if case.get("in_world") else ":no-world"))
        if pl["depth"] or pl["gt_kind"] != "identity":
            ctx.mon("placed_nontrivially")
    env = Env(case)
    if kind == "registry":
        return op_registry(env, ctx)
    if kind == "history":
        ctx.mon("random_histories")
    build_group(env, ctx)
    for op in case["ops"]:
        o = op["op"]
        ctx.mon("history_ops")
        if o == "assign":
            op_assign(env, ctx, op)
        elif o == "wronglen":
            op_wronglen(env, ctx, op)
        elif o == "generic":
            op_generic(env, ctx, op)
        elif o == "scalar_unsupported":
            ctx.skip("single-value assignment to `%s` is documented as unsupported (class docstring / repository tests)" % op["attr"])
        elif o == "read":
            check_getter(env, ctx, op["attr"])
        elif o == "read_all":
            for a in sorted(_props(cn)):
                check_getter(env, ctx, a)
        elif o == "lookup":
            op_lookup(env, ctx, op)
            check_invariant(env, ctx, "lookup")
        elif o == "add":
            op_add(env, ctx, op)
        elif o == "set_members":
            op_set_members(env, ctx, op)
        elif o == "rename_member":
            if env.members:
                env.members[op["i"] % len(env.members)].name = op["name"]
                if cn != CAMERA:
                    check_getter(env, ctx, "names")
        elif o == "connect_pipelines":
            op_connect(env, ctx, op)
        elif o == "foreign":
            op_foreign(env, ctx, op)
        elif o == "roundtrip":
            op_roundtrip(env, ctx, op)
        elif o == "getter_alias":
            op_getter_alias(env, ctx, op)
        elif o == "two_groups":
            op_two_groups(env, ctx, op)
        elif o == "observe":
            if env.world is not None:
                op_observe(env, ctx, op)
        else:
            raise ValueError("unknown op %r" % o)
    drain_hook(env, ctx)


# ----------------------------------------------------------------------------------------------
# thorough tier: the repository's own observer-group tests under the invariant wrapper
# ----------------------------------------------------------------------------------------------

def parent_extra(tier, seed, cfg):
    if tier != "thorough":
        return [], None
    import json
    import os
    import subprocess
    import tempfile
    from vf import core
    fd, out = tempfile.mkstemp(prefix="vf_c15_suite_", suffix=".json")
    os.close(fd)
    try:
        try:
            r = subprocess.run([core.PY, "-m", "vf.groupinv_c15", "--suite", out], cwd=core.ROOT, env=core.worker_env(),
                               capture_output=True, text=True, timeout=600)
        except subprocess.TimeoutExpired:
            raise core.Inconclusive("repository observer-group tests under the invariant wrapper timed out")
        if r.returncode != 0 or not os.path.getsize(out):
            raise core.Inconclusive("suite-under-wrapper run failed: " + (r.stderr or r.stdout)[-1500:])
        res = json.load(open(out))
    finally:
        if os.path.exists(out):
            os.unlink(out)
    viols, counts = [], {}
    for v in res["violations"]:
        counts[v["key"]] = counts.get(v["key"], 0) + 1
        if counts[v["key"]] <= core.MAX_VIOL_PER_KEY:
            viols.append({"key": v["key"], "what": v["what"] + " (while running cherab/tools/tests/test_observer_groups.py)",
                          "detail": v["detail"], "case": {"kind": "repo-suite", "module": "cherab.tools.tests.test_observer_groups"}})
    result = {"ok": True, "evaluations": 0, "hashes_nt": [], "n_distinct_all": 0,
              "monitors": {"suite_invariant": res["invariant_evaluations"], "suite_post": res["post_evaluations"],
                           "suite_tests": res["tests_run"]},
              "classes": {"repo-suite-under-wrapper": res["tests_run"]}, "margins": {}, "violations": viols,
              "viol_counts": counts, "skips": {}, "samples": [],
              "notes": {"suite": {"tests_run": res["tests_run"], "failures": res["failures"], "errors": res["errors"],
                                  "fail_text": res["fail_text"]}}, "shard": "suite"}
    if res["tests_run"] == 0 or res["invariant_evaluations"] == 0:
        raise core.Inconclusive("suite-under-wrapper evaluated no invariant (tests_run=%d)" % res["tests_run"])
    extra = {"repo_suite_under_wrapper": {"tests_run": res["tests_run"], "failures": len(res["failures"]),
                                          "errors": len(res["errors"]), "invariant_evaluations": res["invariant_evaluations"],
                                          "post_evaluations": res["post_evaluations"], "patched": len(res["patched"])}}
    return [result], extra
