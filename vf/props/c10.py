"""C10 — ray-transfer matrices account for the whole chord and respect voxel maps.

One case = one grid (RayTransferBox or RayTransferCylinder) in a real raysect World with an object transform, one
voxel map (with -1 cells, merged sources, possibly unused source numbers), one mask, and a fan of ~8 rays of
different hostile classes.  For every ray:

  cell        : trace against the one-source-per-cell map (all cells active); every entry must lie within
                K*dt of the exact chord interval [lo_c, hi_c] of its cell (vf/rtgeom_c10.py: analytic clipping of the
                line against the cell faces, K = max(2, number of separate visits of the cell), dt = the step the
                integrator really uses on the in-primitive segment, L/max(min_samples, int(L/step)));
  total       : the entries sum to the chord inside the bounding primitive (1e-7 L);
  additivity  : trace with the merging voxel map; each source = sum of its cells' entries of the first trace;
  mask        : trace with the mask; entry of the source of an active cell = that cell's entry of the first trace;
  active_total: sums over the active cells vs exact chord inside the active cells, (sample runs + 1)*dt;
  bins        : rt.bins == max(map)+1 / number of True mask cells, voxel_map / mask read back, step applied;
  periodicity : (cylinder) the ray rotated by a multiple of the period about the axis (i) satisfies the same exact chord
                bounds (monitor periodicity_chords) and (ii) reproduces the unrotated entries within 2*dt per visit;
  miss        : rays that miss the bounding primitive leave every entry exactly 0;
  pipeline    : RayTransferPipeline2D on a VectorCamera firing the same rays / RayTransferPipeline0D on a SightLine
                reproduce the directly traced entries (x sensitivity for kind='power');
  emission_function: unit emissivity goes to exactly the source of the cell containing the point, nothing for -1;
  layout      : the same voxel map / mask handed over as int64 / float / Fortran-ordered / transposed / strided array;
  oracle_xcheck: the analytic intervals are cross-checked by >= 200x finer independent midpoint sampling (a
                disagreement is a harness error => INCONCLUSIVE, never a verdict on the code).

  mutated_*   : "mutate after construction" cases (25 %): the object is built, optionally traced, then changed through the
                public setters only (step down by 1e-1..1e-3 / up, via rt.step or integrator.step; min_samples; a new
                integrator object on material.integrator; mask / voxel_map / mask=None; transform; parent re-attached /
                new World / intermediate Node), several times and back again.  After (most) mutations four rays - one
                ordinary, one hostile, two short-chord rays (edge/corner clips, tangential grazes, rim clips with chords
                log-uniform in 1e-4..10 x the CURRENT step) - are judged against the exact chords for the CURRENT
                settings (dt and the 0.1*step skip rule from the current step) and against a freshly constructed object
                with the current settings (keys mutated:<mutations since the last judged trace>:...).

Rays tangent to the inner bounding cylinder within raysect's floating-point resolution are judged under their own keys
(TANGENT_KEY / AXIS_HOLE_KEY, see known findings): raysect's Cylinder.hit cannot tell entering from leaving there.
"""
import numpy as np

from vf import rtgeom_c10 as G

ID = "C10"
LEVEL = "exploration"
RULE = ("random grids (1..12 cells per axis, cell sizes 0.01..5 with aspect ratios up to 10^1.5, inner radius 0 or > 0, "
        "periods 360/k k=1..8, n_polar 1..16), integration step 0.02..3 of the smallest cell (or the default), "
        "min_samples 2..8, rigid object transforms (identity / translation / translation*rotation), random masks "
        "(density 0.05..1) and voxel maps with -1, merged and unused sources set by constructor or setter; per grid ~8 "
        "rays drawn from the classes random, inside, axis-parallel (incl. exactly on faces / edges / primitive "
        "surface), through lattice corners (+-ulp), tangential to r = r_k, through the axis, inside an azimuthal "
        "plane, grazing the primitive, missing.  A quarter of the cases instead mutate one object through its public setters "
        "(step, min_samples, integrator, mask, voxel_map, transform, parent; 2..6 mutations incl. reverts) and judge 4 rays "
        "per mutation (incl. two short-chord clips/grazes, chord 1e-4..10 current steps) against the exact chords for the "
        "current settings and against a freshly built object.  A case is non-trivial when at least one ray crossed >= 1 cell with "
        "an exact chord longer than the integration step and was judged per cell; distinct = distinct case descriptors")
LEVEL_TEXT = ("Exploration by runtime monitoring with a reference model: every generated ray is traced through the real "
              "RayTransferBox/Cylinder in a real raysect World and each matrix entry is compared with the exact chord "
              "length of its cell; merged maps / masks / rotation by the period are judged by exact metamorphic relations "
              "between traces of the real code.  Right level: the quantifier ranges over continuous inputs and the code is "
              "deterministic, so sampled executions with an independent oracle are the strongest observation available")
LEVEL_NOTE = ("trusted: the clipping geometry in vf/rtgeom_c10.py (cross-checked at run time by independent fine sampling); "
              "raysect's hit points are taken as given within 2e-8 m (its daughter rays start 1e-9 off the surface)")
TECHNIQUE = ("runtime monitoring: reference-model oracle (exact per-cell chord intervals) + conservation (total chord) + "
             "metamorphic relations between observed traces (merged map additivity, mask restriction, periodic rotation)")
ASSUMPTIONS = [
    "the chord is measured inside the bounding primitive raytransfer.py builds (grid shrunk by 1e-5 cell), as the "
    "property's mechanism list states",
    "a cell of a periodic cylinder grid visited K > 2 separate times (replicas, or a visit split by grazing the inner "
    "ring) is judged with K*dt instead of 2*dt; in-primitive segments shorter than 0.1*step are skipped by the "
    "integrators by design and may contribute nothing",
    "radius_inner = 0: the 1e-5 dr hole on the axis may or may not be integrated through (both accepted)",
    "rays have max_distance = inf and unit direction; object transforms are rigid; every map keeps >= 1 active cell",
    "entries are ambiguous (any split between the adjacent cells accepted) where the ray runs within 2e-8 m of a cell face",
]
ASAN_MODULES = ['cherab.tools.raytransfer.emitters']
ASAN = dict(cases=300, workers=8, timecap=240)
QUICK = dict(cases=320, workers=2, timecap=45)
THOROUGH = dict(cases=40000, workers=16, timecap=600)
REQUIRED = {"cell": 20000, "total": 500, "additivity": 5000, "mask": 5000, "active_total": 500, "bins": 400,
            "periodicity": 5000, "periodicity_chords": 5000, "oracle_xcheck": 300, "miss": 50, "layout": 20,
            "pipeline": 1000, "pipeline_reuse": 300, "emission_function": 500, "mutated_fresh": 2000,
            "mutated_chords": 2000, "mutated_state": 250, "pipeline_alias": 20000, "aliasing_in": 10000,
            "aliasing_out": 200, "observer_rows": 10000, "observer_chords": 10000}

DELTA0 = 2.0e-8
TANGENT_KEY = "cyl:ray-tangent-to-inner-bounding-cylinder:chord-before-tangent-point-lost"        # radius_inner > 0
AXIS_HOLE_KEY = "cyl:radius_inner=0:ray-through-axis-hole:chord-before-hole-lost"
TANGENT_KEYS = (TANGENT_KEY, AXIS_HOLE_KEY)


# ------------------------------------------------------------------------------------------------------------
# case generation
# ------------------------------------------------------------------------------------------------------------

def _unit(v):
    v = np.asarray(v, dtype=float)
    return v / np.linalg.norm(v)


def _rand_unit(rng):
    return _unit(rng.normal(size=3))


def _perp(rng, d):
    while True:
        v = np.cross(d, rng.normal(size=3))
        n = np.linalg.norm(v)
        if n > 1e-3:
            return v / n


def _nudge(rng, x):
    """x, or x moved by one ulp / a few ulps."""
    r = rng.integers(0, 4)
    if r == 0:
        return float(x)
    if r == 1:
        return float(np.nextafter(x, np.inf))
    if r == 2:
        return float(np.nextafter(x, -np.inf))
    return float(x * (1 + rng.integers(-4, 5) * 2.2e-16))


def _ncells(rng):
    r = rng.random()
    if r < 0.15:
        return 1
    if r < 0.5:
        return int(rng.integers(2, 5))
    return int(rng.integers(2, 13))


def _gen_grid(rng):
    base = 10 ** rng.uniform(-1.5, 0.3)
    asp = 10 ** rng.uniform(-0.75, 0.75, size=3)
    cell = np.maximum(base * asp, 0.01)
    if rng.random() < 0.15:
        cell = np.array([float(rng.choice([0.05, 0.1, 0.25, 0.5, 1.0]))] * 3)       # "nice" cell sizes
    if rng.random() < 0.45:
        n = [_ncells(rng) for _ in range(3)]
        return dict(kind="box", nx=n[0], ny=n[1], nz=n[2], xmax=float(n[0] * cell[0]), ymax=float(n[1] * cell[1]),
                    zmax=float(n[2] * cell[2]))
    nr, nz = _ncells(rng), _ncells(rng)
    nphi = 1 if rng.random() < 0.35 else int(rng.integers(2, 17))
    k = int(rng.integers(1, 9)) if rng.random() < 0.7 else 1
    r = rng.random()
    if r < 0.4:
        ri = 0.0
    elif r < 0.5:
        ri = float(cell[0] * rng.integers(1, 4))
    else:
        ri = float(10 ** rng.uniform(-1.3, 0.5))
    return dict(kind="cyl", nr=nr, nphi=nphi, nz=nz, ro=float(ri + nr * cell[0]), ri=ri, h=float(nz * cell[2]), k=k)


def _gen_transform(rng, hostile):
    r = rng.random()
    if r < (0.5 if hostile else 0.15):
        return dict(kind="identity", t=[0.0, 0.0, 0.0], ang=[0.0, 0.0, 0.0])
    if r < (0.7 if hostile else 0.25):
        return dict(kind="translate", t=[float(x) for x in rng.integers(-40, 41, size=3) / 8.0], ang=[0.0, 0.0, 0.0])
    if r < (0.8 if hostile else 0.35):
        return dict(kind="rot90", t=[float(x) for x in rng.integers(-8, 9, size=3) / 4.0],
                    ang=[float(x) for x in 90.0 * rng.integers(0, 4, size=3)])
    return dict(kind="general", t=[float(x) for x in rng.uniform(-10, 10, size=3)],
                ang=[float(x) for x in rng.uniform(-180, 180, size=3)])


def matrix(tr):
    """4x4 matrix translate(t) * Rz(a) * Ry(b) * Rx(c) (degrees), built here so that the oracle does not rely on raysect."""
    a, b, c = tr["ang"]

    def cs(x):
        x = x % 360.0
        if x % 90.0 == 0.0:
            return [(1.0, 0.0), (0.0, 1.0), (-1.0, 0.0), (0.0, -1.0)][int(x // 90) % 4]
        return float(np.cos(np.radians(x))), float(np.sin(np.radians(x)))
    ca, sa = cs(a)
    cb, sb = cs(b)
    cc, sc = cs(c)
    Rz = np.array([[ca, -sa, 0], [sa, ca, 0], [0, 0, 1.0]])
    Ry = np.array([[cb, 0, sb], [0, 1.0, 0], [-sb, 0, cb]])
    Rx = np.array([[1.0, 0, 0], [0, cc, -sc], [0, sc, cc]])
    M = np.eye(4)
    M[:3, :3] = Rz @ Ry @ Rx
    M[:3, 3] = tr["t"]
    return M


def _far_origin(rng, g, target, d=None):
    if d is None:
        d = _rand_unit(rng)
    s = g.radius * rng.uniform(1.3, 3.0) + np.linalg.norm(np.asarray(target) - g.centre)
    return np.asarray(target) - s * d, d


def _through(rng, g, p, d, start_inside=False):
    """Ray along the line through p with direction d: origin far outside (or p itself)."""
    d = _unit(d)
    if start_inside:
        return np.asarray(p, dtype=float), d
    s = (g.radius * rng.uniform(2.2, 4.0) + np.linalg.norm(np.asarray(p) - g.centre))
    if rng.random() < 0.5:
        s = float(2.0 ** np.ceil(np.log2(s)))          # power of two: p - s d keeps more of p's bits for axis rays
    return np.asarray(p, dtype=float) - s * d, d


def _box_point(rng, g, mode="any"):
    u = rng.random(3)
    return u * g.size


def _lat(rng, g, a):
    if g.kind == "box":
        return float(rng.integers(0, g.n[a] + 1) * g.d[a])
    raise ValueError


def _ray_box(rng, g, cls):
    if cls == "random":
        tgt = rng.random(3) * g.size
        o, d = _far_origin(rng, g, tgt)
        return o, d
    if cls == "inside":
        p = rng.random(3) * g.size
        v = rng.integers(0, 4)
        if v == 1:
            p = np.array([_lat(rng, g, a) for a in range(3)])
        elif v == 2:
            a = rng.integers(0, 3)
            p[a] = _lat(rng, g, a)
        elif v == 3:
            a = rng.integers(0, 3)
            p[a] = [0.0, g.upper[a], g.size[a]][rng.integers(0, 3)]
        d = _rand_unit(rng)
        if rng.random() < 0.3:
            d = np.zeros(3)
            d[rng.integers(0, 3)] = rng.choice([-1.0, 1.0])
        return p, d
    if cls == "axis":
        a = int(rng.integers(0, 3))
        d = np.zeros(3)
        d[a] = rng.choice([-1.0, 1.0])
        p = rng.random(3) * g.size
        v = rng.integers(0, 5)
        others = [b for b in range(3) if b != a]
        if v == 1:
            b = others[rng.integers(0, 2)]
            p[b] = _nudge(rng, _lat(rng, g, b))
        elif v == 2:
            for b in others:
                p[b] = _nudge(rng, _lat(rng, g, b))
        elif v == 3:
            b = others[rng.integers(0, 2)]
            p[b] = [0.0, g.upper[b], g.upper[b] - 0.5 * g.eps[b], g.upper[b] + 0.5 * g.eps[b], g.size[b],
                    -1e-12, g.upper[b] * (1 - 1e-15)][rng.integers(0, 7)]
        elif v == 4:
            for b in others:
                p[b] = [0.0, g.upper[b]][rng.integers(0, 2)]
        o, d = _through(rng, g, p, d, start_inside=rng.random() < 0.15)
        for b in others:                     # keep the transverse coordinates bit-exact
            o[b] = p[b]
        return o, d
    if cls == "corner":
        p1 = np.array([_lat(rng, g, a) for a in range(3)])
        while True:
            p2 = np.array([_lat(rng, g, a) for a in range(3)])
            if rng.random() < 0.3:
                p2 = rng.random(3) * g.size
            if np.linalg.norm(p2 - p1) > 1e-6:
                break
        d = _unit(p2 - p1)
        if rng.random() < 0.3:
            p1 = np.array([_nudge(rng, x) for x in p1])
        return _through(rng, g, p1, d, start_inside=rng.random() < 0.2)
    if cls == "graze":
        # a line touching (or nearly touching) an edge / face of the bounding Box
        a = int(rng.integers(0, 3))
        others = [b for b in range(3) if b != a]
        p = rng.random(3) * g.size
        corner = [[0.0, g.upper[b]][rng.integers(0, 2)] for b in others]
        off = float(rng.choice([0.0, 1e-12, -1e-12, 1e-9, -1e-9, 1e-7, -1e-7, 1e-5, -1e-5])) * g.min_cell
        p[others[0]] = corner[0] + off
        p[others[1]] = corner[1] + (off if rng.random() < 0.5 else 0.0)
        d = np.zeros(3)
        d[a] = 1.0
        if rng.random() < 0.6:                # tilt inside the plane that only touches the edge
            w = np.zeros(3)
            s0 = -1.0 if corner[0] == 0.0 else 1.0
            s1 = 1.0 if corner[1] == 0.0 else -1.0
            w[others[0]], w[others[1]] = s0, s1
            d = d + rng.uniform(-1, 1) * w
        if rng.random() < 0.3:                # shallow crossing of a face
            d = d + _rand_unit(rng) * 10 ** rng.uniform(-9, -2)
        return _through(rng, g, p, d)
    if cls == "miss":
        d = _rand_unit(rng)
        w = _perp(rng, d)
        p = g.centre + w * g.radius * rng.uniform(1.02, 3.0)
        return _through(rng, g, p, d)
    raise ValueError(cls)


def _cyl_lat_r(rng, g):
    return float(g.ri + rng.integers(0, g.nr + 1) * g.dr)


def _cyl_lat_z(rng, g):
    return float(rng.integers(0, g.nz + 1) * g.dz)


def _cyl_lat_phi(rng, g):
    return float(np.radians(rng.integers(0, g.nwedge + 1) * g.dphi)) if g.nphi > 1 else float(rng.uniform(0, 2 * np.pi))


def _cyl_point(rng, g):
    r = np.sqrt(rng.uniform(0, 1)) * g.ro * 1.05
    ph = rng.uniform(0, 2 * np.pi)
    return np.array([r * np.cos(ph), r * np.sin(ph), rng.uniform(0, g.h)])


def _ray_cyl(rng, g, cls):
    if cls == "random":
        tgt = _cyl_point(rng, g)
        return _far_origin(rng, g, tgt)
    if cls == "inside":
        p = _cyl_point(rng, g)
        v = rng.integers(0, 5)
        if v == 1:
            r, ph = _cyl_lat_r(rng, g), _cyl_lat_phi(rng, g)
            p = np.array([r * np.cos(ph), r * np.sin(ph), _cyl_lat_z(rng, g)])
        elif v == 2:
            p[2] = [0.0, g.z_top, g.h, _cyl_lat_z(rng, g)][rng.integers(0, 4)]
        elif v == 3:
            r = [g.r_in, g.r_out, g.ri, g.ro, 0.5 * g.ri, 0.0][rng.integers(0, 6)]
            ph = rng.uniform(0, 2 * np.pi)
            p = np.array([r * np.cos(ph), r * np.sin(ph), rng.uniform(0, g.h)])
        elif v == 4:
            p = np.array([0.0, 0.0, rng.uniform(0, g.h)])
        d = _rand_unit(rng)
        if rng.random() < 0.3:
            d = np.zeros(3)
            d[rng.integers(0, 3)] = rng.choice([-1.0, 1.0])
        return p, d
    if cls == "axis":
        if rng.random() < 0.5:              # vertical
            d = np.array([0.0, 0.0, rng.choice([-1.0, 1.0])])
            v = rng.integers(0, 5)
            if v == 0:
                r = np.sqrt(rng.random()) * g.ro
            elif v == 1:
                r = _nudge(rng, _cyl_lat_r(rng, g))
            elif v == 2:
                r = [0.0, 0.5 * g.ri, 0.5 * g.eps_r, 1e-300][rng.integers(0, 4)]
            elif v == 3:
                r = [g.r_in, g.r_out, g.r_in + 0.5 * g.eps_r, g.r_out - 1e-9 * g.dr, g.r_out + 0.5 * g.eps_r][rng.integers(0, 5)]
            else:
                r = g.ri + (rng.integers(0, g.nr) + 0.5) * g.dr
            ph = _cyl_lat_phi(rng, g) if rng.random() < 0.4 else rng.uniform(0, 2 * np.pi)
            if rng.random() < 0.3:
                ph = float(np.radians(90.0 * rng.integers(0, 4)))
            p = np.array([r * np.cos(ph), r * np.sin(ph), rng.uniform(0, g.h)])
            if abs(ph % (np.pi / 2)) < 1e-12:           # exact axes
                q = int(round(ph / (np.pi / 2))) % 4
                p[0], p[1] = [(r, 0.0), (0.0, r), (-r, 0.0), (0.0, -r)][q]
            o, d = _through(rng, g, p, d, start_inside=rng.random() < 0.15)
            o[0], o[1] = p[0], p[1]
            return o, d
        a = int(rng.integers(0, 2))          # horizontal along x or y
        d = np.zeros(3)
        d[a] = rng.choice([-1.0, 1.0])
        b = 1 - a
        p = np.zeros(3)
        v = rng.integers(0, 5)
        if v == 0:
            p[b] = rng.uniform(-1, 1) * g.ro
        elif v == 1:
            p[b] = 0.0 if rng.random() < 0.5 else -0.0
        elif v == 2:
            p[b] = rng.choice([-1.0, 1.0]) * _nudge(rng, _cyl_lat_r(rng, g))
        elif v == 3:
            p[b] = rng.choice([-1.0, 1.0]) * [g.r_in, g.r_out, g.r_out * (1 - 1e-12), g.r_in * (1 - 1e-12)][rng.integers(0, 4)]
        else:
            p[b] = rng.choice([-1.0, 1.0]) * 10 ** rng.uniform(-12, -3) * g.ro
        vz = rng.integers(0, 3)
        p[2] = [rng.uniform(0, g.h), _nudge(rng, _cyl_lat_z(rng, g)), [0.0, g.z_top, g.h][rng.integers(0, 3)]][vz]
        p[a] = rng.uniform(-1, 1) * g.ro
        o, d = _through(rng, g, p, d, start_inside=rng.random() < 0.15)
        o[b], o[2] = p[b], p[2]
        return o, d
    if cls == "tangent":
        R = [_cyl_lat_r(rng, g), g.r_in, g.r_out][rng.choice(3, p=[0.7, 0.15, 0.15])]
        R = R * (1 + float(rng.choice([0.0, 0.0, 2.2e-16, -2.2e-16, 1e-12, -1e-12, 1e-9, -1e-9, 1e-6, -1e-6, 1e-3, -1e-3])))
        ph = rng.uniform(0, 2 * np.pi) if rng.random() < 0.7 else _cyl_lat_phi(rng, g)
        p = np.array([R * np.cos(ph), R * np.sin(ph), rng.uniform(0, g.h)])
        tdir = np.array([-np.sin(ph), np.cos(ph), 0.0])
        slope = 0.0 if rng.random() < 0.4 else rng.normal() * g.h / max(g.ro, 1e-9)
        d = _unit(tdir + np.array([0.0, 0.0, slope]))
        return _through(rng, g, p, d, start_inside=rng.random() < 0.1)
    if cls == "thru_axis":
        zt = rng.uniform(0, g.h)
        ph = rng.uniform(0, 2 * np.pi) if rng.random() < 0.6 else _cyl_lat_phi(rng, g)
        slope = 0.0 if rng.random() < 0.3 else rng.normal()
        d = _unit([np.cos(ph), np.sin(ph), slope])
        p = np.array([0.0, 0.0, zt])
        if rng.random() < 0.3:
            off = 10 ** rng.uniform(-14, -6) * g.dr
            p = p + off * np.array([-np.sin(ph), np.cos(ph), 0.0])
        return _through(rng, g, p, d, start_inside=rng.random() < 0.1)
    if cls == "azim":
        ph = _cyl_lat_phi(rng, g)
        if rng.random() < 0.3:
            ph = float(np.radians(90.0 * rng.integers(0, 4)))
        e = np.array([np.cos(ph), np.sin(ph), 0.0])
        if abs(ph % (np.pi / 2)) < 1e-12:
            q = int(round(ph / (np.pi / 2))) % 4
            e = np.array([(1.0, 0.0, 0.0), (0.0, 1.0, 0.0), (-1.0, 0.0, 0.0), (0.0, -1.0, 0.0)][q])
        r1, r2 = rng.uniform(-1, 1, size=2) * g.ro
        z1, z2 = rng.uniform(0, g.h, size=2)
        p1 = r1 * e + np.array([0, 0, z1])
        p2 = r2 * e + np.array([0, 0, z2])
        if np.linalg.norm(p2 - p1) < 1e-6:
            p2 = p1 + e
        return _through(rng, g, p1, p2 - p1, start_inside=rng.random() < 0.1)
    if cls == "corner":
        pts = []
        for _ in range(2):
            r, ph, z = _cyl_lat_r(rng, g), _cyl_lat_phi(rng, g), _cyl_lat_z(rng, g)
            pts.append(np.array([r * np.cos(ph), r * np.sin(ph), z]))
        if np.linalg.norm(pts[1] - pts[0]) < 1e-6 or rng.random() < 0.3:
            pts[1] = _cyl_point(rng, g)
            if np.linalg.norm(pts[1] - pts[0]) < 1e-6:
                pts[1] = pts[0] + _rand_unit(rng)
        return _through(rng, g, pts[0], pts[1] - pts[0], start_inside=rng.random() < 0.2)
    if cls == "miss":
        v = rng.integers(0, 3)
        if v == 0 and g.ri > 0:            # down the hole
            r = rng.uniform(0, 0.99) * g.ri
            ph = rng.uniform(0, 2 * np.pi)
            p = np.array([r * np.cos(ph), r * np.sin(ph), 0.5 * g.h])
            return _through(rng, g, p, [0.0, 0.0, rng.choice([-1.0, 1.0])])
        d = _rand_unit(rng)
        w = _perp(rng, d)
        p = g.centre + w * g.radius * rng.uniform(1.02, 3.0)
        return _through(rng, g, p, d)
    raise ValueError(cls)


BOX_CLASSES = ["random", "random", "random", "inside", "axis", "corner", "graze", "miss"]
CYL_CLASSES = ["random", "random", "inside", "axis", "tangent", "thru_axis", "azim", "corner", "miss"]


# ------------------------------------------------------------------------------------------------------------
# "mutate after construction" cases
# ------------------------------------------------------------------------------------------------------------

MUTATE_FRACTION = 0.25


def _short_ray_box(rng, g, ell):
    """A ray clipping an edge (or, near its end, a corner) of the bounding Box with a chord of length ~ell."""
    ell = float(min(ell, 0.45 * g.size.min()))
    a = int(rng.integers(0, 3))                         # edge direction
    b, c = [x for x in range(3) if x != a]
    cb = [0.0, g.upper[b]][rng.integers(0, 2)]
    cc = [0.0, g.upper[c]][rng.integers(0, 2)]
    sb = 1.0 if cb == 0.0 else -1.0
    sc = 1.0 if cc == 0.0 else -1.0
    while True:
        w = np.abs(rng.normal(size=3))
        w[2] *= rng.choice([0.0, 0.3, 1.0])             # component along the edge
        w /= np.linalg.norm(w)
        if w[0] > 0.15 and w[1] > 0.15:
            break
    u, v, da = ell * w[0], ell * w[1], ell * w[2] * rng.choice([-1.0, 1.0])
    if rng.random() < 0.3:                              # next to a corner of the box
        a1 = [0.0, g.upper[a]][rng.integers(0, 2)]
        a1 = a1 + (abs(da) + ell * rng.uniform(0.0, 2.0)) * (1.0 if a1 == 0.0 else -1.0)
    else:
        a1 = rng.uniform(0.1, 0.9) * g.upper[a]
    a1 = float(min(max(a1, abs(da) + 1e-9), g.upper[a] - abs(da) - 1e-9)) if g.upper[a] > 2 * abs(da) + 2e-9 else 0.5 * g.upper[a]
    p1 = np.zeros(3)
    p2 = np.zeros(3)
    p1[a], p1[b], p1[c] = a1, cb + sb * u, cc            # on the face c = cc
    p2[a], p2[b], p2[c] = a1 + da, cb, cc + sc * v       # on the face b = cb
    d = _unit(p2 - p1)
    mid = 0.5 * (p1 + p2)
    s = g.radius * rng.uniform(1.3, 3.0)
    return mid - s * d, d


def _short_ray_cyl(rng, g, ell):
    """A ray grazing the outer surface tangentially or clipping the outer / inner rim, chord ~ell."""
    ell = float(min(ell, 0.45 * min(g.h, g.ro)))
    ph = rng.uniform(0, 2 * np.pi)
    er = np.array([np.cos(ph), np.sin(ph), 0.0])
    et = np.array([-np.sin(ph), np.cos(ph), 0.0])
    ez = np.array([0.0, 0.0, 1.0])
    v = rng.integers(0, 3 if g.ri > 0 else 2)
    if v == 0:                                          # tangential graze of the outer surface
        tau = rng.uniform(-0.4, 0.4) if rng.random() < 0.6 else 0.0
        if abs(ell * np.sin(tau)) > 0.4 * g.h:
            tau = 0.0
        lh = ell * np.cos(tau)
        bpar = np.sqrt(max(g.r_out ** 2 - (0.5 * lh) ** 2, 0.0))
        zmid = rng.uniform(0.3, 0.7) * g.z_top
        mid = bpar * er + zmid * ez
        d = _unit(np.cos(tau) * et + np.sin(tau) * ez)
    else:
        top = rng.random() < 0.5
        zc = g.z_top if top else 0.0
        sz = -1.0 if top else 1.0
        th = rng.uniform(0.2, 1.37)
        u, w = ell * np.cos(th), ell * np.sin(th)
        if v == 1:                                      # outer rim: cap point inside, side point below / above the rim
            p1 = (g.r_out - u) * er + zc * ez
            p2 = g.r_out * er + (zc + sz * w) * ez
        else:                                           # inner rim
            p1 = (g.r_in + u) * er + zc * ez
            p2 = g.r_in * er + (zc + sz * w) * ez
        if rng.random() < 0.4:                          # out of the meridional plane
            p2 = p2 + et * rng.uniform(-0.5, 0.5) * ell
            rr = np.hypot(p2[0], p2[1])
            p2[:2] *= (g.r_out if v == 1 else g.r_in) / rr
        mid = 0.5 * (p1 + p2)
        d = _unit(p2 - p1) * rng.choice([-1.0, 1.0])
    s = g.radius * rng.uniform(1.3, 3.0)
    return mid - s * d, d


def _mut_rays(rng, g, kind, cur_step):
    """Rays judged after one mutation: one ordinary crossing ray, one hostile ray, two short-chord rays whose chord is
    log-uniform between 1e-4 and 10 times the CURRENT integration step."""
    fn = _ray_box if kind == "box" else _ray_cyl
    hostile = (["axis", "corner", "graze"] if kind == "box" else ["axis", "tangent", "thru_axis", "corner"])
    out = []
    for cls in ("random", str(hostile[rng.integers(0, len(hostile))]), "short", "short"):
        if cls == "short":
            ell = cur_step * 10 ** rng.uniform(-4, 1)
            o, d = (_short_ray_box if kind == "box" else _short_ray_cyl)(rng, g, ell)
        else:
            o, d = fn(rng, g, cls)
        d = _unit(d)
        out.append(dict(cls=cls, o=[float(x) for x in o], d=[float(x) for x in d]))
    return out


def _map_params(rng):
    return dict(seed=int(rng.integers(0, 2 ** 31)), density=float(rng.uniform(0.05, 1.0)), merge=float(rng.uniform(0.1, 1.0)),
                gaps=bool(rng.random() < 0.3), mask_density=float(rng.uniform(0.05, 1.0)))


def _gen_mutate_case(rng):
    while True:
        gd = _gen_grid(rng)
        n = [gd[k] for k in (("nx", "ny", "nz") if gd["kind"] == "box" else ("nr", "nphi", "nz"))]
        if int(np.prod(n)) <= 400:                       # many fresh objects per case: keep the maps small
            break
    g = G.make_grid(gd)
    tr0 = _gen_transform(rng, False)
    r = rng.random()
    step0 = None if r < 0.5 else float(g.min_cell * 10 ** rng.uniform(np.log10(0.05), np.log10(2.0)))
    ms0 = 2 if rng.random() < 0.7 else int(rng.integers(3, 7))
    cur = step0 if step0 is not None else 0.1 * g.min_cell
    smin = g.radius / 1.0e5                              # keeps the number of samples per ray <~ 4e5
    smax = 3.0 * g.min_cell
    map0 = None
    r = rng.random()
    if r < 0.2:
        map0 = dict(kind="mask", **_map_params(rng))
    elif r < 0.4:
        map0 = dict(kind="voxel_map", **_map_params(rng))
    ops = []
    hist = dict(step=[cur], transform=[tr0])
    nops = int(rng.integers(2, 7))
    kinds = ["step_down", "step_up", "mask", "voxel_map", "all_active", "transform", "parent", "integrator", "min_samples", "revert"]
    pk = np.array([0.28, 0.12, 0.1, 0.1, 0.05, 0.1, 0.08, 0.08, 0.04, 0.05])
    for i in range(nops):
        kind = str(rng.choice(kinds, p=pk / pk.sum()))
        if i == 0 and rng.random() < 0.5:
            kind = "step_down"
        if kind == "step_down":
            v = max(cur * 10 ** rng.uniform(-3, -1), smin)
            op = dict(op="step", value=float(v), via=str(rng.choice(["rt", "integrator"])))
        elif kind == "step_up":
            v = min(cur * 10 ** rng.uniform(0.3, 2.5), smax)
            op = dict(op="step", value=float(v), via=str(rng.choice(["rt", "integrator"])))
        elif kind == "revert":
            if rng.random() < 0.6 or len(hist["transform"]) < 2:
                op = dict(op="step", value=float(hist["step"][rng.integers(0, len(hist["step"]))]), via="rt")
            else:
                op = dict(op="transform", tr=hist["transform"][rng.integers(0, len(hist["transform"]))])
        elif kind == "mask":
            op = dict(op="mask", **_map_params(rng))
        elif kind == "all_active":
            op = dict(op="mask", none=True)
        elif kind == "voxel_map":
            op = dict(op="voxel_map", **_map_params(rng))
        elif kind == "transform":
            op = dict(op="transform", tr=_gen_transform(rng, False))
        elif kind == "parent":
            op = dict(op="parent", how=str(rng.choice(["reattach", "new_world", "node"])), tr=_gen_transform(rng, False))
        elif kind == "integrator":
            v = min(max(cur * 10 ** rng.uniform(-2, 1), smin), smax)
            op = dict(op="integrator", step=float(v), min_samples=int(rng.integers(2, 6)))
        else:
            op = dict(op="min_samples", value=int(rng.integers(2, 8)))
        if op["op"] == "step" and op["value"] == cur:
            op["value"] = float(min(cur * 2.0, smax)) if cur * 2.0 <= smax else float(cur * 0.5)
        if op["op"] == "step":
            cur = op["value"]
            hist["step"].append(cur)
        elif op["op"] == "integrator":
            cur = op["step"]
            hist["step"].append(cur)
        elif op["op"] == "transform":
            hist["transform"].append(op["tr"])
        op["judge"] = bool(i == nops - 1 or rng.random() < 0.75)      # otherwise the next mutation follows without a trace
        op["rays"] = _mut_rays(rng, g, gd["kind"], cur) if op["judge"] else []
        ops.append(op)
    warm = bool(rng.random() < 0.7)
    return dict(mode="mutate", grid=gd, transform=tr0, step=step0, min_samples=ms0, map0=map0,
                transform_path=str(rng.choice(["ctor", "setter"])), warmup=warm,
                warm_rays=_mut_rays(rng, g, gd["kind"], step0 if step0 is not None else 0.1 * g.min_cell) if warm else [],
                ops=ops)


def gen_case(rng, tier):
    # the decision uses an independent (jumped) stream so that ordinary cases are the same as without this class
    r2 = np.random.Generator(rng.bit_generator.jumped())
    if r2.random() < MUTATE_FRACTION:
        return _gen_mutate_case(r2)
    gd = _gen_grid(rng)
    g = G.make_grid(gd)
    hostile = rng.random() < 0.35           # exact lattice rays only stay exact under trivial transforms
    tr = _gen_transform(rng, hostile)
    r = rng.random()
    if r < 0.25:
        step = None
    elif r < 0.8:
        step = float(g.min_cell * 10 ** rng.uniform(np.log10(0.02), np.log10(0.6)))
    else:
        step = float(g.min_cell * rng.uniform(1.0, 3.0))
    ms = 2 if rng.random() < 0.7 else int(rng.integers(3, 9))
    classes = list(BOX_CLASSES if gd["kind"] == "box" else CYL_CLASSES)
    if gd["kind"] == "cyl" and gd["nphi"] == 1:
        classes[classes.index("azim")] = "tangent"
    rays = []
    for cls in classes:
        o, d = (_ray_box if gd["kind"] == "box" else _ray_cyl)(rng, g, cls)
        d = _unit(d)
        rays.append(dict(cls=cls, o=[float(x) for x in o], d=[float(x) for x in d]))
    layouts = ["int64", "float64", "fortran", "transposed_view", "strided_view", "int32_fortran", "bool_mask_fortran",
               "int_mask"]
    return dict(grid=gd, transform=tr, step=step, min_samples=ms,
                map=dict(seed=int(rng.integers(0, 2 ** 31)), density=float(rng.uniform(0.05, 1.0)),
                         merge=float(rng.uniform(0.1, 1.0)), gaps=bool(rng.random() < 0.3),
                         mask_density=float(rng.uniform(0.05, 1.0)) if rng.random() < 0.85 else 1.0),
                path=str(rng.choice(["setter", "ctor", "ctor_both"], p=[0.5, 0.35, 0.15])),
                transform_path=str(rng.choice(["ctor", "setter"])),
                layout=str(layouts[rng.integers(0, len(layouts))]) if rng.random() < 0.25 else None,
                rays=rays)


def fixed_cases(tier):
    """Deterministic hostile / regression cases."""
    out = []
    ident = dict(kind="identity", t=[0.0, 0.0, 0.0], ang=[0.0, 0.0, 0.0])
    mp = dict(seed=1, density=0.6, merge=0.5, gaps=True, mask_density=0.5)
    # the three rays of the repository's own tests + exact lattice diagonals
    out.append(dict(grid=dict(kind="box", nx=3, ny=3, nz=3, xmax=3.0, ymax=3.0, zmax=3.0), transform=ident, step=0.001,
                    min_samples=2, map=mp, path="setter", transform_path="ctor", layout="fortran",
                    rays=[dict(cls="corner", o=[4.0, 4.0, 4.0], d=[float(-1 / np.sqrt(3))] * 3),
                          dict(cls="axis", o=[-1.0, 1.0, 1.0], d=[1.0, 0.0, 0.0]),
                          dict(cls="axis", o=[-1.0, 0.0, 0.0], d=[1.0, 0.0, 0.0]),
                          dict(cls="axis", o=[1.5, 1.5, 5.0], d=[0.0, 0.0, -1.0]),
                          dict(cls="inside", o=[1.0, 1.0, 1.0], d=[0.0, 1.0, 0.0]),
                          dict(cls="miss", o=[-1.0, 3.5, 1.0], d=[1.0, 0.0, 0.0])]))
    out.append(dict(grid=dict(kind="cyl", nr=2, nphi=1, nz=2, ro=4.0, ri=2.0, h=2.0, k=1), transform=ident, step=0.0005,
                    min_samples=2, map=mp, path="setter", transform_path="ctor", layout="transposed_view",
                    rays=[dict(cls="random", o=[4.0, 1.0, 2.0], d=[float(x / np.sqrt(21.)) for x in (-4., -1., -2.)]),
                          dict(cls="thru_axis", o=[-6.0, 0.0, 1.0], d=[1.0, 0.0, 0.0]),
                          dict(cls="tangent", o=[-6.0, 3.0, 0.5], d=[1.0, 0.0, 0.0]),
                          dict(cls="tangent", o=[-6.0, 2.0, 0.5], d=[1.0, 0.0, 0.0]),
                          dict(cls="axis", o=[3.0, 0.0, 5.0], d=[0.0, 0.0, -1.0]),
                          dict(cls="miss", o=[0.5, 0.5, 5.0], d=[0.0, 0.0, -1.0])]))
    out.append(dict(grid=dict(kind="cyl", nr=2, nphi=3, nz=2, ro=2.0, ri=0.0, h=2.0, k=4), transform=ident, step=0.0005,
                    min_samples=2, map=mp, path="ctor", transform_path="ctor", layout="int64",
                    rays=[dict(cls="thru_axis", o=[float(np.sqrt(2.)), float(np.sqrt(2.)), 2.0], d=[-0.5, -0.5, float(-np.sqrt(2.) / 2)]),
                          dict(cls="azim", o=[-3.0, 0.0, 1.0], d=[1.0, 0.0, 0.0]),
                          dict(cls="azim", o=[-3.0, -1e-300, 1.0], d=[1.0, 0.0, 0.0]),
                          dict(cls="azim", o=[0.0, -3.0, 0.5], d=[0.0, 1.0, 0.0]),
                          dict(cls="random", o=[3.0, 0.3, 1.7], d=[float(x / np.sqrt(1 + 0.04 + 0.09)) for x in (-1.0, 0.2, -0.3)]),
                          dict(cls="axis", o=[1.0, 1e-9, 5.0], d=[0.0, 0.0, -1.0])]))
    for k in (1, 3, 7, 8):
        out.append(dict(grid=dict(kind="cyl", nr=3, nphi=5, nz=2, ro=1.6, ri=0.1, h=0.5, k=k),
                        transform=dict(kind="general", t=[0.3, -1.0, 2.0], ang=[30.0, -70.0, 200.0]), step=None,
                        min_samples=3, map=dict(mp, seed=k), path="ctor_both", transform_path="setter", layout=None,
                        rays=[dict(cls="random", o=[3.0, 0.3, 0.4], d=[float(x / np.sqrt(1 + 0.04 + 0.0001)) for x in (-1.0, 0.2, -0.01)]),
                              dict(cls="tangent", o=[-5.0, 0.6, 0.25], d=[1.0, 0.0, 0.0]),
                              dict(cls="thru_axis", o=[-5.0, 0.0, 0.25], d=[1.0, 0.0, 0.0]),
                              dict(cls="inside", o=[0.0, 0.0, 0.25], d=[0.0, 1.0, 0.0])]))
    return out


# ------------------------------------------------------------------------------------------------------------
# maps
# ------------------------------------------------------------------------------------------------------------

def build_maps(case, shape):
    m = case["map"]
    rng = np.random.default_rng(m["seed"])
    ncell = int(np.prod(shape))
    active = rng.random(ncell) < m["density"]
    if not active.any():
        active[rng.integers(0, ncell)] = True
    nact = int(active.sum())
    nsrc = max(1, int(round(nact * m["merge"])))
    labels = rng.integers(0, nsrc, size=nact)
    if rng.random() < 0.5:
        # spatially coherent sources: sort so that neighbouring cells tend to share a source
        labels = np.sort(labels)
    if not m["gaps"]:
        _, labels = np.unique(labels, return_inverse=True)      # contiguous 0..n-1
    else:
        labels = labels * int(rng.integers(1, 3)) + int(rng.integers(0, 3))
    vmap = np.full(ncell, -1, dtype=np.int64)
    vmap[active] = labels
    mask = rng.random(ncell) < m["mask_density"]
    if not mask.any():
        mask[rng.integers(0, ncell)] = True
    return vmap.reshape(shape), mask.reshape(shape)


def layout_variant(name, vmap, mask):
    """The same map/mask in another memory layout / dtype.  Returns (kind, array)."""
    if name == "int64":
        return "voxel_map", vmap.astype(np.int64)
    if name == "float64":
        return "voxel_map", vmap.astype(np.float64)
    if name == "fortran":
        return "voxel_map", np.asfortranarray(vmap.astype(np.int64))
    if name == "int32_fortran":
        return "voxel_map", np.asfortranarray(vmap.astype(np.int32))
    if name == "transposed_view":
        return "voxel_map", np.ascontiguousarray(vmap.transpose(2, 1, 0)).transpose(2, 1, 0)
    if name == "strided_view":
        big = np.repeat(vmap, 2, axis=2)
        return "voxel_map", big[:, :, ::2]
    if name == "bool_mask_fortran":
        return "mask", np.asfortranarray(mask)
    if name == "int_mask":
        return "mask", mask.astype(np.int64)
    raise ValueError(name)


# ------------------------------------------------------------------------------------------------------------
# running
# ------------------------------------------------------------------------------------------------------------

class _IndexOutOfRange(Exception):
    pass


class _Scene:
    def __init__(self, case, g, M, voxel_map=None, mask=None):
        from raysect.optical import World, AffineMatrix3D
        from cherab.tools.raytransfer import RayTransferBox, RayTransferCylinder
        gd = case["grid"]
        self.world = World()
        kw = {}
        if case["step"] is not None:
            kw["step"] = case["step"]
        if voxel_map is not None:
            kw["voxel_map"] = voxel_map
        if mask is not None:
            kw["mask"] = mask
        tm = AffineMatrix3D(M.tolist())
        if case["transform_path"] == "ctor":
            kw["parent"] = self.world
            kw["transform"] = tm
        if gd["kind"] == "box":
            self.rt = RayTransferBox(gd["xmax"], gd["ymax"], gd["zmax"], gd["nx"], gd["ny"], gd["nz"], **kw)
        else:
            self.rt = RayTransferCylinder(gd["ro"], gd["h"], gd["nr"], gd["nz"], radius_inner=gd["ri"], n_polar=gd["nphi"],
                                          period=360.0 / gd["k"], **kw)
        if case["transform_path"] != "ctor":
            self.rt.transform = tm
            self.rt.parent = self.world
        if case["min_samples"] != 2:
            self.rt.material.integrator.min_samples = case["min_samples"]

    def trace(self, ow, dw):
        from raysect.optical import Ray, Point3D, Vector3D
        ray = Ray(origin=Point3D(float(ow[0]), float(ow[1]), float(ow[2])),
                  direction=Vector3D(float(dw[0]), float(dw[1]), float(dw[2])),
                  min_wavelength=500.0, max_wavelength=501.0, bins=int(self.rt.bins))
        try:
            return np.array(ray.trace(self.world).samples, dtype=float)
        except IndexError as e:
            # boundscheck is on in the integrators: a sample whose cell index leaves the grid / the spectral array
            raise _IndexOutOfRange(str(e))


def _check_pipelines(ctx, A, rays, geom):
    """RayTransferPipeline2D on a VectorCamera firing exactly the case's rays, RayTransferPipeline0D on a SightLine."""
    from raysect.optical import Point3D, Vector3D, Ray, translate, rotate_basis
    from raysect.optical.observer import VectorCamera, SightLine
    from raysect.core.workflow import SerialEngine
    from cherab.tools.raytransfer import RayTransferPipeline2D, RayTransferPipeline0D
    hit = [r for r in rays if r["an"].total_hi > 0.0 and "E_raw" in r]
    if not hit:
        return
    n = len(hit)
    o = np.empty((n, 1), dtype=object)
    d = np.empty((n, 1), dtype=object)
    for i, r in enumerate(hit):
        o[i, 0] = Point3D(*[float(x) for x in r["ow"]])
        d[i, 0] = Vector3D(*[float(x) for x in r["dw"]])
    bins = int(A.rt.bins)
    for kind in ("radiance", "power"):
        pipe = RayTransferPipeline2D(kind=kind)
        cam = VectorCamera(o, d, pipelines=[pipe], parent=A.world)
        cam.spectral_bins = bins
        cam.min_wavelength, cam.max_wavelength = 500.0, 501.0
        cam.spectral_rays = 1
        cam.pixel_samples = 2
        cam.quiet = True
        cam.render_engine = SerialEngine()
        cam.observe()
        mat = np.array(pipe.matrix, dtype=float)
        # the same pipeline object observed again must give the same matrix (no state carried over between observations)
        cam.observe()
        mat2 = np.array(pipe.matrix, dtype=float)
        cam.parent = None
        if mat2.shape == mat.shape:
            ctx.close(mat2, mat, "pipeline2d:reobserve-differs:%s" % kind,
                      "RayTransferPipeline2D gives a different matrix when the same pipeline object is used for a second observe()",
                      atol=max(r["sum_atol"] for r in hit), monitor="pipeline_reuse")
        else:
            ctx.viol("pipeline2d:reobserve-differs:%s" % kind, "matrix shape changed on the second observe()", shape=list(mat2.shape))
        ok = ctx.check(mat.shape == (n, 1, bins), "pipeline2d:matrix-shape", "RayTransferPipeline2D.matrix has the wrong shape",
                       monitor="pipeline", shape=list(mat.shape))
        if ok:
            for i, r in enumerate(hit):
                ctx.close(mat[i, 0], r["E_raw"], "pipeline2d:matrix-differs-from-traced-ray:%s" % kind,
                          "row of the RayTransferPipeline2D matrix (VectorCamera, unit sensitivity) differs from the entries of the same ray traced directly",
                          atol=r["sum_atol"], monitor="pipeline", ray_cls=r["cls"])
    # 0D: a sight line along the first hitting ray; its own axis direction is traced directly for comparison
    r = hit[0]
    dw = Vector3D(*[float(x) for x in r["dw"]])
    up = dw.orthogonal()
    sens = 2.5
    for kind in ("radiance", "power"):
        pipe = RayTransferPipeline0D(kind=kind)
        sl = SightLine(pipelines=[pipe], parent=A.world, sensitivity=sens,
                       transform=translate(*[float(x) for x in r["ow"]]) * rotate_basis(dw, up))
        sl.spectral_bins = bins
        sl.min_wavelength, sl.max_wavelength = 500.0, 501.0
        sl.spectral_rays = 1
        sl.pixel_samples = 3
        sl.quiet = True
        sl.render_engine = SerialEngine()
        sl.observe()
        first = np.array(pipe.matrix, dtype=float)
        for _rep in range(2):
            sl.observe()
            again = np.array(pipe.matrix, dtype=float)
            ctx.close(again, first, "pipeline0d:reobserve-differs:%s" % kind,
                      "RayTransferPipeline0D gives a different matrix when the same pipeline object is used for another observe()",
                      atol=(sens if kind == "power" else 1.0) * r["sum_atol"], monitor="pipeline_reuse", repeat=_rep + 2)
        axis = Vector3D(0, 0, 1).transform(sl.to_root())
        org = Point3D(0, 0, 0).transform(sl.to_root())
        sl.parent = None
        ref = np.array(Ray(org, axis, min_wavelength=500.0, max_wavelength=501.0, bins=bins).trace(A.world).samples)
        if np.abs(ref - r["E_raw"]).max() > 2 * r["an"].dt + 1e-9:
            ctx.skip("sight-line axis differs from the case ray by rounding enough to move a sample (0D pipeline not judged)")
            continue
        f = sens if kind == "power" else 1.0
        ctx.close(np.asarray(pipe.matrix), f * ref, "pipeline0d:matrix-differs-from-traced-ray:%s" % kind,
                  "RayTransferPipeline0D matrix (SightLine) differs from sensitivity x entries of the ray traced along the sight line",
                  atol=f * r["sum_atol"], monitor="pipeline")


def _check_emission_function(ctx, case, g, B, vmap, geom):
    """emission_function (used with raysect's generic integrators) must add unit emissivity to the source of the cell
    that contains the point and nothing for a cell mapped to -1."""
    from raysect.optical import Point3D, Vector3D, Spectrum
    rng = np.random.default_rng(case["map"]["seed"] + 17)
    mat = B.rt.material
    prim = B.rt._primitive
    bins = int(B.rt.bins)
    shape = g.shape
    for _ in range(12):
        idx = [int(rng.integers(0, n)) for n in shape]
        u = rng.uniform(0.02, 0.98, size=3)
        if g.kind == "box":
            p = (np.array(idx) + u) * g.d
        else:
            r = g.ri + (idx[0] + u[0]) * g.dr
            ph = np.radians((idx[1] + u[1]) * g.dphi + rng.integers(0, max(case["grid"]["k"], 1)) * g.period)
            if g.nphi == 1:
                ph = rng.uniform(0, 2 * np.pi)
            p = np.array([r * np.cos(ph), r * np.sin(ph), (idx[2] + u[2]) * g.dz])
        sp = Spectrum(500.0, 501.0, bins)
        try:
            mat.emission_function(Point3D(*[float(x) for x in p]), Vector3D(0, 0, 1), sp, B.world, None, prim, prim.to_local(), prim.to_root())
        except IndexError as e:
            ctx.check(False, "%s:emission-function:index-out-of-range" % geom,
                      "emission_function raises IndexError for a point inside the grid (%s)" % str(e)[:100], monitor="emission_function",
                      cell=idx, source=int(vmap[tuple(idx)]))
            continue
        got = np.array(sp.samples)
        want = np.zeros(bins)
        src = int(vmap[tuple(idx)])
        if src >= 0:
            want[src] = 1.0
        ctx.check(np.array_equal(got, want), "%s:emission-function:wrong-source" % geom,
                  "emission_function does not add unit emissivity to exactly the source of the cell containing the point",
                  monitor="emission_function", cell=idx, source=src, got_nonzero=np.flatnonzero(got).tolist())


def _geom_name(gd):
    if gd["kind"] == "box":
        return "box"
    return "cyl-axisym" if gd["nphi"] == 1 else "cyl-3d"


def _interval_check(ctx, monitor, key, what, got, lo, hi, tol, **detail):
    """got must lie in [lo - tol, hi + tol] element-wise; margin = excess / tol (not tracked for the known
    tangent mechanism, whose rays are judged under their own key)."""
    got = np.asarray(got, dtype=float)
    exc = np.maximum(np.maximum(lo - got, got - hi), 0.0)
    tol = np.broadcast_to(np.asarray(tol, dtype=float), got.shape)
    ctx.mon(monitor, int(got.size))
    bad = ~np.isfinite(got) | (exc > tol)
    with np.errstate(divide="ignore", invalid="ignore"):
        ratio = np.where(exc > 0, exc / tol, 0.0)
    fin = ratio[np.isfinite(ratio)]
    if fin.size and key not in TANGENT_KEYS:
        ctx.margin(monitor, float(fin.max()))
    if bad.any():
        i = int(np.argmax(np.where(np.isfinite(got), exc - tol, np.inf)))
        ctx.viol(key, what, index=i, got=float(got.flat[i]), lo=float(np.ravel(lo)[i] if np.ndim(lo) else lo),
                 hi=float(np.ravel(hi)[i] if np.ndim(hi) else hi), tol=float(tol.flat[i]), n_bad=int(bad.sum()), **detail)
        return False
    return True


# ------------------------------------------------------------------------------------------------------------
# aliasing monitors: caller-owned arrays handed in, arrays handed out
# ------------------------------------------------------------------------------------------------------------

ALIAS_KINDS = ["voxel_map:int32-C", "voxel_map:int32-C", "voxel_map:int32-C", "voxel_map:int64-C", "voxel_map:float64-C",
               "voxel_map:int32-F", "voxel_map:int64-strided", "voxel_map:int32-strided", "mask:bool-C", "mask:bool-C",
               "mask:bool-F", "mask:int64-C", "mask:uint8-C"]


def _caller_array(kind, vmap, mask):
    """A caller-owned work array holding the map / mask in the given dtype and layout (int32-C is the emitter's own format)."""
    what, lay = kind.split(":")
    src = vmap if what == "voxel_map" else mask
    dt = {"int32": np.int32, "int64": np.int64, "float64": np.float64, "bool": bool, "uint8": np.uint8}[lay.split("-")[0]]
    a = np.array(src, dtype=dt, order="C")
    if lay.endswith("-F"):
        a = np.asfortranarray(a)
    elif lay.endswith("-strided"):
        a = np.repeat(a, 2, axis=2)[:, :, ::2]
    return what, a


def _check_aliasing(ctx, case, g, M, rays, geom, vmap, mask):
    """(a) a caller-owned array handed to a constructor / setter and edited in place afterwards (work array re-used for the
    next object) must not change the existing object: same entries as before the edit and as a fresh object built from a
    copy of the original values, same bins, same map read back.  (b) arrays handed out (voxel_map, mask) and kept by the
    user must keep their values across a later setter, and editing a returned mask must not change the object."""
    hit = [r for r in rays if r["an"].total_hi > 0.0 and "E" in r][:3]
    if not hit:
        return
    rng = np.random.default_rng(case["map"]["seed"] + 29)
    kind = ALIAS_KINDS[int(rng.integers(0, len(ALIAS_KINDS)))]
    path = ["ctor", "setter"][int(rng.integers(0, 2))]
    what, arr = _caller_array(kind, vmap, mask)
    orig = np.array(arr, copy=True, order="C")
    ctx.cls("alias-in:" + kind)
    if path == "ctor":
        S = _Scene(case, g, M, **{what: arr})
    else:
        S = _Scene(case, g, M)
        setattr(S.rt, what, arr)
    if what == "voxel_map":
        want_map = np.asarray(vmap).astype(np.int64)
    else:
        want_map = np.full(mask.size, -1, dtype=np.int64)
        want_map[mask.ravel()] = np.arange(int(mask.sum()))
        want_map = want_map.reshape(mask.shape)
    nb = int(want_map.max()) + 1
    key_in = "aliasing:caller-%s-array:%s:%s:in-place-edit-changes-object" % (what, kind.split(":")[1], path)
    if not ctx.check(int(S.rt.bins) == nb and np.array_equal(np.asarray(S.rt.voxel_map), want_map), key_in.replace("in-place-edit-changes-object", "map-not-taken-over"),
                     "map / bins after handing over the array are not the array's values", monitor="aliasing_in"):
        return
    E1 = [S.trace(r["ow"], r["dw"]) for r in hit]
    # ---- the caller re-uses the work array --------------------------------------------------------------------
    if what == "voxel_map":
        new = rng.integers(-1, nb + 3, size=arr.shape)          # other sources, also beyond the old bins
        new[tuple(rng.integers(0, n) for n in arr.shape)] = nb + 5
        arr[...] = new.astype(arr.dtype)
    else:
        arr[...] = np.logical_not(orig).astype(arr.dtype)
    try:
        E2 = [S.trace(r["ow"], r["dw"]) for r in hit]
    except _IndexOutOfRange as e:
        ctx.check(False, key_in, "after the caller edited its own array in place, tracing the existing object raises IndexError (%s): "
                  "the object aliases the caller's array while bins is frozen" % str(e)[:80], monitor="aliasing_in")
        return
    same = all(np.array_equal(a, b) for a, b in zip(E1, E2))
    ok = ctx.check(same and int(S.rt.bins) == nb and np.array_equal(np.asarray(S.rt.voxel_map), want_map), key_in,
                   "editing the caller's own array in place after it was handed to the constructor / setter changes the existing object "
                   "(entries, bins or the map read back)", monitor="aliasing_in", entries_same=bool(same), bins=int(S.rt.bins), want_bins=nb,
                   map_same=bool(np.array_equal(np.asarray(S.rt.voxel_map), want_map)))
    if ok:
        Fs = _Scene(case, g, M, **{what: np.array(orig, copy=True)})
        for r, e2 in zip(hit, E2):
            ctx.close(e2, Fs.trace(r["ow"], r["dw"]), key_in.replace("in-place-edit-changes-object", "differs-from-fresh-object-built-from-a-copy"),
                      "entries differ from those of a fresh object built from a copy of the original values", atol=r["sum_atol"],
                      monitor="aliasing_in", ray_cls=r["cls"])
    else:
        return
    # ---- arrays handed out ---------------------------------------------------------------------------------------
    ret_vm = S.rt.voxel_map
    ret_mk = S.rt.mask
    snap_vm, snap_mk = np.array(ret_vm, copy=True), np.array(ret_mk, copy=True)
    setter = ["voxel_map", "mask"][int(rng.integers(0, 2))]
    if setter == "voxel_map":
        perm = rng.permutation(nb + 1) - 1                    # relabel the sources, same number of bins where possible
        other = np.where(want_map >= 0, np.abs(perm[want_map + 1]), -1)
        S.rt.voxel_map = other
    else:
        other = rng.random(want_map.shape) < 0.6
        other.flat[int(rng.integers(0, other.size))] = True
        S.rt.mask = other
    ctx.check(np.array_equal(ret_vm, snap_vm), "aliasing:returned-voxel_map:changed-by-later-%s-setter" % setter,
              "the array obtained from .voxel_map before changed its values when a new %s was assigned" % setter, monitor="aliasing_out")
    ctx.check(np.array_equal(ret_mk, snap_mk), "aliasing:returned-mask:changed-by-later-%s-setter" % setter,
              "the array obtained from .mask before changed its values when a new %s was assigned" % setter, monitor="aliasing_out")
    T1 = [S.trace(r["ow"], r["dw"]) for r in hit]
    mk = S.rt.mask
    bins_before = int(S.rt.bins)
    mk[...] = np.logical_not(mk)                                # the user scribbles on the returned mask
    try:
        T2 = [S.trace(r["ow"], r["dw"]) for r in hit]
        same = all(np.array_equal(a, b) for a, b in zip(T1, T2)) and int(S.rt.bins) == bins_before
    except _IndexOutOfRange:
        same = False
    ctx.check(same, "aliasing:returned-mask:user-edit-changes-object", "editing the array returned by .mask changes the object's entries / bins",
              monitor="aliasing_out")


def _check_pipeline_aliasing(ctx, case, g, M, rays, geom):
    """Pipelines re-used for a second observation: the matrix array the user kept from the first observation keeps its
    values, the second matrix is that of the second observation, a returned matrix scribbled on by the user does not leak
    into a later observation, and pixels that a partial frame does not sample are zero."""
    from raysect.optical import Point3D, Vector3D, translate, rotate_basis
    from raysect.optical.observer import VectorCamera, SightLine, MeshCamera, FullFrameSampler2D
    from raysect.optical.observer.base import FrameSampler1D
    from raysect.primitive import Mesh
    from raysect.core.workflow import SerialEngine
    from cherab.tools.raytransfer import RayTransferPipeline2D, RayTransferPipeline1D, RayTransferPipeline0D
    hit = [r for r in rays if r["an"].total_hi > 0.0 and "E_raw" in r]
    if not hit:
        return
    S = _Scene(case, g, M)
    ncell = g.ncell
    bins = int(S.rt.bins)
    rng = np.random.default_rng(case["map"]["seed"] + 31)
    perm_map = rng.permutation(ncell).reshape(g.shape)       # another map with the same number of bins

    def setup(cam):
        cam.spectral_bins = bins
        cam.min_wavelength, cam.max_wavelength = 500.0, 501.0
        cam.spectral_rays = 1
        cam.quiet = True
        cam.render_engine = SerialEngine()

    # ---------------- 2D ----------------
    n = len(hit)
    o = np.empty((n, 1), dtype=object)
    d = np.empty((n, 1), dtype=object)
    for i, r in enumerate(hit):
        o[i, 0] = Point3D(*[float(x) for x in r["ow"]])
        d[i, 0] = Vector3D(*[float(x) for x in r["dw"]])
    pipe = RayTransferPipeline2D(kind="radiance")
    cam = VectorCamera(o, d, pipelines=[pipe], parent=S.world)
    setup(cam)
    cam.pixel_samples = 1
    cam.observe()
    m1 = pipe.matrix
    snap1 = np.array(m1, copy=True)
    S.rt.voxel_map = perm_map
    T2 = np.array([S.trace(r["ow"], r["dw"]) for r in hit])
    atol = max(r["sum_atol"] for r in hit)
    cam.observe()
    m2 = pipe.matrix
    ctx.check(np.array_equal(m1, snap1), "pipeline2d:returned-matrix-changed-by-later-observe",
              "the array obtained from RayTransferPipeline2D.matrix after the first observation changed its values during the next observe() "
              "(same camera, other voxel map with the same number of bins)", monitor="pipeline_alias", same_object=bool(m1 is m2))
    if m2.shape == (n, 1, bins):
        ctx.close(m2[:, 0, :], T2, "pipeline2d:second-observation-differs-from-traced-rays",
                  "matrix of the second observation with a re-used RayTransferPipeline2D differs from the directly traced entries", atol=atol,
                  monitor="pipeline_alias")
    m2[...] = 1234.5                                           # the user scribbles on the returned matrix
    keep = np.ones((n, 1), dtype=bool)
    if n >= 2:
        keep[rng.permutation(n)[:max(1, n // 2)], 0] = False
    cam.frame_sampler = FullFrameSampler2D(mask=keep)
    cam.observe()
    m3 = np.asarray(pipe.matrix)
    if m3.shape == (n, 1, bins):
        ctx.close(m3[keep[:, 0], 0, :], T2[keep[:, 0]], "pipeline2d:reused-pipeline:sampled-pixels-differ-from-traced-rays",
                  "sampled pixels of a partial frame on a re-used RayTransferPipeline2D differ from the directly traced entries", atol=atol,
                  monitor="pipeline_alias")
        if (~keep).any():
            ctx.check(bool(np.all(m3[~keep[:, 0], 0, :] == 0.0)), "pipeline2d:reused-pipeline:unsampled-pixels-not-zero",
                      "pixels excluded by the frame-sampler mask are not zero in the matrix of a re-used RayTransferPipeline2D "
                      "(entries of an earlier observation / of the user's edits survive)", monitor="pipeline_alias",
                      max_abs=float(np.abs(m3[~keep[:, 0], 0, :]).max()))
    cam.parent = None

    # ---------------- 1D: a two-triangle MeshCamera looking along the first hitting ray (random rays: only identity /
    #                  zero relations are judged) ----------------
    class _Partial(FrameSampler1D):
        def __init__(self, pixels):
            self.pixels = list(pixels)

        def generate_tasks(self, pixels):
            return [(p,) for p in self.pixels]

    r0 = hit[0]
    dw = Vector3D(*[float(x) for x in r0["dw"]])
    h = 0.05 * g.min_cell
    mesh = Mesh([[-h, -h, 0], [h, -h, 0], [-h, h, 0], [h, h, 0]], [[0, 1, 2], [1, 3, 2]], smoothing=False, closed=False)
    pipe1 = RayTransferPipeline1D(kind="radiance")
    mc = MeshCamera(mesh, pipelines=[pipe1], parent=S.world,
                    transform=translate(*[float(x) for x in r0["ow"]]) * rotate_basis(dw, dw.orthogonal()))
    setup(mc)
    mc.pixel_samples = 4
    mc.observe()
    a1 = pipe1.matrix
    s1 = np.array(a1, copy=True)
    S.rt.mask = None
    mc.observe()
    a2 = pipe1.matrix
    ctx.check(np.array_equal(a1, s1), "pipeline1d:returned-matrix-changed-by-later-observe",
              "the array obtained from RayTransferPipeline1D.matrix after the first observation changed its values during the next observe()",
              monitor="pipeline_alias", same_object=bool(a1 is a2))
    ok = ctx.check(a2.shape == (2, bins) and bool(np.all(np.isfinite(a2)) and np.all(a2 >= 0.0)), "pipeline1d:matrix-malformed",
                   "RayTransferPipeline1D.matrix has the wrong shape or negative / non-finite entries", monitor="pipeline_alias")
    if ok:
        a2[...] = 1234.5
        mc.frame_sampler = _Partial([1])
        mc.observe()
        a3 = np.asarray(pipe1.matrix)
        ctx.check(bool(np.all(a3[0] == 0.0)) and bool(np.all(a3[1] < 1000.0)), "pipeline1d:reused-pipeline:unsampled-pixels-not-zero",
                  "a pixel not sampled by a partial frame is not zero (or a sampled one keeps the user's edit) in the matrix of a re-used "
                  "RayTransferPipeline1D", monitor="pipeline_alias", row0_max=float(np.abs(a3[0]).max()), row1_max=float(np.abs(a3[1]).max()))
    mc.parent = None

    # ---------------- 0D ----------------
    pipe0 = RayTransferPipeline0D(kind="radiance")
    sl = SightLine(pipelines=[pipe0], parent=S.world, transform=translate(*[float(x) for x in r0["ow"]]) * rotate_basis(dw, dw.orthogonal()))
    setup(sl)
    sl.pixel_samples = 2
    sl.observe()
    z1 = pipe0.matrix
    zs = np.array(z1, copy=True)
    S.rt.voxel_map = perm_map
    sl.observe()
    ctx.check(np.array_equal(z1, zs), "pipeline0d:returned-matrix-changed-by-later-observe",
              "the array obtained from RayTransferPipeline0D.matrix after the first observation changed its values during the next observe()",
              monitor="pipeline_alias", same_object=bool(z1 is pipe0.matrix))
    sl.parent = None


# ------------------------------------------------------------------------------------------------------------
# string-valued options x observers with non-unit sensitivity
# ------------------------------------------------------------------------------------------------------------

KIND_SPELLINGS = {"radiance": ["radiance", "Radiance", "RADIANCE", "rAdIaNcE"], "power": ["power", "Power", "POWER", "pOwEr"]}
_REC_CLASSES = {}


def _recording(cls):
    """Python subclass of a raysect observer that records the rays (local origin, direction, projection weight) it fires."""
    if cls not in _REC_CLASSES:
        class Rec(cls):
            def _generate_rays(self, *a):
                rays = super()._generate_rays(*a)
                self.fired.append((tuple(a[:-2]), [(r.origin.copy(), r.direction.copy(), float(w)) for r, w in rays]))
                return rays
        Rec.__name__ = "Recording" + cls.__name__
        _REC_CLASSES[cls] = Rec
    return _REC_CLASSES[cls]


def _check_observers(ctx, case, g, M, rays, geom, vmap):
    """Pipeline `kind` in every accepted spelling (constructor and setter) on observers whose sensitivity is not 1.
    The rays each observer fires are recorded; a 'radiance' row must be the weighted mean of the chord lengths of exactly
    those rays (judged against the exact chords and against the same rays traced directly), a 'power' row the same times
    the detector sensitivity (etendue) computed here from the detector's geometry."""
    from raysect.optical import Point3D, Vector3D, Ray, translate, rotate_basis
    from raysect.optical.observer import FibreOptic, Pixel, CCDArray, TargettedCCDArray, MeshCamera
    from raysect.primitive import Mesh
    from raysect.core.workflow import SerialEngine
    from cherab.tools.raytransfer import RayTransferPipeline0D, RayTransferPipeline1D, RayTransferPipeline2D
    hit = [r for r in rays if r["an"].total_hi > 0.0 and "E" in r]
    if not hit:
        return
    rng = np.random.default_rng(case["map"]["seed"] + 37)
    merged = bool(rng.random() < 0.5)
    S = _Scene(case, g, M, voxel_map=vmap if merged else None)
    vflat = vmap.ravel() if merged else np.arange(g.ncell)
    active = vflat > -1
    bins = int(S.rt.bins)
    nb = int(vflat.max()) + 1
    if bins != nb:
        return                                              # judged by the bins monitor
    R, T = M[:3, :3], M[:3, 3]
    coord_scale = float(np.abs(T).max() + 4 * g.radius + 1.0)
    delta = DELTA0 + 1e-11 * coord_scale
    atol = 1e-9 + 1e-12 * coord_scale
    step = case["step"] if case["step"] is not None else 0.1 * g.min_cell
    ms = case["min_samples"]
    r0 = hit[int(rng.integers(0, len(hit)))]
    dw = Vector3D(*[float(x) for x in r0["dw"]])
    tf = translate(*[float(x) for x in r0["ow"]]) * rotate_basis(dw, dw.orthogonal())
    c = g.min_cell

    def build(name, pipe):
        """-> (observer, dimension, sensitivity of every pixel computed from the geometry)"""
        if name == "fibre":
            ang, rad = float(10 ** rng.uniform(-2, 1)), float(c * 10 ** rng.uniform(-4, -1.5))
            ob = _recording(FibreOptic)([pipe], acceptance_angle=ang, radius=rad, parent=S.world, transform=tf)
            sens = 2 * np.pi * 2 * np.sin(0.5 * np.radians(ang)) ** 2 * np.pi * rad * rad     # 2 pi (1 - cos a) x pi r^2
            ob.pixel_samples, ob.samples_per_task = 3, 2
        elif name == "pixel":
            xw, yw = [float(c * 10 ** rng.uniform(-3, -1)) for _ in range(2)]
            ob = _recording(Pixel)([pipe], x_width=xw, y_width=yw, parent=S.world, transform=tf)
            sens = 2 * np.pi * xw * yw
            ob.pixel_samples, ob.samples_per_task = 3, 2
        elif name in ("ccd", "tccd"):
            px = [(2, 1), (1, 2), (2, 2)][int(rng.integers(0, 3))]
            width = float(c * 10 ** rng.uniform(-2, -0.5))
            if name == "ccd":
                ob = _recording(CCDArray)(pixels=px, width=width, parent=S.world, transform=tf, pipelines=[pipe])
            else:
                ob = _recording(TargettedCCDArray)([S.rt._primitive], pixels=px, width=width, targetted_path_prob=float(rng.uniform(0.3, 1.0)),
                                                   parent=S.world, transform=tf, pipelines=[pipe])
            sens = 2 * np.pi * (width / px[0]) ** 2
            ob.pixel_samples = 2
        else:
            h = float(c * 10 ** rng.uniform(-2.5, -1))
            mesh = Mesh([[-h, -h, 0], [h, -h, 0], [-h, h, 0], [h, h, 0]], [[0, 1, 2], [1, 3, 2]], smoothing=False, closed=False)
            ob = _recording(MeshCamera)(mesh, pipelines=[pipe], parent=S.world, transform=tf)
            sens = 2 * np.pi * 2 * h * h
            ob.pixel_samples = 2
        ob.fired = []
        ob.spectral_bins = bins
        ob.min_wavelength, ob.max_wavelength = 500.0, 501.0
        ob.spectral_rays = 1
        ob.quiet = True
        ob.render_engine = SerialEngine()
        return ob, sens

    names = ["fibre", "pixel", "ccd", "tccd", "mesh"]
    chosen = [names[i] for i in rng.permutation(len(names))[:2]]
    if "fibre" not in chosen and rng.random() < 0.4:
        chosen[0] = "fibre"
    for name in chosen:
        dim = {"fibre": 0, "pixel": 0, "ccd": 2, "tccd": 2, "mesh": 1}[name]
        P = [RayTransferPipeline0D, RayTransferPipeline1D, RayTransferPipeline2D][dim]
        for canon in ("radiance", "power"):
            spell = KIND_SPELLINGS[canon][int(rng.integers(0, 4))]
            via = ["ctor", "setter"][int(rng.integers(0, 2))]
            ctx.cls("observer:%s:%s" % (name, canon))
            try:
                if via == "ctor":
                    pipe = P(kind=spell)
                else:
                    pipe = P(kind="power" if canon == "radiance" else "radiance")
                    pipe.kind = spell
            except ValueError as e:
                ctx.check(False, "pipeline%dd:kind:legal-spelling-rejected:%s" % (dim, via), "a legal spelling of kind=%r raises ValueError (%s)" % (spell, str(e)[:80]),
                          monitor="observer_rows")
                continue
            ctx.check(isinstance(pipe.kind, str) and pipe.kind.lower() == canon, "pipeline%dd:kind:readback:%s" % (dim, via),
                      "kind read back is not the kind that was set", monitor="observer_rows", got=repr(pipe.kind), set=spell)
            ob, sens = build(name, pipe)
            if dim == 0 and abs(ob.sensitivity - sens) > 1e-6 * sens:
                raise AssertionError("C10 harness: independent sensitivity %r != observer.sensitivity %r (%s)" % (sens, ob.sensitivity, name))
            ob.observe()
            mat = np.array(pipe.matrix, dtype=float)
            to_root = ob.to_root()
            fired = ob.fired
            ob.parent = None
            # group the recorded rays by pixel
            groups = {}
            for key, lst in fired:
                groups.setdefault(key, []).extend(lst)
            factor = sens if canon == "power" else 1.0
            # raysect keeps mesh vertices in single precision and evaluates 1 - cos(a) with cancellation for a thin fibre
            rtol_sens = {"mesh": 3e-6, "fibre": 1e-6}.get(name, 1e-11)
            kbase = "observer:%s:pipeline%dd:%s" % (name, dim, canon)
            for key, lst in groups.items():
                row = mat if dim == 0 else mat[key]
                n = len(lst)
                mean_E = np.zeros(bins)
                lo = np.zeros(bins)
                hi = np.zeros(bins)
                tol = np.zeros(bins)
                sum_tol = 0.0
                exact_ok = True
                for org, dr, w in lst:
                    pw = org.transform(to_root)
                    vw = dr.transform(to_root)
                    ow_ = np.array([pw.x, pw.y, pw.z])
                    dw_ = _unit([vw.x, vw.y, vw.z])
                    E = np.array(Ray(pw, vw, min_wavelength=500.0, max_wavelength=501.0, bins=bins).trace(S.world).samples)
                    mean_E += w * E / n
                    an = G.analyse(g, R.T @ (ow_ - T), _unit(R.T @ dw_), step, ms, delta)
                    nsamp = (an.total_hi / an.dt) if an.dt > 0 else 0.0
                    sum_tol += w * (1e-13 + 4.4e-15 * (nsamp + 100.0) * an.total_hi)
                    if an.tangent_inner:
                        exact_ok = False
                    K = np.maximum(2, an.runs)
                    touched = active & (an.hi > 0)
                    lo += w / n * np.bincount(vflat[active], weights=an.lo[active], minlength=bins)
                    hi += w / n * np.bincount(vflat[active], weights=an.hi[active], minlength=bins)
                    tol += w / n * (np.bincount(vflat[touched], weights=K[touched], minlength=bins) * an.dt + atol)
                ctx.close(row, factor * mean_E, kbase + ":row-differs-from-%sweighted-mean-of-the-fired-rays" % ("sensitivity-x-" if canon == "power" else ""),
                          "matrix row of a %s pipeline on a detector with sensitivity %.3g is not %sthe weighted mean of the entries of the rays the "
                          "detector fired (traced directly)" % (canon, sens, "the sensitivity times " if canon == "power" else ""),
                          atol=factor * (sum_tol + 1e-13), rtol=rtol_sens if canon == "power" else 1e-12, monitor="observer_rows", spelling=spell, via=via, pixel=list(key), sensitivity=sens)
                if exact_ok:
                    _interval_check(ctx, "observer_chords", kbase + ":row-violates-exact-chords",
                                    "matrix row of a %s pipeline differs from the %sweighted mean of the exact chord lengths of the rays the detector "
                                    "fired by more than the summed per-cell allowance" % (canon, "sensitivity times the " if canon == "power" else ""),
                                    row / factor, lo, hi, tol, spelling=spell, via=via, pixel=list(key), sensitivity=sens, observer=name)
    for bad in ("irradiance", "", "radiance "):
        for dim, P in enumerate((RayTransferPipeline0D, RayTransferPipeline1D, RayTransferPipeline2D)):
            try:
                P(kind=bad)
                ctx.check(False, "pipeline%dd:kind:invalid-value-accepted" % dim, "kind=%r is accepted" % bad, monitor="observer_rows")
            except ValueError:
                ctx.mon("observer_rows")


class _MutModel:
    """What the object should now be, tracked from the public calls only."""
    def __init__(self, case, g):
        self.step = case["step"] if case["step"] is not None else 0.1 * g.min_cell
        self.ms = case["min_samples"]
        self.vmap = None                  # None = one source per cell
        self.is_mask = None
        self.M = matrix(case["transform"])
        self.node = None                  # matrix of an intermediate parent node


def _mut_map(params, shape, kind):
    vmap, mask = build_maps(dict(map=params), shape)
    if kind == "mask":
        out = np.full(mask.size, -1, dtype=np.int64)
        out[mask.ravel()] = np.arange(int(mask.sum()))
        return out.reshape(shape), mask
    return vmap, None


def _fresh_scene(case, g, model):
    """A brand-new object built in the canonical way (constructor arguments) with the model's current settings."""
    from raysect.optical import World, AffineMatrix3D
    from cherab.tools.raytransfer import RayTransferBox, RayTransferCylinder
    gd = case["grid"]
    sc = _Scene.__new__(_Scene)
    sc.world = World()
    Mw = model.M if model.node is None else model.node @ model.M
    kw = dict(step=model.step, parent=sc.world, transform=AffineMatrix3D(Mw.tolist()))
    if model.vmap is not None:
        if model.is_mask is not None:
            kw["mask"] = model.is_mask
        else:
            kw["voxel_map"] = model.vmap
    if gd["kind"] == "box":
        sc.rt = RayTransferBox(gd["xmax"], gd["ymax"], gd["zmax"], gd["nx"], gd["ny"], gd["nz"], **kw)
    else:
        sc.rt = RayTransferCylinder(gd["ro"], gd["h"], gd["nr"], gd["nz"], radius_inner=gd["ri"], n_polar=gd["nphi"],
                                    period=360.0 / gd["k"], **kw)
    if model.ms != 2:
        sc.rt.material.integrator.min_samples = model.ms
    return sc


def _mut_judge(ctx, case, g, sc, model, rays, what, compare_fresh=True, history=()):
    gd = case["grid"]
    ncell = g.ncell
    Mw = model.M if model.node is None else model.node @ model.M
    R, T = Mw[:3, :3], Mw[:3, 3]
    coord_scale = float(np.abs(T).max() + 4 * g.radius + 1.0)
    delta = DELTA0 + 1e-11 * coord_scale
    atol = 1e-9 + 1e-12 * coord_scale
    vflat = np.arange(ncell) if model.vmap is None else model.vmap.ravel()
    active = vflat > -1
    nb = int(vflat.max()) + 1
    # ---- state read back through the public properties --------------------------------------------------------
    ok = ctx.check(int(sc.rt.bins) == nb, "mutated:%s:bins" % what, "bins after the mutation != max(current map) + 1", monitor="mutated_state",
                   bins=int(sc.rt.bins), want=nb)
    ok &= ctx.check(np.array_equal(np.asarray(sc.rt.voxel_map).ravel(), vflat), "mutated:%s:voxel-map-readback" % what,
                    "voxel_map read back after the mutation is not the current map", monitor="mutated_state")
    ctx.check(abs(float(sc.rt.step) - model.step) <= 1e-15 * model.step and int(sc.rt.material.integrator.min_samples) == model.ms,
              "mutated:%s:step-readback" % what, "step / min_samples read back after the mutation are not the current values",
              monitor="mutated_state", got=float(sc.rt.step), want=model.step)
    if not ok:
        return False
    fresh = _fresh_scene(case, g, model) if compare_fresh else None
    if fresh is not None and int(fresh.rt.bins) != nb:
        fresh = None                       # (construction itself is judged by the ordinary cases)
    clean = True
    for i, r in enumerate(rays):
        ol = np.array(r["o"], dtype=float)
        dl = _unit(r["d"])
        ow = R @ ol + T
        dw = _unit(R @ dl)
        o2 = R.T @ (ow - T)
        d2 = _unit(R.T @ dw)
        an = G.analyse(g, o2, d2, model.step, model.ms, delta)
        ctx.cls("mut-ray:" + r["cls"])
        E = sc.trace(ow, dw)
        nsamp = (an.total_hi / an.dt) if an.dt > 0 else 0.0
        sum_atol = 1e-13 + 4.4e-15 * (nsamp + 100.0) * an.total_hi
        # ---- against a freshly constructed object with the current settings ---------------------------------
        if fresh is not None:
            F = fresh.trace(ow, dw)
            clean &= ctx.close(E, F, "mutated:%s:entries-differ-from-fresh-object" % what,
                               "entries of the object after public-setter mutations differ from those of a freshly constructed object "
                               "with the same final settings", atol=sum_atol, monitor="mutated_fresh", ray=i, ray_cls=r["cls"],
                               step=model.step, chord=an.total_hi, history=list(history))
        # ---- against the exact chords for the CURRENT settings -------------------------------------------------
        key = "mutated:%s:entries-violate-exact-chords" % what
        if an.tangent_inner:
            key = TANGENT_KEY if gd["ri"] > 0 else AXIS_HOLE_KEY
        if an.total_hi == 0.0:
            clean &= ctx.check(bool(np.all(E == 0.0)), "mutated:%s:miss-nonzero" % what, "a ray that misses the object has non-zero entries",
                               monitor="mutated_chords", ray_cls=r["cls"])
            continue
        K = np.maximum(2, an.runs)
        lo_s = np.bincount(vflat[active], weights=an.lo[active], minlength=nb)
        hi_s = np.bincount(vflat[active], weights=an.hi[active], minlength=nb)
        touched = an.hi > 0
        K_s = np.bincount(vflat[active & touched], weights=K[active & touched], minlength=nb)
        clean &= _interval_check(ctx, "mutated_chords", key,
                                 "after public-setter mutations an entry differs from the exact chord length of its source's cells by more "
                                 "than the summed per-cell allowance (max(2, visits) integration steps of the CURRENT step per cell)",
                                 E, lo_s, hi_s, K_s * an.dt + atol, ray=i, ray_cls=r["cls"], dt=an.dt, step=model.step,
                                 segments=an.segments, history=list(history))
        lo_a, hi_a, runs = G.active_bounds(an, active)
        clean &= _interval_check(ctx, "mutated_chords", key if an.tangent_inner else "mutated:%s:active-total" % what,
                                 "after public-setter mutations the entries do not sum to the chord length inside the active cells",
                                 np.array([E.sum()]), lo_a, hi_a, (runs + 1) * an.dt + atol, ray=i, ray_cls=r["cls"], runs=runs, dt=an.dt,
                                 step=model.step, segments=an.segments)
        if (an.lo > an.dt).any() and an.dt > 0:
            ctx.nontrivial()
    return clean


def _run_mutate(case, ctx):
    from raysect.optical import World, Node, AffineMatrix3D
    from cherab.tools.raytransfer.emitters import CartesianRayTransferIntegrator, CylindricalRayTransferIntegrator
    gd = case["grid"]
    g = G.make_grid(gd)
    ctx.cls("mutate:" + _geom_name(gd))
    model = _MutModel(case, g)
    vm0 = mk0 = None
    if case["map0"] is not None:
        vm0, mk0 = _mut_map({k: v for k, v in case["map0"].items() if k != "kind"}, g.shape, case["map0"]["kind"])
        model.vmap, model.is_mask = vm0, mk0
    sc = _Scene(case, g, model.M, voxel_map=vm0 if mk0 is None else None, mask=mk0)
    if case["warmup"]:
        _mut_judge(ctx, case, g, sc, model, case["warm_rays"], "construction", compare_fresh=False)
    pending = []
    history = []
    for op in case["ops"]:
        k = op["op"]
        if k == "step":
            label = "step-down" if op["value"] < model.step else "step-up"
            if op["via"] == "rt":
                sc.rt.step = op["value"]
            else:
                sc.rt.material.integrator.step = op["value"]
            model.step = op["value"]
        elif k == "min_samples":
            label = "min_samples"
            sc.rt.material.integrator.min_samples = op["value"]
            model.ms = op["value"]
        elif k == "integrator":
            label = "integrator"
            cls = CartesianRayTransferIntegrator if gd["kind"] == "box" else CylindricalRayTransferIntegrator
            sc.rt.material.integrator = cls(op["step"], op["min_samples"])
            model.step, model.ms = op["step"], op["min_samples"]
        elif k == "mask":
            label = "mask"
            if op.get("none"):
                sc.rt.mask = None
                model.vmap = model.is_mask = None
            else:
                vm, mk = _mut_map({x: op[x] for x in ("seed", "density", "merge", "gaps", "mask_density")}, g.shape, "mask")
                sc.rt.mask = mk
                model.vmap, model.is_mask = vm, mk
        elif k == "voxel_map":
            label = "voxel_map"
            vm, _ = _mut_map({x: op[x] for x in ("seed", "density", "merge", "gaps", "mask_density")}, g.shape, "voxel_map")
            sc.rt.voxel_map = vm
            model.vmap, model.is_mask = vm, None
        elif k == "transform":
            label = "transform"
            model.M = matrix(op["tr"])
            sc.rt.transform = AffineMatrix3D(model.M.tolist())
        elif k == "parent":
            label = "parent-" + op["how"]
            if op["how"] == "reattach":
                sc.rt.parent = None
                sc.rt.parent = sc.world
                model.node = None
            elif op["how"] == "new_world":
                sc.world = World()
                sc.rt.parent = sc.world
                model.node = None
            else:
                model.node = matrix(op["tr"])
                sc.rt.parent = Node(parent=sc.world, transform=AffineMatrix3D(model.node.tolist()))
        else:
            raise ValueError(k)
        ctx.cls("mut:" + label)
        pending.append(label)
        history.append(label)
        if op["judge"]:
            what = "+".join(sorted(set(pending)))
            clean = _mut_judge(ctx, case, g, sc, model, op["rays"], what, history=history)
            pending = []
            if not clean:
                return                     # later checkpoints would only repeat the first divergence under other names


def run_case(case, ctx):
    try:
        if case.get("mode") == "mutate":
            _run_mutate(case, ctx)
        else:
            _run_case(case, ctx)
    except _IndexOutOfRange as e:
        ctx.viol(("mutated:" if case.get("mode") == "mutate" else "") + "%s:integrator-index-out-of-range" % _geom_name(case["grid"]),
                 "IndexError inside the ray-transfer integrator while tracing an in-domain ray: a sample was assigned a cell / "
                 "source index outside the grid or the spectral array (%s)" % str(e)[:120])


def _run_case(case, ctx):
    gd = case["grid"]
    g = G.make_grid(gd)
    geom = _geom_name(gd)
    M = matrix(case["transform"])
    R, T = M[:3, :3], M[:3, 3]
    shape = g.shape
    ncell = g.ncell
    vmap, mask = build_maps(case, shape)
    step = case["step"] if case["step"] is not None else 0.1 * g.min_cell
    ms = case["min_samples"]
    coord_scale = float(np.abs(T).max() + 4 * g.radius + 1.0)
    delta = DELTA0 + 1e-11 * coord_scale
    atol = 1e-9 + 1e-12 * coord_scale
    ctx.cls(geom)
    ctx.cls("transform:" + case["transform"]["kind"])
    ctx.cls("step:" + ("default" if case["step"] is None else ("gt-cell" if step >= g.min_cell else "lt-cell")))
    ctx.cls("maps-via:" + case["path"])

    # ---------------- scene A: one source per cell, all cells active -------------------------------------
    A = _Scene(case, g, M)
    rt = A.rt
    ok = ctx.check(int(rt.bins) == ncell, "%s:bins:default-map" % geom,
                   "bins of a freshly built ray-transfer object != number of grid cells", monitor="bins", bins=int(rt.bins), ncell=ncell)
    vm0 = np.asarray(rt.voxel_map)
    ok &= ctx.check(vm0.shape == shape and np.array_equal(np.sort(vm0.ravel()), np.arange(ncell)), "%s:default-map-not-a-bijection" % geom,
                    "default voxel_map is not a one-source-per-cell map", monitor="bins")
    if not ok:
        return
    ident = vm0.ravel().astype(int)          # cell (C order) -> source of the default map
    ctx.check(abs(float(rt.step) - step) <= 1e-15 * step, "%s:step-not-applied" % geom, "rt.step differs from the requested/default step",
              monitor="bins", got=float(rt.step), want=step)

    rays = []
    for r in case["rays"]:
        ol = np.array(r["o"], dtype=float)
        dl = _unit(r["d"])
        ow = R @ ol + T
        dw = _unit(R @ dl)
        # the oracle starts again from the world ray
        o2 = R.T @ (ow - T)
        d2 = _unit(R.T @ dw)
        an = G.analyse(g, o2, d2, step, ms, delta)
        # same sample points in every trace of this ray; only the order of the floating-point additions differs
        # (res += dt over n samples, then += into the bin): n * eps * L
        nsamp = (an.total_hi / an.dt) if an.dt > 0 else 0.0
        rays.append(dict(cls=r["cls"], ow=ow, dw=dw, o=o2, d=d2, an=an,
                         sum_atol=1e-13 + 4.4e-15 * (nsamp + 100.0) * an.total_hi))

    n_xcheck = 0
    for i, r in enumerate(rays):
        an = r["an"]
        ctx.cls("ray:" + r["cls"])
        E = A.trace(r["ow"], r["dw"])
        Ecell = E[ident]
        r["E"] = Ecell
        r["E_raw"] = E
        L = an.total_hi
        K = np.maximum(2, an.runs)
        tol = K * an.dt + atol
        rk = "generic-ray" if r["cls"] in ("random", "inside", "miss") else "hostile-ray"     # the exact class is in the detail
        key_cls = "%s:cell-chord:%s" % (geom, rk)
        key_tot = "%s:total-chord:%s" % (geom, rk)
        key_per = "%s:periodicity:%s" % (geom, rk)
        r["key_act"] = None
        if an.tangent_inner:
            # mechanism of its own (raysect CSG, see known findings): keep judging, but under a dedicated key
            key_cls = key_tot = key_per = r["key_act"] = (TANGENT_KEY if gd["ri"] > 0 else AXIS_HOLE_KEY)
            ctx.mon("tangent_to_inner_surface")
        r["key_per"] = key_per
        if L == 0.0:
            ctx.check(bool(np.all(E == 0.0)), "%s:miss-nonzero" % geom, "a ray that misses the object has non-zero entries",
                      monitor="miss", total=float(E.sum()), ray_cls=r["cls"])
            continue
        good = _interval_check(ctx, "cell", key_cls,
                               "matrix entry differs from the exact chord length in its cell by more than max(2, visits) integration steps",
                               Ecell, an.lo, an.hi, tol, dt=an.dt, ray=i, ray_cls=r["cls"], o_local=r["o"].tolist(), d_local=r["d"].tolist(),
                               segments=an.segments)
        exceed2 = np.maximum(np.maximum(an.lo - Ecell, Ecell - an.hi), 0.0) > 2 * an.dt + atol
        if good and exceed2.any():
            ctx.skip("cell visited > 2 times (periodic replicas): judged with visits*dt instead of 2*dt")
        t_tol = 1e-7 * L + atol
        _interval_check(ctx, "total", key_tot,
                        "entries of the all-active map do not sum to the chord length inside the bounding primitive",
                        np.array([Ecell.sum()]), an.total_lo, an.total_hi, t_tol, ray=i, ray_cls=r["cls"], segments=an.segments, dt=an.dt)
        if an.dropped_short:
            ctx.mon("short_segment_may_be_skipped", an.dropped_short)
        if (an.lo > an.dt).any() and an.dt > 0:
            ctx.nontrivial()
        # independent cross-check of the oracle by fine sampling (harness consistency, not a verdict on the code)
        if an.tmax > 0 and (i % 2 == 0 or ctx.tier == "quick"):
            nsteps = max(ms, int(an.tmax / step))
            N = int(min(max(200 * nsteps, 20000), 300000))
            F, h = G.fine_sample(g, r["o"], r["d"], an.tmax, N)
            slack = (an.runs + 2) * 2 * h + atol
            if np.any(F < an.lo_geom - slack) or np.any(F > an.hi + slack):
                j = int(np.argmax(np.maximum(an.lo_geom - F, F - an.hi)))
                raise AssertionError("C10 oracle self-check failed: analytic chord interval [%r, %r] vs fine sampling %r in cell %d "
                                     "(h=%g)" % (an.lo_geom[j], an.hi[j], F[j], j, h))
            ctx.mon("oracle_xcheck", 1)
            n_xcheck += 1

    # ---------------- pipelines: the same rays observed through RayTransferPipeline2D / 0D -----------------------
    if case.get("_caseno", 0) % 3 == 0:
        _check_pipelines(ctx, A, rays, geom)
        _check_pipeline_aliasing(ctx, case, g, M, rays, geom)

    # ---------------- periodicity: the ray rotated by the period about the axis ---------------------------
    if gd["kind"] == "cyl":
        per = np.radians(360.0 / gd["k"])
        for i, r in enumerate(rays):
            an = r["an"]
            if an.total_hi == 0.0:
                continue
            mult = 1 + (i % max(gd["k"], 1)) if gd["k"] > 1 else 1
            c, s = np.cos(per * mult), np.sin(per * mult)
            Rz = np.array([[c, -s, 0], [s, c, 0], [0, 0, 1.0]])
            o3 = Rz @ r["o"]
            d3 = Rz @ r["d"]
            E3 = A.trace(R @ o3 + T, _unit(R @ d3))[ident]
            width = an.hi - an.lo
            K = np.maximum(2, an.runs)
            # (i) the rotated ray must satisfy the same exact chord bounds (they are periodic in phi)
            _interval_check(ctx, "periodicity_chords", r["key_per"] + ":rotated-ray-vs-exact-chords" if r["key_per"] not in TANGENT_KEYS else r["key_per"],
                            "entries of the ray rotated by a multiple of the period differ from the exact chord lengths of the unrotated ray "
                            "by more than max(2, visits) integration steps", E3, an.lo, an.hi, K * an.dt + atol, ray=i, ray_cls=r["cls"], multiple=mult, dt=an.dt)
            # (ii) differential: same sample points up to rounding, so only samples within rounding of a cell face can move
            #      (two faces per visit); where the ray runs along a face (wide ambiguity) only the chord bounds apply
            flips = np.where(width > 0.5 * an.dt, 2 * K, 2 * np.maximum(1, an.runs))
            _interval_check(ctx, "periodicity", r["key_per"],
                            "entries change by more than two integration steps per visit when the ray is rotated by a multiple of the period about the axis",
                            E3, r["E"] - width, r["E"] + width, flips * an.dt + atol, ray=i, ray_cls=r["cls"], multiple=mult, dt=an.dt)

    # ---------------- voxel map with -1 / merged / unused sources ------------------------------------------
    path = case["path"]
    vflat = vmap.ravel()
    nb_want = int(vflat.max()) + 1
    if path == "setter":
        B = A
        B.rt.voxel_map = vmap
    elif path == "ctor":
        B = _Scene(case, g, M, voxel_map=vmap)
    else:
        B = _Scene(case, g, M, voxel_map=vmap, mask=mask)      # documented: mask ignored when voxel_map is given
    okb = ctx.check(int(B.rt.bins) == nb_want, "%s:bins:voxel_map:%s" % (geom, path), "bins != max(voxel_map) + 1", monitor="bins",
                    bins=int(B.rt.bins), want=nb_want)
    okb &= ctx.check(np.array_equal(np.asarray(B.rt.voxel_map), vmap), "%s:voxel-map-readback:%s" % (geom, path),
                     "voxel_map read back differs from the map that was set", monitor="bins")
    okb &= ctx.check(np.array_equal(np.asarray(B.rt.mask), vmap > -1), "%s:mask-readback-of-voxel-map:%s" % (geom, path),
                     "mask read back is not (voxel_map > -1)", monitor="bins")
    active = vflat > -1
    if okb:
        for i, r in enumerate(rays):
            an = r["an"]
            if an.total_hi == 0.0:
                continue
            V = B.trace(r["ow"], r["dw"])
            want = np.zeros(nb_want)
            np.add.at(want, vflat[active], r["E"][active])
            L = an.total_hi
            ctx.close(V, want, "%s:voxel-map-additivity:%s" % (geom, path),
                      "entry of a (merged) source differs from the sum of its cells' entries under the one-source-per-cell map "
                      "(cells mapped to -1 must contribute nothing)", atol=r["sum_atol"], monitor="additivity", ray=i, ray_cls=r["cls"])
            lo_a, hi_a, runs = G.active_bounds(an, active)
            _interval_check(ctx, "active_total", r["key_act"] or "%s:active-total:voxel_map" % geom,
                            "entries do not sum to the chord length inside the active cells",
                            np.array([V.sum()]), lo_a, hi_a, (runs + 1) * an.dt + atol, ray=i, ray_cls=r["cls"], runs=runs, dt=an.dt)

        _check_emission_function(ctx, case, g, B, vmap, geom)

    # ---------------- mask ------------------------------------------------------------------------------------
    mflat = mask.ravel()
    if path == "setter":
        C = B
        C.rt.mask = mask
    else:
        C = _Scene(case, g, M, mask=mask)
    nm = int(mflat.sum())
    vm = np.asarray(C.rt.voxel_map).ravel().astype(int)
    okc = ctx.check(int(C.rt.bins) == nm, "%s:bins:mask:%s" % (geom, path), "bins != number of True mask cells", monitor="bins",
                    bins=int(C.rt.bins), want=nm)
    okc &= ctx.check(np.array_equal(np.asarray(C.rt.mask), mask), "%s:mask-readback:%s" % (geom, path), "mask read back differs from the mask set",
                     monitor="bins")
    okc &= ctx.check(bool(np.all(vm[~mflat] == -1)) and np.array_equal(np.sort(vm[mflat]), np.arange(nm)),
                     "%s:mask-map-not-one-source-per-active-cell:%s" % (geom, path),
                     "voxel_map derived from the mask is not -1 outside / a bijection onto range(bins) inside the mask", monitor="bins")
    if okc:
        for i, r in enumerate(rays):
            an = r["an"]
            if an.total_hi == 0.0:
                continue
            Mk = C.trace(r["ow"], r["dw"])
            L = an.total_hi
            ctx.close(Mk[vm[mflat]], r["E"][mflat], "%s:mask-restriction:%s" % (geom, path),
                      "entry of an active cell under the mask differs from its entry without mask", atol=r["sum_atol"],
                      monitor="mask", ray=i, ray_cls=r["cls"])
            lo_a, hi_a, runs = G.active_bounds(an, mflat)
            _interval_check(ctx, "active_total", r["key_act"] or "%s:active-total:mask" % geom,
                            "entries do not sum to the chord length inside the active (masked-in) cells",
                            np.array([Mk.sum()]), lo_a, hi_a, (runs + 1) * an.dt + atol, ray=i, ray_cls=r["cls"], runs=runs, dt=an.dt)

    # ---------------- pipeline kinds x detectors with non-unit sensitivity ----------------------------------------
    if case.get("_caseno", 1) % 3 == 1:
        _check_observers(ctx, case, g, M, rays, geom, vmap)

    # ---------------- aliasing of arrays handed in / handed out -------------------------------------------------
    _check_aliasing(ctx, case, g, M, rays, geom, vmap, mask)

    # ---------------- other memory layouts / dtypes of the same map -------------------------------------------
    if case.get("layout"):
        kind, arr = layout_variant(case["layout"], vmap, mask)
        ctx.cls("layout:" + case["layout"])
        D = A if path == "setter" else _Scene(case, g, M)
        try:
            if kind == "voxel_map":
                D.rt.voxel_map = arr
                want_map = vmap
            else:
                D.rt.mask = arr
                want_map = None
        except ValueError as e:
            noncontig = not arr.flags["C_CONTIGUOUS"]
            ctx.check(False, ("%s-setter:rejects-non-C-contiguous-array" % kind) if noncontig else
                      ("%s-setter:rejects-valid-array:%s" % (kind, case["layout"])),
                      "setter raises ValueError for a map of the right shape and values (%s)" % str(e)[:120], monitor="layout",
                      flags=str(arr.flags).replace("\n", " "), dtype=str(arr.dtype))
            return
        if want_map is not None:
            good = ctx.check(int(D.rt.bins) == nb_want and np.array_equal(np.asarray(D.rt.voxel_map), want_map),
                             "voxel_map-setter:layout-changes-map:%s" % case["layout"], "map/bins differ when the same map is given in another layout",
                             monitor="layout")
        else:
            good = ctx.check(int(D.rt.bins) == nm and np.array_equal(np.asarray(D.rt.mask), mask),
                             "mask-setter:layout-changes-map:%s" % case["layout"], "mask/bins differ when the same mask is given in another layout",
                             monitor="layout")
        if good:
            for i, r in enumerate(rays[:3]):
                if r["an"].total_hi == 0.0:
                    continue
                S = D.trace(r["ow"], r["dw"])
                if want_map is not None:
                    want = np.zeros(nb_want)
                    np.add.at(want, vflat[active], r["E"][active])
                else:
                    want = np.zeros(nm)
                    want[np.asarray(D.rt.voxel_map).ravel()[mflat]] = r["E"][mflat]
                ctx.close(S, want, "%s-setter:layout-changes-entries:%s" % (kind, case["layout"]),
                          "entries differ when the same map is given in another memory layout / dtype", atol=r["sum_atol"],
                          monitor="layout", ray=i)
