"""C01 — plasma/beam/laser changes never leave stale derived state.

Monitor shape: history + executable model (differential).  A random history of public mutators, interleaved with
observations, is applied to a live scene; at every observation a brand-new scene is built from the *modelled*
configuration in canonical order and observed with the same probes.  Any difference (values or exception type) is
a violation; the failing history is shrunk (greedy one-op deletion to a fixpoint) and the set of mutator kinds left,
plus the observable kind, is the mechanism key.
"""
import copy
import time

import numpy as np

ID = "C01"
LEVEL = "exploration"
RULE = ("random initial configuration (plasma with 2-6 species and linear profiles, optional beam with SingleRayAttenuator, "
        "optional laser with Thomson model; passive, beam and laser models attached) followed by a random history of "
        "1-10 public mutators with interleaved observations (ray traces along a fan of sight lines, beam density "
        "samples); every observation is compared with the same observation on a scene built from scratch from the "
        "modelled configuration. distinct = distinct (configuration, history); non-trivial = at least one mutator is "
        "applied after at least one observation and the final fresh observation is non-zero on some probe")
LEVEL_TEXT = ("Exploration by differential runtime monitoring of the real scene graph: live mutated scene vs fresh scene "
              "from the modelled final configuration, at every observation point of thousands of random histories")
LEVEL_NOTE = ("trusted: the configuration model in vf/scene.py (documented setter semantics) and the canonical fresh-build "
              "order (the one the repository's own tests/demos use); mock atomic data in vf/mockad.py")
TECHNIQUE = "runtime monitoring: sequential history + executable configuration model, differential fresh-vs-mutated scene"
ASSUMPTIONS = ["a scene built in canonical order (nodes, parameters, attenuator, models; no observation in between) is the reference",
               "supported changes = public property setters, composition/model managers, transform/parent, attenuator attributes"]
ENGINES = ["scene", "mockad"]
QUICK = dict(cases=900, workers=4, timecap=50)
THOROUGH = dict(cases=40000, workers=16, timecap=900)
ASAN_MODULES = ["cherab.core.model.lineshape.gaussian", "cherab.core.model.lineshape.zeeman", "cherab.core.model.lineshape.beam.mse",
                "cherab.core.model.plasma.impact_excitation", "cherab.core.model.plasma.recombination",
                "cherab.core.model.plasma.thermal_cx", "cherab.core.model.plasma.bremsstrahlung",
                "cherab.core.model.plasma.total_radiated_power", "cherab.core.model.beam.charge_exchange",
                "cherab.core.model.beam.beam_emission", "cherab.core.model.attenuator.singleray",
                "cherab.core.model.laser.model", "cherab.core.model.laser.math_functions", "cherab.core.model.laser.laserspectrum"]
ASAN = dict(cases=400, workers=8, timecap=300)
REQUIRED = {"observations_compared": 300, "mutators_applied": 300, "fresh_builds": 100, "notifier_callbacks_checked": 100}

SPECIES_POOL = [("deuterium", 0), ("deuterium", 1), ("hydrogen", 0), ("helium", 1), ("helium", 2), ("carbon", 5),
                ("carbon", 6), ("neon", 9), ("neon", 10)]
PMODELS = [
    (dict(kind="exc", el="carbon", q=5, tr=[8, 7]), [("carbon", 5)]),
    (dict(kind="exc", el="deuterium", q=0, tr=[3, 2]), [("deuterium", 0)]),
    (dict(kind="exc", el="helium", q=1, tr=[4, 3]), [("helium", 1)]),
    (dict(kind="rec", el="carbon", q=5, tr=[8, 7]), [("carbon", 6)]),
    (dict(kind="rec", el="deuterium", q=0, tr=[4, 2]), [("deuterium", 1)]),
    (dict(kind="tcx", el="carbon", q=5, tr=[7, 6]), [("carbon", 6)]),
    (dict(kind="tcx", el="neon", q=9, tr=[11, 10]), [("neon", 10)]),
    (dict(kind="brems"), []),
    (dict(kind="trp", el="carbon", q=5), [("carbon", 5), ("carbon", 6)]),
    (dict(kind="trp", el="deuterium", q=0), [("deuterium", 0), ("deuterium", 1)]),
]
BMODELS = [
    (dict(kind="bcx", el="carbon", q=5, tr=[8, 7]), [("carbon", 6)]),
    (dict(kind="bcx", el="neon", q=9, tr=[11, 10]), [("neon", 10)]),
    (dict(kind="bcx", el="helium", q=1, tr=[4, 3]), [("helium", 2)]),
    (dict(kind="bes"), []),
]
BEAM_ELEMENTS = ["deuterium", "hydrogen", "tritium"]


# ------------------------------------------------------------------------------------------------
# generators
# ------------------------------------------------------------------------------------------------

def _r(x, n=6):
    return float("%.*g" % (n, x))


def g_T(rng, tscale=0.15, ascale=40.0):
    if rng.random() < 0.15:
        return [0.0, 0.0, 0.0, 0.0, 0.0, 0.0]
    return [_r(v) for v in list(rng.uniform(-tscale, tscale, 3)) + list(rng.uniform(-ascale, ascale, 3))]


def g_prof(rng, lo, hi, grad=0.3):
    c0 = 10 ** rng.uniform(lo, hi)
    if rng.random() < 0.2:
        return [_r(c0), 0.0, 0.0, 0.0]
    return [_r(c0)] + [_r(v) for v in rng.uniform(-grad, grad, 3)]


def g_dist(rng, nlo=17.5, nhi=19.5):
    v = [0.0, 0.0, 0.0] if rng.random() < 0.4 else [_r(x) for x in rng.uniform(-8e4, 8e4, 3)]
    return dict(n=g_prof(rng, nlo, nhi), t=g_prof(rng, 0.7, 3.0, grad=0.2), v=v)


def g_species(rng, elq):
    return dict(el=elq[0], q=elq[1], dist=g_dist(rng, 16.5, 19.0))


def g_geom(rng):
    k = ["sphere", "box", "cyl"][int(rng.integers(3))]
    if k == "sphere":
        return dict(kind="sphere", r=_r(rng.uniform(0.25, 0.6)))
    if k == "box":
        return dict(kind="box", h=[_r(v) for v in rng.uniform(0.2, 0.5, 3)])
    return dict(kind="cyl", r=_r(rng.uniform(0.25, 0.5)), h=_r(rng.uniform(0.3, 0.8)))


def g_shape(rng, m):
    m = dict(m)
    if m["kind"] == "brems":
        if rng.random() < 0.4:
            m["gaunt"] = "AB"[int(rng.integers(2))]
        if rng.random() < 0.3:
            m["quad"] = _r(10 ** rng.uniform(-6, -3))
        return m
    if m["kind"] in ("exc", "rec", "tcx", "bcx"):
        u = rng.random()
        if u < 0.25:
            m["shape"] = "zeeman"
            m["pol"] = ["no", "pi", "sigma"][int(rng.integers(3))]
        elif u < 0.33:
            m["shape"] = "stark"
            m["pol"] = ["no", "pi", "sigma"][int(rng.integers(3))]
            m["stark"] = [_r(10 ** rng.uniform(-17, -15.5)), _r(rng.uniform(0.6, 0.8)), _r(rng.uniform(0.01, 0.05))]
        elif u < 0.45:
            n = int(rng.integers(2, 5))
            w = np.sort(rng.uniform(430, 670, n))
            ratios = rng.integers(1, 9, n).astype(float)
            ratios = ratios / ratios.sum()
            # the constructor demands an exact unit sum
            ratios[-1] = 1.0 - ratios[:-1].sum()
            if ratios.sum() == 1.0 and (ratios > 0).all():
                m["shape"] = "multiplet"
                m["multiplet"] = [[float(x) for x in w], [float(x) for x in ratios]]
    return m


def g_att(rng):
    return dict(step=_r(10 ** rng.uniform(-2.3, -0.8)), clamp_to_zero=bool(rng.random() < 0.5),
                clamp_sigma=_r(rng.uniform(2.0, 6.0)))


def g_bvec(rng):
    if rng.random() < 0.1:
        return [0.0, 0.0, 0.0]
    return [_r(v) for v in rng.uniform(-3, 3, 3)]


def g_pol(rng):
    v = rng.normal(size=3)
    v[2] *= 0.2
    v = v / np.linalg.norm(v)
    return [_r(x) for x in v]


def g_profile(rng, kind=None):
    kind = kind or ["uniform", "bivariate", "trivariate", "gbeam"][int(rng.integers(4))]
    pr = dict(kind=kind, pol=g_pol(rng), laser_length=_r(rng.uniform(0.6, 1.6)), laser_radius=_r(rng.uniform(0.015, 0.06)))
    if kind == "uniform":
        pr["energy_density"] = _r(10 ** rng.uniform(-1, 2))
    else:
        pr["pulse_energy"] = _r(10 ** rng.uniform(-1, 1))
        pr["pulse_length"] = _r(10 ** rng.uniform(-9, -8))
    if kind in ("bivariate", "trivariate"):
        pr["stddev_x"] = _r(rng.uniform(0.005, 0.03))
        pr["stddev_y"] = _r(rng.uniform(0.005, 0.03))
    if kind == "trivariate":
        pr["mean_z"] = _r(rng.uniform(0.2, 1.0))
        pr["pulse_length"] = _r(10 ** rng.uniform(-9.3, -8.7))
    if kind == "gbeam":
        pr["waist_z"] = _r(rng.uniform(-0.2, 1.2))
        pr["stddev_waist"] = _r(rng.uniform(0.002, 0.02))
        pr["laser_wavelength"] = _r(rng.uniform(500, 1100))
    return pr


def g_spectrum(rng, kind=None):
    kind = kind or ["constant", "gaussian"][int(rng.integers(2))]
    c = rng.uniform(500, 600)
    w = 10 ** rng.uniform(-1, 1)
    sp = dict(kind=kind, min_wavelength=_r(c - w), max_wavelength=_r(c + w), bins=int(rng.integers(1, 6)))
    if kind == "gaussian":
        sp["mean"] = _r(c + rng.uniform(-0.5, 0.5) * w)
        sp["stddev"] = _r(w * rng.uniform(0.1, 1.0))
    return sp


def pick_models(rng, table, n):
    idx = rng.permutation(len(table))[:n]
    return [table[int(i)] for i in idx]


def gen_notifier_case(rng):
    n = int(rng.integers(2, 7))
    ops = []
    for _ in range(int(rng.integers(4, 40))):
        u = rng.random()
        i = int(rng.integers(n))
        if u < 0.35:
            ops.append(["add", i])
        elif u < 0.45:
            ops.append(["remove", i])
        elif u < 0.62:
            ops.append(["delete", i])
        elif u < 0.72:
            ops.append(["recreate", i])
        else:
            ops.append(["notify"])
    ops.append(["notify"])
    return dict(kind="notifier", n=n, kinds=[["method", "function"][int(rng.integers(2))] for _ in range(n)], ops=ops)


def gen_case(rng, tier):
    case = _gen_case(rng, tier)
    if "history" in case and rng.random() < 0.4:
        # observations through different spectral windows (ranges / bin counts): what one window cached must not leak into the next
        for op in case["history"]:
            if op.get("op") == "observe" and rng.random() < 0.6:
                op["win"] = int(rng.integers(1, 4))
    return case


def _gen_case(rng, tier):
    if rng.random() < 0.12:
        return gen_notifier_case(rng)
    has_beam = rng.random() < 0.6
    has_laser = rng.random() < (0.35 if has_beam else 0.6)
    n_pm = int(rng.integers(0, 4)) if (has_beam or has_laser) else int(rng.integers(1, 4))
    pm = pick_models(rng, PMODELS, n_pm)
    # a beam may carry no emission model at all: its density is still observable (and must still follow every change)
    bm = pick_models(rng, BMODELS, int(rng.integers(0, 3))) if has_beam else []
    need = {("deuterium", 1)}
    for _, req in pm + bm:
        need.update(req)
    extra = [SPECIES_POOL[int(i)] for i in rng.permutation(len(SPECIES_POOL))[:int(rng.integers(0, 4))]]
    sp = list(dict.fromkeys(sorted(need) + extra))
    sp = [sp[int(i)] for i in rng.permutation(len(sp))]
    cfg = dict(
        node_transform=g_T(rng),
        plasma=dict(parent=["world", "node"][int(rng.integers(2))], transform=g_T(rng), atomic_data="AB"[int(rng.integers(2))],
                    integrator_step=_r(rng.uniform(0.015, 0.04)), geometry=g_geom(rng),
                    geometry_transform=None if rng.random() < 0.5 else g_T(rng, 0.1, 30),
                    b_field=g_bvec(rng), electrons=g_dist(rng, 18.5, 19.8), species=[g_species(rng, s) for s in sp],
                    models=[g_shape(rng, m) for m, _ in pm]),
        beam=None)
    if has_beam:
        cfg["beam"] = dict(parent=["world", "node"][int(rng.integers(2))],
                           transform=[_r(v) for v in list(rng.uniform(-0.1, 0.1, 2)) + [rng.uniform(-0.9, -0.4)] + list(rng.uniform(-15, 15, 3))],
                           atomic_data="AB"[int(rng.integers(2))], energy=_r(10 ** rng.uniform(4, 5.2)), power=_r(10 ** rng.uniform(4, 6.5)),
                           temperature=_r(rng.uniform(0, 20)), element=BEAM_ELEMENTS[int(rng.integers(3))],
                           sigma=_r(rng.uniform(0.02, 0.08)), divergence_x=_r(rng.choice([0.0, rng.uniform(0, 3)])),
                           divergence_y=_r(rng.choice([0.0, rng.uniform(0, 3)])), length=_r(rng.uniform(0.8, 1.6)),
                           attenuator=g_att(rng), integrator_step=_r(rng.uniform(0.01, 0.03)),
                           models=[g_shape(rng, dict(m, el=None) if False else m) for m, _ in bm])
        for m in cfg["beam"]["models"]:
            if m["kind"] == "bes":
                m["el"] = cfg["beam"]["element"]
    if has_laser:
        cfg["laser"] = dict(parent=["world", "node"][int(rng.integers(2))],
                            transform=[_r(v) for v in list(rng.uniform(-0.1, 0.1, 2)) + [rng.uniform(-0.9, -0.4)] + list(rng.uniform(-15, 15, 3))],
                            importance=_r(rng.uniform(0.0, 5.0)), integrator_step=_r(rng.uniform(0.01, 0.03)),
                            profile=g_profile(rng), spectrum=g_spectrum(rng),
                            models=[dict(kind="thomson")] if rng.random() < 0.85 else [])
    # probes: rays from a sphere of radius 3 towards the central region, plus rays across the nominal beam path
    rays = []
    for i in range(5):
        o = rng.normal(size=3)
        o = 3.0 * o / np.linalg.norm(o)
        tgt = rng.uniform(-0.2, 0.2, 3)
        if has_beam and i >= 3:
            tgt = np.array([0.0, 0.0, rng.uniform(-0.3, 0.5)]) + rng.uniform(-0.05, 0.05, 3)
        if has_laser and i in (1, 2):
            # a point on the laser axis in its initial placement (world frame, ignoring the intermediate node)
            from vf import scene as _sc
            zz = rng.uniform(0.1, 0.9) * cfg["laser"]["profile"]["laser_length"]
            m = _sc.T(cfg["laser"]["transform"])
            if cfg["laser"]["parent"] == "node":
                m = _sc.T(cfg["node_transform"]) * m
            q = _sc.Point3D(0, 0, zz).transform(m)
            tgt = np.array([q.x, q.y, q.z]) + rng.uniform(-0.3, 0.3, 3) * cfg["laser"]["profile"]["laser_radius"]
        d = tgt - o
        d = d / np.linalg.norm(d)
        rays.append([[_r(v, 9) for v in o], [_r(v, 9) for v in d]])
    pts = [[_r(rng.uniform(-0.08, 0.08)), _r(rng.uniform(-0.08, 0.08)), _r(rng.uniform(0.05, 1.7))] for _ in range(4)]
    probes = dict(rays=rays, beam_points=pts)
    # history
    hist = []
    sim = copy.deepcopy(cfg)
    if rng.random() < 0.3:
        # template: observe, replace an object (its dependants die), observe, change state the caches depend on, observe
        def pick(kinds):
            for _ in range(40):
                op = gen_op(rng, sim)
                if op is not None and op["op"] in kinds:
                    return op
            return None
        hist.append(dict(op="observe"))
        if rng.random() < 0.35:
            # "re-attach the same object, then change that object": the dependants' subscriptions must survive
            pairs = [("p_geometry", "p_geom_transform"), ("p_electrons", "p_comp_add"), ("p_models", "p_comp_add"), ("p_composition", "p_atomic")]
            if sim.get("beam") is not None:
                pairs += [("b_attenuator", "att_step"), ("b_attenuator", "att_clamp_sigma"), ("b_plasma", "p_comp_add"), ("b_plasma", "p_transform"),
                          ("b_models", "b_energy"), ("b_element", "b_transform")] * 2
            if sim.get("laser") is not None:
                pairs += [("l_profile", "lp_set"), ("l_profile", "lp_set"), ("l_spectrum", "ls_set"), ("l_plasma", "p_electrons"), ("l_plasma", "p_transform"),
                          ("l_models", "lp_set"), ("l_integrator", "l_transform")] * 3
            what, follow = pairs[int(rng.integers(len(pairs)))]
            for _ in range(int(rng.integers(1, 3))):
                hist.append(dict(op="same", what=what))
            if rng.random() < 0.5:
                hist.append(dict(op="observe"))
            op = None
            for _ in range(60):
                cand = gen_op(rng, sim)
                if cand is not None and cand["op"] == follow:
                    if follow == "lp_set" and what == "l_profile" and cand["attr"] not in ("laser_length", "laser_radius") and rng.random() < 0.7:
                        continue
                    op = cand
                    break
            if op is not None:
                hist.append(op)
                _sim_apply(sim, op)
            hist.append(dict(op="observe"))
            return dict(cfg=cfg, probes=probes, history=hist)
        for kinds, obs_p in ((REPLACING_OPS, 0.7), (STATE_OPS, 0.5), (STATE_OPS, 1.0)):
            for _ in range(int(rng.integers(1, 3))):
                op = pick(kinds)
                if op is not None:
                    hist.append(op)
                    _sim_apply(sim, op)
            if rng.random() < obs_p:
                hist.append(dict(op="observe"))
        if hist[-1]["op"] != "observe":
            hist.append(dict(op="observe"))
        return dict(cfg=cfg, probes=probes, history=hist)
    if rng.random() < 0.22:
        # single-change template: observe, ONE change whose kind is drawn uniformly over the kinds this scene supports (the
        # uniform histories draw kinds by weight, so rarely drawn setters seldom follow an observation directly), observe
        cands = {}
        for _ in range(150):
            op = gen_op(rng, sim)
            if op is not None and op["op"] != "same":
                cands.setdefault(op["op"], op)
        kinds = sorted(cands)
        if kinds:
            # setters of the models themselves count three times
            kinds = kinds + [k for k in kinds if k in ("bm_line", "pm_gaunt", "pm_quad", "lp_pol", "ls_set", "lp_set")] * 2
            op = cands[kinds[int(rng.integers(len(kinds)))]]
            hist.append(dict(op="observe"))
            hist.append(op)
            _sim_apply(sim, op)
            hist.append(dict(op="observe"))
            if rng.random() < 0.3:
                op2 = gen_op(rng, sim)
                if op2 is not None:
                    hist.append(op2)
                    _sim_apply(sim, op2)
                    hist.append(dict(op="observe"))
            return dict(cfg=cfg, probes=probes, history=hist)
    nops = int(rng.integers(1, 11))
    if rng.random() < 0.75:
        hist.append(dict(op="observe"))
    for _ in range(nops):
        op = gen_op(rng, sim)
        if op is None:
            continue
        hist.append(op)
        _sim_apply(sim, op)
        if rng.random() < 0.3:
            hist.append(dict(op="observe"))
    hist.append(dict(op="observe"))
    return dict(cfg=cfg, probes=probes, history=hist)


def _sim_apply(sim, op):
    """configuration-only application (no live scene) used while generating, to keep later ops applicable"""
    from vf import scene  # noqa
    class _Dummy:  # minimal stand-in so scene.apply's live part is skipped
        pass
    k = op["op"]
    pc, bc = sim["plasma"], sim.get("beam")
    if k == "p_comp_add":
        scene._comp_add(pc["species"], op["sp"])
    elif k in ("p_comp_set", "p_comp_assign"):
        pc["species"] = scene._comp_set(op["list"])
    elif k == "p_comp_clear":
        pc["species"] = []
    elif k in ("p_models_set", "p_models_assign"):
        pc["models"] = list(op["list"])
    elif k == "p_models_add":
        pc["models"].append(op["m"])
    elif k == "p_models_clear":
        pc["models"] = []
    elif k in ("b_models_set", "b_models_assign"):
        bc["models"] = list(op["list"])
    elif k == "b_models_add":
        bc["models"].append(op["m"])
    elif k == "b_models_clear":
        bc["models"] = []
    elif k == "bm_line":
        if bc["models"][op["i"]]["kind"] == "bes":
            bc["models"][op["i"]] = dict(bc["models"][op["i"]], tr=op["tr"])
        else:
            bc["models"][op["i"]] = dict(bc["models"][op["i"]], el=op["el"], q=op["q"], tr=op["tr"])
    elif k == "b_element":
        bc["element"] = op["v"]
    elif k == "pm_gaunt":
        pc["models"][op["i"]] = dict(pc["models"][op["i"]], gaunt=op["tag"])
    elif k == "pm_quad":
        pc["models"][op["i"]] = dict(pc["models"][op["i"]], quad=op["v"])
    elif k == "l_profile":
        sim["laser"]["profile"] = dict(op["pr"])
    elif k == "l_spectrum":
        sim["laser"]["spectrum"] = dict(op["sp"])
    elif k == "lp_pol":
        sim["laser"]["profile"]["pol"] = op["v"]
    elif k == "lp_set":
        sim["laser"]["profile"][op["attr"]] = op["v"]
    elif k == "ls_set":
        sim["laser"]["spectrum"][op["attr"]] = op["v"]
    elif k == "l_models_set":
        sim["laser"]["models"] = list(op["list"])


P_OPS = ["p_bfield", "p_electrons", "p_comp_add", "p_comp_add", "p_comp_set", "p_comp_assign", "p_comp_clear", "p_geometry",
         "p_geom_transform", "p_integrator", "p_integrator_step", "p_atomic", "p_models_set", "p_models_assign", "p_models_add",
         "p_models_clear", "p_transform", "p_transform", "p_parent", "node_transform", "pm_gaunt", "pm_quad", "same", "same"]
B_OPS = ["b_energy", "b_power", "b_temperature", "b_sigma", "b_divergence_x", "b_divergence_y", "b_length", "b_element",
         "b_atomic", "b_plasma", "b_attenuator", "att_step", "att_clamp_sigma", "b_integrator",
         "b_integrator_step", "b_models_set", "b_models_assign", "b_models_add", "b_models_clear", "b_transform", "b_transform",
         "b_parent", "bm_line", "node_transform"]


L_OPS = ["l_transform", "l_transform", "l_parent", "l_importance", "l_integrator", "l_integrator_step", "l_spectrum", "l_profile",
         "l_models_set", "l_plasma", "lp_set", "lp_set", "lp_set", "lp_pol", "ls_set", "ls_set", "node_transform"]


def gen_laser_op(rng, sim, k):
    lc = sim["laser"]
    if k == "l_transform":
        return dict(op=k, t=[_r(v) for v in list(rng.uniform(-0.1, 0.1, 2)) + [rng.uniform(-0.9, -0.4)] + list(rng.uniform(-15, 15, 3))])
    if k == "l_parent":
        return dict(op=k, to=["world", "node"][int(rng.integers(2))])
    if k == "l_importance":
        return dict(op=k, v=_r(rng.uniform(0.0, 5.0)))
    if k in ("l_integrator", "l_integrator_step"):
        return dict(op=k, step=_r(rng.uniform(0.01, 0.03)))
    if k == "l_spectrum":
        return dict(op=k, sp=g_spectrum(rng))
    if k == "l_profile":
        return dict(op=k, pr=g_profile(rng))
    if k == "l_models_set":
        return dict(op=k, list=[dict(kind="thomson")] if rng.random() < 0.7 else [])
    if k == "l_plasma":
        return dict(op=k)
    if k == "lp_pol":
        return dict(op=k, v=g_pol(rng))
    if k == "lp_set":
        pr = lc["profile"]
        attrs = [a for a in pr if a not in ("kind", "pol")]
        a = attrs[int(rng.integers(len(attrs)))]
        new = g_profile(rng, pr["kind"])[a]
        return dict(op=k, attr=a, v=new)
    if k == "ls_set":
        sp = lc["spectrum"]
        attrs = [a for a in sp if a != "kind"]
        a = attrs[int(rng.integers(len(attrs)))]
        lo, hi = sp["min_wavelength"], sp["max_wavelength"]
        if a == "min_wavelength":
            v = _r(hi - (hi - lo) * rng.uniform(0.3, 2.0))
        elif a == "max_wavelength":
            v = _r(lo + (hi - lo) * rng.uniform(0.3, 2.0))
        elif a == "bins":
            v = int(rng.integers(1, 6))
        elif a == "mean":
            v = _r(rng.uniform(lo, hi))
        else:
            v = _r((hi - lo) * rng.uniform(0.05, 0.6))
        return dict(op=k, attr=a, v=v)
    return None


REPLACING_OPS = {"p_models_set", "p_models_assign", "p_models_add", "p_models_clear", "b_models_set", "b_models_assign",
                 "b_models_add", "b_models_clear", "b_attenuator", "l_models_set", "l_profile", "l_spectrum", "p_geometry",
                 "p_integrator", "b_integrator", "l_integrator", "same"}
STATE_OPS = {"p_comp_add", "p_comp_set", "p_comp_assign", "p_electrons", "p_bfield", "p_atomic", "p_transform", "node_transform",
             "b_energy", "b_power", "b_element", "b_sigma", "b_length", "b_transform", "b_atomic", "att_step", "att_clamp_sigma",
             "bm_line", "lp_set", "lp_pol", "ls_set", "l_transform", "l_importance", "pm_gaunt"}


def gen_op(rng, sim):
    pc, bc = sim["plasma"], sim.get("beam")
    ops = P_OPS + (B_OPS + B_OPS if bc is not None else []) + (L_OPS + L_OPS if sim.get("laser") is not None else [])
    k = ops[int(rng.integers(len(ops)))]
    if k == "same":
        what = ["p_geometry", "p_integrator", "p_electrons", "p_bfield", "p_models", "p_composition", "p_transform"]
        if bc is not None:
            what += ["b_attenuator", "b_plasma", "b_integrator", "b_models", "b_element"] * 2
        if sim.get("laser") is not None:
            what += ["l_profile", "l_spectrum", "l_plasma", "l_integrator", "l_models"] * 3
        return dict(op="same", what=what[int(rng.integers(len(what)))])
    if k in L_OPS and k != "node_transform":
        return gen_laser_op(rng, sim, k)
    present = [(s["el"], s["q"]) for s in pc["species"]]
    if k == "p_bfield":
        return dict(op=k, v=g_bvec(rng))
    if k == "p_electrons":
        return dict(op=k, dist=g_dist(rng, 18.5, 19.8))
    if k == "p_comp_add":
        elq = present[int(rng.integers(len(present)))] if (present and rng.random() < 0.6) else SPECIES_POOL[int(rng.integers(len(SPECIES_POOL)))]
        return dict(op=k, sp=g_species(rng, elq))
    if k in ("p_comp_set", "p_comp_assign"):
        keep = present if rng.random() < 0.8 else []
        extra = [SPECIES_POOL[int(i)] for i in rng.permutation(len(SPECIES_POOL))[:int(rng.integers(0, 3))]]
        lst = list(dict.fromkeys(list(keep) + extra)) or [("deuterium", 1)]
        lst = [lst[int(i)] for i in rng.permutation(len(lst))]
        return dict(op=k, list=[g_species(rng, s) for s in lst])
    if k == "p_comp_clear":
        if rng.random() < 0.7:
            return None
        return dict(op=k)
    if k == "p_geometry":
        return dict(op=k, g=g_geom(rng))
    if k == "p_geom_transform":
        return dict(op=k, t=None if rng.random() < 0.3 else g_T(rng, 0.1, 30))
    if k in ("p_integrator", "p_integrator_step"):
        return dict(op=k, step=_r(rng.uniform(0.015, 0.04)))
    if k == "p_atomic":
        return dict(op=k, tag="AB"[int(rng.integers(2))])
    if k in ("p_models_set", "p_models_assign"):
        return dict(op=k, list=[g_shape(rng, m) for m, _ in pick_models(rng, PMODELS, int(rng.integers(0, 3)))])
    if k == "p_models_add":
        return dict(op=k, m=g_shape(rng, PMODELS[int(rng.integers(len(PMODELS)))][0]))
    if k == "p_models_clear":
        return dict(op=k)
    if k in ("p_transform", "node_transform"):
        return dict(op=k, t=g_T(rng))
    if k == "p_parent":
        return dict(op=k, to=["world", "node"][int(rng.integers(2))])
    if k in ("pm_gaunt", "pm_quad"):
        idx = [i for i, m in enumerate(pc["models"]) if m["kind"] == "brems"]
        if not idx:
            return None
        i = idx[int(rng.integers(len(idx)))]
        if k == "pm_gaunt":
            return dict(op=k, i=i, tag=[None, "A", "B"][int(rng.integers(3))])
        return dict(op=k, i=i, v=_r(10 ** rng.uniform(-6, -3)))
    if bc is None:
        return None
    if k == "b_energy":
        return dict(op=k, v=_r(10 ** rng.uniform(4, 5.2)))
    if k == "b_power":
        return dict(op=k, v=_r(10 ** rng.uniform(4, 6.5)))
    if k == "b_temperature":
        return dict(op=k, v=_r(rng.uniform(0, 20)))
    if k == "b_sigma":
        return dict(op=k, v=_r(rng.uniform(0.02, 0.1)))
    if k in ("b_divergence_x", "b_divergence_y"):
        return dict(op=k, v=_r(rng.choice([0.0, rng.uniform(0, 4)])))
    if k == "b_length":
        return dict(op=k, v=_r(rng.uniform(0.5, 2.0)))
    if k == "b_element":
        return dict(op=k, v=BEAM_ELEMENTS[int(rng.integers(3))])
    if k == "b_atomic":
        return dict(op=k, tag="AB"[int(rng.integers(2))])
    if k == "b_plasma":
        return dict(op=k)
    if k == "b_attenuator":
        return dict(op=k, a=g_att(rng))
    if k == "att_step":
        return dict(op=k, v=_r(10 ** rng.uniform(-2.3, -0.8)))
    if k == "att_clamp_sigma":
        return dict(op=k, v=_r(rng.uniform(2.0, 6.0)))
    if k == "att_clamp_to_zero":
        return dict(op=k, v=bool(rng.random() < 0.5))
    if k in ("b_integrator", "b_integrator_step"):
        return dict(op=k, step=_r(rng.uniform(0.01, 0.03)))
    if k in ("b_models_set", "b_models_assign", "b_models_add"):
        def fix(m):
            m = g_shape(rng, m)
            if m["kind"] == "bes":
                m["el"] = bc["element"]
            return m
        if k == "b_models_add":
            return dict(op=k, m=fix(BMODELS[int(rng.integers(len(BMODELS)))][0]))
        return dict(op=k, list=[fix(m) for m, _ in pick_models(rng, BMODELS, int(rng.integers(0, 3)))])
    if k == "b_models_clear":
        return dict(op=k)
    if k == "b_transform":
        return dict(op=k, t=[_r(v) for v in list(rng.uniform(-0.1, 0.1, 2)) + [rng.uniform(-0.9, -0.4)] + list(rng.uniform(-15, 15, 3))])
    if k == "b_parent":
        return dict(op=k, to=["world", "node"][int(rng.integers(2))])
    if k == "bm_line":
        # (BeamEmissionLine accepts Balmer-alpha only, so only the CX lines have another legal value)
        idx = [i for i, m in enumerate(bc["models"]) if m["kind"] == "bcx"]
        if not idx:
            return None
        i = idx[int(rng.integers(len(idx)))]
        cur = bc["models"][i]
        if cur["kind"] == "bes":
            trs = [t for t in ([3, 2], [4, 2], [5, 2], [4, 3]) if t != list(cur.get("tr", [3, 2]))]
            return dict(op=k, i=i, tr=trs[int(rng.integers(len(trs)))])
        if rng.random() < 0.5:
            # another transition of the SAME receiver ion (only the coefficients and the wavelength change)
            up = int(cur["tr"][0]) + int(rng.integers(1, 4))
            return dict(op=k, i=i, el=cur["el"], q=cur["q"], tr=[up, up - 1])
        new = [m for m, _ in BMODELS if m["kind"] == "bcx"][int(rng.integers(3))]
        return dict(op=k, i=i, el=new["el"], q=new["q"], tr=new["tr"])
    return None


# ------------------------------------------------------------------------------------------------
# execution
# ------------------------------------------------------------------------------------------------

class _Invalid(Exception):
    pass


def execute(case, ctx=None, stop_at_first=True):
    """Runs the history. Returns list of failures: dict(step, kind, label, what)."""
    from vf import scene
    cfg = copy.deepcopy(case["cfg"])
    live = scene.build(cfg)
    fails = []
    n_mut_after_obs = 0
    observed = False
    nonzero = False
    for i, op in enumerate(case["history"]):
        if op["op"] == "observe":
            ol = scene.observe(live, case["probes"], win=op.get("win", 0))
            fresh = scene.build(copy.deepcopy(cfg))
            of = scene.observe(fresh, case["probes"], win=op.get("win", 0))
            if ctx is not None and op.get("win", 0):
                ctx.mon("observations_in_another_spectral_window")
            if ctx is not None:
                ctx.mon("fresh_builds")
                ctx.mon("observations_compared", len(of))
            for lab, v in of:
                if not isinstance(v, tuple) and np.abs(v).max() > 0:
                    nonzero = True
            diffs = scene.compare(ol, of)
            observed = True
            if diffs:
                lab, what, mag = diffs[0]
                obs_kind = "trace" if lab.startswith("trace") else ("laser_geometry" if lab.startswith("laser_geometry") else "beam_density")
                exc = "exception" if mag == float("inf") and "raises" in what or "exception type" in what else "values"
                fails.append(dict(step=i, kind="stale", obs=obs_kind, mode=exc, label=lab, what=what, n_diffs=len(diffs)))
                if stop_at_first:
                    break
        else:
            try:
                scene.apply(live, cfg, op)
            except (IndexError, KeyError, AttributeError) as e:
                import traceback
                tb = traceback.extract_tb(e.__traceback__)
                if tb[-1].filename.endswith("scene.py") and isinstance(e, (IndexError, KeyError)):
                    raise _Invalid(str(e))
                fails.append(dict(step=i, kind="mutator-raises", op=op["op"], exc=type(e).__name__, what=str(e)[:300]))
                break
            except Exception as e:  # noqa
                fails.append(dict(step=i, kind="mutator-raises", op=op["op"], exc=type(e).__name__, what=str(e)[:300]))
                break
            if ctx is not None:
                ctx.mon("mutators_applied")
            if observed:
                n_mut_after_obs += 1
    return fails, (n_mut_after_obs > 0 and nonzero)


def signature(f):
    if f["kind"] == "mutator-raises":
        return ("mutator-raises", f["op"], f["exc"])
    return ("stale", f["obs"], f["mode"])


def minimise(case, sig, deadline):
    """Greedy one-op deletion to a fixpoint while a failure with the same signature persists."""
    hist = list(case["history"])

    def still(h):
        c = dict(case, history=h)
        try:
            fs, _ = execute(c)
        except _Invalid:
            return False
        except Exception:  # noqa
            return False
        return bool(fs) and signature(fs[0]) == sig

    # truncate after the failing step first
    changed = True
    while changed and time.time() < deadline:
        changed = False
        i = len(hist) - 1
        while i >= 0 and time.time() < deadline:
            h2 = hist[:i] + hist[i + 1:]
            if h2 and still(h2):
                hist = h2
                changed = True
            i -= 1
    return hist, time.time() < deadline


def crash_hint(case):
    if case.get("kind") == "notifier":
        return "notifier"
    return "+".join(sorted(set(o["op"] for o in case["history"] if o["op"] != "observe")))[:200]


_BUDGET = {"t0": None, "spent": 0.0}


class _Listener:
    def __init__(self, tag, counts):
        self.tag = tag
        self.counts = counts

    def cb(self):
        self.counts[self.tag] += 1


def run_notifier_case(case, ctx):
    """History + executable model on the Notifier itself: on notify() every registered callback whose owner is still
    alive is called exactly once, dead ones are dropped silently, add() is idempotent, remove() unregisters."""
    import gc
    from cherab.core.utility import Notifier
    ctx.cls("notifier")
    n = case["n"]
    counts = [0] * n
    nt = Notifier()

    def make(i):
        if case["kinds"][i] == "method":
            ob = _Listener(i, counts)
            return ob, ob.cb
        def fn():
            counts[i] += 1
        return fn, fn
    owners = [None] * n
    cbs = [None] * n
    for i in range(n):
        owners[i], cbs[i] = make(i)
    registered = set()
    ctx.nontrivial()
    for step, op in enumerate(case["ops"]):
        k = op[0]
        if k == "add":
            i = op[1]
            if owners[i] is not None:
                nt.add(cbs[i] if case["kinds"][i] == "function" else owners[i].cb)
                registered.add(i)
        elif k == "remove":
            i = op[1]
            if owners[i] is not None and i in registered:
                nt.remove(cbs[i] if case["kinds"][i] == "function" else owners[i].cb)
                registered.discard(i)
        elif k == "delete":
            i = op[1]
            owners[i] = None
            cbs[i] = None
            registered.discard(i)
            gc.collect()
        elif k == "recreate":
            i = op[1]
            if owners[i] is None:
                owners[i], cbs[i] = make(i)
        elif k == "notify":
            before = list(counts)
            try:
                nt.notify()
            except Exception as e:  # noqa
                ctx.viol("notifier:notify-raises:%s" % type(e).__name__, "Notifier.notify() raised %s: %s" % (type(e).__name__, e), step=step)
                return
            ctx.mon("notifier_notifications")
            for i in range(n):
                want = 1 if i in registered else 0
                got = counts[i] - before[i]
                ctx.mon("notifier_callbacks_checked")
                if got != want:
                    what = ("registered live callback not called" if got < want else
                            ("callback called %d times" % got if want else "unregistered or dead callback called"))
                    ctx.viol("notifier:" + ("live-callback-skipped" if got < want else ("callback-called-twice" if want else "stale-callback-called")),
                             "Notifier.notify(): %s (listener %d, %s)" % (what, i, case["kinds"][i]), step=step, ops_so_far=case["ops"][:step + 1])
                    return


def run_case(case, ctx):
    if case.get("kind") == "notifier":
        return run_notifier_case(case, ctx)
    c = case["cfg"]
    ctx.cls("+".join(["plasma"] + (["beam"] if c.get("beam") else []) + (["laser"] if c.get("laser") else [])))
    try:
        fails, nontrivial = execute(case, ctx)
    except _Invalid:
        ctx.skip("history not applicable to the configuration (generator)")
        return
    ctx.nontrivial(nontrivial)
    if not fails:
        return
    f = fails[0]
    sig = signature(f)
    # shrink to name the mechanism; per-failure budget 20 s, per-worker budget 40 % of the time cap
    t0 = time.time()
    allow = 20.0 if _BUDGET["spent"] < (240.0 if ctx.tier == "thorough" else 25.0) else 0.0
    hist, complete = (case["history"], False)
    if allow:
        try:
            hist, complete = minimise(case, sig, t0 + allow)
        except Exception:  # noqa
            hist, complete = case["history"], False
    _BUDGET["spent"] += time.time() - t0
    def label(o):
        return o["op"] + ("." + o["attr"] if "attr" in o else "") + ("." + o["what"] if "what" in o else "")
    muts = sorted(set(label(o) for o in hist if o["op"] != "observe"))
    # was an observation needed before the last mutator?
    last_mut = max([i for i, o in enumerate(hist) if o["op"] != "observe"], default=-1)
    pre_obs = any(o["op"] == "observe" for o in hist[:last_mut]) if last_mut >= 0 else False
    ctx.mon("failing_histories")
    if f["kind"] == "mutator-raises":
        key = "mutator-raises:%s:%s" % (f["op"], f["exc"])
        if complete:
            others = [m for m in muts if m.split(".")[0] != f["op"]]
            if others:
                key += ":after:" + "+".join(others)
        else:
            key += ":unminimised"
        ctx.viol(key, "supported change %s raised %s: %s" % (f["op"], f["exc"], f["what"]), minimal_history=hist, step=f["step"])
        return
    if complete:
        key = "stale:%s:%s:%s%s" % ("+".join(muts) if muts else "no-mutator", f["obs"], f["mode"], ":after-observe" if pre_obs else "")
    else:
        key = "stale:unminimised:%s:%s" % (f["obs"], f["mode"])
    ctx.viol(key, "observation %s differs from a scene built from scratch in the final configuration: %s" % (f["label"], f["what"]),
             minimal_history=hist, minimal_config_note="replay case holds the full configuration", n_differing_observations=f["n_diffs"])
