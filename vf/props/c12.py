"""C12 — equilibrium maps flux functions onto flux surfaces with an orthonormal basis.

Runtime monitor: invariants over a sampled field.  Every case builds (or fetches) a real EFITEquilibrium, asks it for
map2d / map3d / map_vector2d / map_vector3d of generated profiles and samples everything at generated (r, z, phi).

Oracles (none of them shares code with cherab):
  psin_nonneg     psi_normalised >= 0 everywhere (incl. points where the raw normalisation is negative).
  psin_def        psi_normalised == max(0, (psi - psi_axis) / (psi_lcfs - psi_axis)) with the public psi interpolant
                  (cubic interpolation is linear in the data), exact node values, and — Solov'ev — the analytic psi
                  within the computed bicubic interpolation bound.
  lcfs_mask       inside_lcfs == (own even-odd point-in-polygon test) AND (psi_n <= 1); points closer than 1e-6 to a
                  polygon edge are undecidable and skipped.
  map2d           == profile(psi_n(r, z)) inside, == the outside value elsewhere (profile oracle: closed form for
                  callables / Function1D algebra / linear tables; the documented cubic table interpolation for 2xN).
  map3d           == map2d at (sqrt(x^2+y^2), z); independent of the toroidal angle.
  basis           t = (0,1,0); |p| = |n| = 1; p.t = n.t = n.p = 0; n = p x t; p parallel (not anti-parallel) to the
                  in-plane part of b_field; B.n = 0.
  field           Solov'ev: b_field == (-psi_Z/r, F/r, psi_R/r) of the analytic psi within SAFETY x the computed
                  np.gradient + bicubic bound (vf/solovev_c12.py); bundled grids: orientation only (cos >= 0.8 against
                  central differences of the public psi interpolant where |B_pol| >= 0.3 max, >= 2 cells from the edge).
  *_special       the 3-D mappings are also evaluated at exact special positions (signed zeros, half-axes, diagonals,
                  subnormal / tiny coordinate) and judged against the 2-D result rotated by atan2(y, x) (own rotation; the
                  -pi branch for y = -0.0, x < 0 is the same rotation as +pi).
  vec2d / vec3d   map_vector2d has components (v_tor, v_pol, v_nor)(psi_n) along (t, p, n) inside, equals the outside
                  vector elsewhere; map_vector3d is that vector rotated by the toroidal angle of the point (own rotation).
"""
import json
import math
import os

import numpy as np

from vf import core
from vf.solovev_c12 import Solovev, Bounds, point_in_polygon, polygon_distance

ID = "C12"
LEVEL = "exploration"
RULE = ("one case = one equilibrium (bundled example, Generomak, or a synthetic Solov'ev-type EFITEquilibrium on a "
        "20..65 x 20..65 rectilinear grid (uniform, or geometrically / sinh-stretched in r, z or both with spacing ratio up to 5; "
        "limiter polygon none / generous / close-fitting with facets cutting inside the LCFS / partial box / identical to the "
        "LCFS polygon) with random shape, either sign of psi_lcfs - psi_axis, optional axis-value offset that makes "
        "the clamp decisive, LCFS polygon of 8..120 vertices scaled 0.9..1.06 about the axis) x one scalar profile and three "
        "velocity profiles (Python callables, Function1D algebra, Function1D interpolators, 2xN lists/arrays; either sign, "
        "amplitudes 1e-2..1e4) x outside value (default / 0 / +-x / vector) x ~90 points (uniform, near axis, within "
        "3e-6..3e-2 of LCFS polygon edges and of psi_n = 1, private-flux / x-point region, grid nodes, outer cell ring, boundary lines and corners, "
        "inside LCFS) each with two toroidal angles, plus 28 exact special 3-D positions per case (y = +-0.0 with x of either "
        "sign, x = +-0.0 with y of either sign, exact 45-degree diagonals, one coordinate subnormal / 1e-300 / 1e-17 r); a case is non-trivial when inside-LCFS and outside-LCFS map "
        "comparisons and basis checks were all evaluated; distinct = distinct full case descriptors")
LEVEL_TEXT = ("Exploration by runtime invariant monitoring over sampled fields: the real EFITEquilibrium objects are driven "
              "with generated profiles/points and every returned value is compared with the composition the statement "
              "prescribes; the field itself is anchored to analytic Solov'ev flux functions (magnitude, sign) and to the "
              "derivative of the public psi interpolant (orientation) — right level because the property quantifies over "
              "a continuous poloidal plane, toroidal angle and arbitrary profiles")
LEVEL_NOTE = ("trusted: own point-in-polygon test, analytic Solov'ev formulae and derivative bounds in vf/solovev_c12.py, "
              "raysect's Interpolator1DArray as the documented meaning of a 2xN profile table (linear tables are also "
              "judged in closed form); points within 1e-6 of an LCFS polygon edge (and, in 3-D, of psi_n = 1) are skipped")
TECHNIQUE = ("runtime monitoring: invariants over a sampled field (composition, LCFS blend, axisymmetry, orthonormal "
             "basis, analytic Solov'ev field within a computed discretisation bound)")
ASSUMPTIONS = ["2xN profile tables cover psi_n in [0, 1] (tables that do not are out of the profile's own domain)",
               "synthetic grids are rectilinear, uniform or smoothly stretched (total spacing ratio <= 5); bundled-grid field magnitudes are not judged (np.gradient "
               "discretisation up to 11 % of max), only orientation",
               "points where the in-plane field is exactly zero have no defined basis and are skipped (counted)"]
ASAN_MODULES = ['cherab.tools.equilibrium.efit', 'cherab.core.math.mappers', 'cherab.core.math.mask', 'cherab.core.math.clamp']
ASAN = dict(cases=300, workers=8, timecap=240)
QUICK = dict(cases=400, workers=2, timecap=35)
THOROUGH = dict(cases=30000, workers=16, timecap=600)
REQUIRED = {"psin_nonneg": 20000, "psin_clamp_decisive": 20, "psin_def": 20000, "psi_nodes": 1000, "psi_analytic": 5000,
            "lcfs_mask": 20000, "map2d_inside": 4000, "map2d_outside": 4000, "map3d": 8000, "map3d_phi": 2000,
            "basis": 20000, "b_normal": 20000, "field_analytic": 5000, "field_orientation": 1000,
            "vec2d_inside": 4000, "vec2d_outside": 4000, "vec3d": 8000, "map3d_special": 3000, "vec3d_special": 9000,
            "pts3d_y0": 400, "pts3d_x0": 400, "pts3d_diag": 400, "pts3d_y_subnormal": 400, "pts3d_x_subnormal": 400,
            "pts3d_tiny": 800, "pts_private_flux": 100, "pts_listing_seam": 1500, "pts_inside_lcfs_outside_limiter": 300, "field_analytic_nonuniform": 10000, "seq_first": 2000, "seq_remap": 4000,
            "seq_other": 2000,
            "pts_polygon_inside_psin_gt_1": 30}

SAFETY = 8.0          # factor on the computed discretisation bounds (their constants are worst-case estimates)
EDGE_EXCL = 1e-6      # undecidable band around LCFS polygon edges / psi_n = 1
NPTS = 90
CHORD_EPS = 1e-12    # 'on an internal triangulation edge': the cracks of the mesh point location are ~1e-16 m wide
COS_MIN = 0.8        # orientation only: np.gradient-vs-interpolant deviations reach 11 % of max|B_pol| (asin(0.11/0.3) = 21 deg)

_CACHE = {}


# ----------------------------------------------------------------------------------------------
# harness-side geometry (reads the data files / analytic parameters, never cherab code)
# ----------------------------------------------------------------------------------------------

def _bundled(kind):
    key = ("geom", kind)
    if key in _CACHE:
        return _CACHE[key]
    if kind == "example":
        d = json.load(open(os.path.join(core.REPO, "cherab/tools/equilibrium/example.json")))
        psi, axis = np.array(d["psi"], float), d["axis_coord"]
    else:
        d = json.load(open(os.path.join(core.REPO, "cherab/generomak/equilibrium/data/generomak_equilibrium.json")))
        psi, axis = np.array(d["psi_grid"], float), d["magnetic_axis"]
    poly = np.array(d["lcfs_polygon"], float)
    G = dict(kind=kind, r=np.array(d["r"], float), z=np.array(d["z"], float), psi=psi, axis=(float(axis[0]), float(axis[1])),
             vx=poly[0], vy=poly[1], psi_axis=float(d["psi_axis"]), psi_lcfs=float(d["psi_lcfs"]),
             special=[tuple(p) for p in d["x_points"]] + [tuple(p) for p in d["strike_points"]], sol=None)
    _CACHE[key] = G
    return G


def _contour(sol, t):
    zeta = sol.a * np.cos(t)
    return np.sqrt(sol.R0 ** 2 + 2 * sol.R0 * zeta), sol.kappa * sol.a * np.sin(t) / np.sqrt(1 + 2 * sol.tau * zeta / sol.R0)


def _polygon(sol, e):
    """Open vertex listing of the LCFS polygon (never repeats the first vertex).  Modes: 'param' (equal parameter steps
    from a random start), 'mirror' (upper half mirrored onto the lower half: first and last vertex share r exactly),
    'shared_z' (first and last vertex are the two contour points of one exact height), 'rect' and 'plus' (rectilinear:
    every listing starts and ends on a common grid line).  Then rolled, scaled about the axis, optionally reversed."""
    mode = e.get("poly_mode", "param")
    n = e["poly_n"]
    f = e.get("poly_f", [0.7, 0.7, 0.7, 0.7])
    if mode == "param":
        vx, vy = sol.lcfs(n, 1.0, e["poly_t0"])
        dz = vy - sol.Z0
    elif mode == "mirror":
        m = max(2, n // 2)
        R, dzu = _contour(sol, (np.arange(m) + 0.5) * np.pi / m)
        vx = np.concatenate([R, R[::-1]])
        dz = np.concatenate([dzu, -dzu[::-1]])
    elif mode == "shared_z":
        t1 = np.pi / 2 - f[0] * np.pi / n
        R1, dz1 = _contour(sol, np.array([t1]))
        dz1 = float(dz1[0])
        # the other contour point of height dz1: zeta^2 + (2 tau dz1^2 / (R0 kappa^2)) zeta + dz1^2 / kappa^2 - a^2 = 0
        bq = 2 * sol.tau * dz1 ** 2 / (sol.R0 * sol.kappa ** 2)
        cq = dz1 ** 2 / sol.kappa ** 2 - sol.a ** 2
        zm = 0.5 * (-bq - math.sqrt(bq * bq - 4 * cq))
        t2 = math.acos(max(-1.0, min(1.0, zm / sol.a)))
        R, dz = _contour(sol, np.linspace(t1, t2 - 2 * np.pi, n))       # clockwise, the long way round
        vx = R.copy()
        vx[-1] = math.sqrt(sol.R0 ** 2 + 2 * sol.R0 * zm)
        dz = dz.copy()
        dz[-1] = dz[0]
    else:
        rl = math.sqrt(sol.R0 ** 2 - 2 * sol.R0 * sol.a * (0.45 + 0.45 * f[0]))
        rh = math.sqrt(sol.R0 ** 2 + 2 * sol.R0 * sol.a * (0.45 + 0.45 * f[1]))
        zl = -sol.kappa * sol.a * (0.45 + 0.45 * f[2])
        zh = sol.kappa * sol.a * (0.45 + 0.45 * f[3])
        if mode == "rect":
            vx = np.array([rl, rh, rh, rl])
            dz = np.array([zl, zl, zh, zh])
        else:                 # plus
            x0, x3, y0, y3 = rl, rh, zl, zh
            x1, x2 = sol.R0 - 0.35 * (sol.R0 - rl), sol.R0 + 0.35 * (rh - sol.R0)
            y1, y2 = 0.35 * zl, 0.35 * zh
            vx = np.array([x1, x2, x2, x3, x3, x2, x2, x1, x1, x0, x0, x1])
            dz = np.array([y0, y0, y1, y1, y2, y2, y3, y3, y2, y2, y1, y1])
    roll = int(e.get("poly_roll", 0)) % len(vx)
    vx, dz = np.roll(vx, -roll), np.roll(dz, -roll)
    sc = e["poly_scale"]
    vx = sol.R0 + sc * (vx - sol.R0)
    vy = sol.Z0 + sc * dz
    if e["poly_reverse"]:
        vx, vy = vx[::-1].copy(), vy[::-1].copy()
    return vx, vy


def _axis(lo, hi, n, g):
    """Rectilinear axis: uniform, or stretched with spacings d_k ~ q^(k/(n-2)) ('geo', monotone, total ratio q, either
    direction) or ~ cosh-like refinement around a centre ('sinh': finest at fraction c of the axis, ratio q to the ends)."""
    if not g or g.get("kind", "uniform") == "uniform":
        return np.linspace(lo, hi, n)
    k = np.arange(n - 1) / max(1, n - 2)
    q = g["q"]
    if g["kind"] == "geo":
        w = q ** (k if g.get("up", True) else 1 - k)
    else:
        w = 1.0 + (q - 1.0) * np.minimum(1.0, np.abs(k - g.get("c", 0.5)) / max(g.get("c", 0.5), 1 - g.get("c", 0.5))) ** 2
    x = lo + (hi - lo) * np.concatenate([[0.0], np.cumsum(w) / np.sum(w)])
    x[-1] = hi
    return x


def _limiter(sol, e, r, z, vx, vy):
    """Limiter polygon in every relation to the LCFS polygon (the property's clauses must not depend on it)."""
    mode = e.get("limiter_mode", "generous" if e.get("limiter") else "none")
    if mode == "none":
        return None, None
    if mode == "generous":
        return np.array([r[1], r[-2], r[-2], r[1]]), np.array([z[1], z[1], z[-2], z[-2]])
    f = e.get("limiter_f", [0.5, 0.5, 0.5])
    if mode == "close":           # few straight facets on a contour 0..3 % outside the LCFS: the facets cut inside the LCFS
        n = 5 + int(5 * f[0])
        return sol.lcfs(n, 1.0 + 0.03 * f[1], 2 * np.pi * f[2])
    if mode == "partial":         # a box that contains only part of the plasma
        return (np.array([sol.R0 - (0.6 * f[0] - 0.1) * sol.a, r[-2], r[-2], sol.R0 - (0.6 * f[0] - 0.1) * sol.a]),
                np.array([sol.Z0 - 0.6 * f[1] * sol.kappa * sol.a, sol.Z0 - 0.6 * f[1] * sol.kappa * sol.a, z[-2], z[-2]]))
    return vx.copy(), vy.copy()   # identical to the LCFS polygon


def _sol_geom(e):
    sol = Solovev(e["R0"], e["a"], e["kappa"], e["tau"], e["Z0"], e["psi_axis"], e["psi_lcfs"])
    r = _axis(e["rmin"], e["rmax"], e["nr"], e.get("grid_r"))
    z = _axis(e["zmin"], e["zmax"], e["nz"], e.get("grid_z"))
    vx, vy = _polygon(sol, e)
    lx, ly = _limiter(sol, e, r, z, vx, vy)
    RR, ZZ = np.meshgrid(r, z, indexing="ij")
    return dict(kind="solovev", r=r, z=z, psi=sol.psi(RR, ZZ), axis=(sol.R0, sol.Z0), vx=vx, vy=vy,
                psi_axis=e["psi_axis_eq"], psi_lcfs=e["psi_lcfs"], special=[], sol=sol, lx=lx, ly=ly)


def _geom(e):
    return _sol_geom(e) if e["kind"] == "solovev" else _bundled(e["kind"])


# ----------------------------------------------------------------------------------------------
# case generation
# ----------------------------------------------------------------------------------------------

def _gen_solovev(rng):
    R0 = float(rng.uniform(0.8, 3.0))
    a = float(rng.uniform(0.2, 0.42) * R0)
    kappa = float(rng.uniform(0.8, 2.0))
    tau = 0.0 if rng.random() < 0.15 else float(rng.uniform(0, 1))
    Z0 = float(rng.uniform(-0.3, 0.3))
    psi_axis = float(rng.normal())
    delta = float(rng.choice([-1.0, 1.0]) * 10 ** rng.uniform(-1, 1))
    r_in = math.sqrt(R0 * R0 - 2 * R0 * a)
    r_out = math.sqrt(R0 * R0 + 2 * R0 * a)
    zh = kappa * a / math.sqrt(1 - 2 * tau * a / R0)
    m = rng.uniform(0.15, 0.6, 4)
    eps = 0.0 if rng.random() < 0.5 else float(rng.uniform(0.005, 0.05))
    u = rng.random()
    scale = 1.0 if u < 0.4 else (float(rng.uniform(0.9, 0.99)) if u < 0.6 else float(rng.uniform(1.01, 1.06)))
    fe = float(rng.choice([-1.0, 1.0]) * rng.uniform(1, 6))
    mode = ["param", "param", "mirror", "shared_z", "rect", "plus"][int(rng.integers(6))]
    poly_n = int(rng.choice([8, 12, 24, 60, 120]))
    roll = 0 if (mode in ("mirror", "shared_z") and rng.random() < 0.75) else int(rng.integers(0, 120))
    poly_f = [float(v) for v in rng.uniform(0.2, 1.0, 4)]

    def grid():
        u_ = rng.random()
        if u_ < 0.5:
            return dict(kind="uniform")
        if u_ < 0.8:
            return dict(kind="geo", q=float(rng.uniform(1.3, 5.0)), up=bool(rng.random() < 0.5))
        return dict(kind="sinh", q=float(rng.uniform(1.3, 5.0)), c=float(rng.uniform(0.3, 0.7)))
    stretch = ["none", "none", "r", "z", "both"][int(rng.integers(5))]
    grid_r = grid() if stretch in ("r", "both") else dict(kind="uniform")
    grid_z = grid() if stretch in ("z", "both") else dict(kind="uniform")
    limiter_mode = ["none", "generous", "close", "close", "partial", "identical"][int(rng.integers(6))]
    limiter_f = [float(v) for v in rng.uniform(0, 1, 3)]
    return dict(kind="solovev", poly_mode=mode, poly_roll=roll, poly_f=poly_f, grid_r=grid_r, grid_z=grid_z,
                limiter_mode=limiter_mode, limiter_f=limiter_f, R0=R0, a=a, kappa=kappa, tau=tau, Z0=Z0, psi_axis=psi_axis, psi_lcfs=psi_axis + delta,
                psi_axis_eq=psi_axis + eps * delta, nr=int(rng.integers(20, 66)), nz=int(rng.integers(20, 66)),
                rmin=float(max(0.08 * R0, r_in - m[0] * a)), rmax=float(r_out + m[1] * a),
                zmin=float(Z0 - zh * (1 + m[2])), zmax=float(Z0 + zh * (1 + m[3])),
                poly_n=poly_n, poly_scale=scale, poly_t0=float(rng.uniform(0, 2 * np.pi)),
                poly_reverse=bool(rng.random() < 0.5), f_edge=fe, f_alpha=float(rng.uniform(-0.3, 0.3)),
                f_knots=int(rng.integers(2, 20)), r_vac=float(rng.uniform(0.8, 1.2) * R0),
                limiter=bool(rng.random() < 0.5))


def _gen_profile(rng, amp=None):
    if amp is None:
        amp = float(10 ** rng.uniform(-2, 4))
    kind = ["callable", "function1d", "function1d_interp", "array", "array", "array_linear"][int(rng.integers(6))]
    form = "poly" if rng.random() < 0.6 else "exp"
    c = [float(amp * rng.normal()), float(amp * rng.normal()), float(amp * rng.normal())]
    if form == "exp":
        c[1] = float(rng.uniform(0.2, 5.0))
    p = dict(kind=kind, form=form, c=c)
    if kind in ("function1d_interp", "array", "array_linear"):
        nk = int(rng.integers(2, 15))
        x0 = 0.0 if rng.random() < 0.7 else -0.05
        x1 = 1.0 if rng.random() < 0.7 else 1.15
        inc = rng.uniform(0.3, 1.0, nk - 1)
        x = x0 + (x1 - x0) * np.concatenate([[0.0], np.cumsum(inc) / inc.sum()])
        x[-1] = x1
        p["x"] = [float(v) for v in x]
        p["container"] = "list" if rng.random() < 0.5 else "ndarray"
        if kind == "array_linear":
            p["form"] = "poly"
            p["c"] = [c[0], c[1] if form == "poly" else float(amp * rng.normal()), 0.0]
        p["y"] = [float(v) for v in _form(p["form"], p["c"], np.array(p["x"]))]
    return p


def _clip_pts(G, R, Z):
    r, z = G["r"], G["z"]
    sr, sz = r[-1] - r[0], z[-1] - z[0]
    return (np.clip(R, r[0] + 1e-9 * sr, r[-1] - 1e-9 * sr), np.clip(Z, z[0] + 1e-9 * sz, z[-1] - 1e-9 * sz))


def _gen_points(rng, G, n):
    r, z, vx, vy = G["r"], G["z"], G["vx"], G["vy"]
    ax, az = G["axis"]
    size = 0.5 * min(np.ptp(vx), np.ptp(vy))
    out = []

    def add(R, Z, lab):
        R, Z = _clip_pts(G, np.atleast_1d(np.asarray(R, float)), np.atleast_1d(np.asarray(Z, float)))
        for a_, b_ in zip(R, Z):
            out.append([float(a_), float(b_), lab])

    k = max(1, n // 10)
    add(rng.uniform(r[0], r[-1], 2 * k), rng.uniform(z[0], z[-1], 2 * k), "uniform")
    rad = size * 10 ** rng.uniform(-6, -0.7, k)
    th = rng.uniform(0, 2 * np.pi, k)
    add(ax + rad * np.cos(th), az + rad * np.sin(th), "axis")
    # near polygon edges, both sides
    nv = len(vx)
    i = rng.integers(0, nv, 2 * k)
    t = rng.uniform(0, 1, 2 * k)
    t[rng.random(2 * k) < 0.15] = 0.0                     # right at a vertex (then offset)
    x0, y0, x1, y1 = vx[i], vy[i], vx[(i + 1) % nv], vy[(i + 1) % nv]
    ex, ey = x1 - x0, y1 - y0
    L = np.hypot(ex, ey) + 1e-300
    d = rng.choice([-1.0, 1.0], 2 * k) * 10 ** rng.uniform(np.log10(3e-6), np.log10(3e-2), 2 * k)
    add(x0 + t * ex - ey / L * d, y0 + t * ey + ex / L * d, "polygon_edge")
    # near the limiter polygon's edges (both sides): the LCFS clauses must not depend on the limiter
    if G.get("lx") is not None:
        lx, ly = G["lx"], G["ly"]
        nl = len(lx)
        i = rng.integers(0, nl, k)
        t = rng.uniform(0, 1, k)
        x0, y0, x1, y1 = lx[i], ly[i], lx[(i + 1) % nl], ly[(i + 1) % nl]
        ex, ey = x1 - x0, y1 - y0
        L = np.hypot(ex, ey) + 1e-300
        d = rng.choice([-1.0, 1.0], k) * 10 ** rng.uniform(-5, np.log10(3e-2), k)
        add(x0 + t * ex - ey / L * d, y0 + t * ey + ex / L * d, "limiter_edge")
    # inside the two triangles at the seam of the vertex listing: (v[-2], v[-1], v[0]) and (v[-1], v[0], v[1])
    kc = max(2, k // 2)
    for tri in ((-2, -1, 0), (-1, 0, 1)):
        w = rng.dirichlet([1.0, 1.0, 1.0], kc)
        add(w @ vx[list(tri)], w @ vy[list(tri)], "listing_seam")
    # near psi_n = 1 (analytic contour) for Solov'ev; x-point / strike-point / private-flux region for bundled grids
    if G["sol"] is not None:
        sol = G["sol"]
        s = 1.0 + rng.choice([-1.0, 1.0], k) * 10 ** rng.uniform(-6, -1.3, k)
        tt = rng.uniform(0, 2 * np.pi, k)
        zeta = sol.a * np.sqrt(s) * np.cos(tt)
        Rr = np.sqrt(sol.R0 ** 2 + 2 * sol.R0 * zeta)
        Zz = sol.Z0 + sol.kappa * sol.a * np.sqrt(s) * np.sin(tt) / np.sqrt(1 + 2 * sol.tau * zeta / sol.R0)
        add(Rr, Zz, "psin_one")
    else:
        sp = G["special"]
        j = rng.integers(0, len(sp), k)
        c = np.array(sp)[j]
        add(c[:, 0] + rng.normal(0, 0.12, k), c[:, 1] + rng.normal(0, 0.12, k), "xpoint_region")
    # grid nodes (interior and boundary-adjacent, never the outermost line: 3-D radius may round outwards)
    ii = rng.integers(1, len(r) - 1, k)
    jj = rng.integers(1, len(z) - 1, k)
    for a_, b_ in zip(ii, jj):
        out.append([float(r[a_]), float(z[b_]), "node"])
    # outer cell ring
    side = rng.integers(0, 4, k)
    u = rng.uniform(0, 1, k)
    w = rng.uniform(0, 1, k)
    Rr = np.where(side == 0, r[0] + u * (r[1] - r[0]), np.where(side == 1, r[-1] - u * (r[-1] - r[-2]), r[0] + w * (r[-1] - r[0])))
    Zz = np.where(side == 2, z[0] + u * (z[1] - z[0]), np.where(side == 3, z[-1] - u * (z[-1] - z[-2]), z[0] + w * (z[-1] - z[0])))
    add(Rr, Zz, "ring")
    # exactly on the boundary lines / corners of the grid domain (toroidal angle 0 only: the 3-D radius must not round outwards)
    for _ in range(max(1, k // 3)):
        sd = int(rng.integers(0, 6))
        rb = [r[0], r[-1], float(rng.uniform(r[0], r[-1])), float(rng.uniform(r[0], r[-1])), r[0], r[-1]][sd]
        zb = [float(rng.uniform(z[0], z[-1])), float(rng.uniform(z[0], z[-1])), z[0], z[-1], z[-1], z[0]][sd]
        out.append([float(rb), float(zb), "boundary"])
    # inside the LCFS: polygon points shrunk towards the axis
    m = max(k, n - len(out))
    i = rng.integers(0, nv, m)
    f = np.sqrt(rng.uniform(0.0, 1.0, m)) * 0.995
    add(ax + f * (vx[i] - ax), az + f * (vy[i] - az), "inside")
    special = [0.0, math.pi / 2, math.pi, -math.pi / 2, math.pi - 1e-9, -math.pi + 1e-9, math.pi / 4]
    pts = []
    for R, Z, lab in out:
        ph = []
        for _ in range(2):
            if lab == "boundary":
                ph.append(0.0)
                continue
            ph.append(float(special[int(rng.integers(len(special)))]) if rng.random() < 0.2 else float(rng.uniform(-math.pi, math.pi)))
        pts.append([R, Z, ph[0], ph[1], lab])
    return pts


def _gen_special3d(rng, pts):
    """Exact special (x, y) positions for the 3-D mappings, built from four (r, z) of the case: y == +-0.0 with x of either
    sign, x == +-0.0 with y of either sign (the four exact half-axes with both signed zeros), the four 45-degree diagonals
    (|x| == |y| exactly), and points with one subnormal / tiny coordinate.  All 28 configurations occur in every case."""
    cand_in = [i for i, p in enumerate(pts) if p[4] == "inside"]
    cand_other = [i for i, p in enumerate(pts) if p[4] not in ("inside", "boundary")]
    idx = list(rng.choice(cand_in, 2, replace=False)) + list(rng.choice(cand_other, 2, replace=False))
    sub = 5e-324
    types = [("y0", 1, 0.0, 0), ("y0", 1, -0.0, 0), ("y0", -1, 0.0, 0), ("y0", -1, -0.0, 0),
             ("x0", 0.0, 1, 1), ("x0", -0.0, 1, 1), ("x0", 0.0, -1, 1), ("x0", -0.0, -1, 1),
             ("diag", 1, 1, 2), ("diag", -1, 1, 2), ("diag", 1, -1, 2), ("diag", -1, -1, 2),
             ("y_subnormal", 1, sub, 0), ("y_subnormal", 1, -sub, 0), ("y_subnormal", -1, sub, 0), ("y_subnormal", -1, -sub, 0),
             ("x_subnormal", sub, 1, 1), ("x_subnormal", -sub, 1, 1), ("x_subnormal", sub, -1, 1), ("x_subnormal", -sub, -1, 1),
             ("tiny", -1, 1e-300, 0), ("tiny", -1, -1e-300, 0), ("tiny", 1e-300, -1, 1), ("tiny", -1e-300, 1, 1),
             ("tiny", -1, 1e-17, 3), ("tiny", -1, -1e-17, 3), ("tiny", 1, 1e-200, 0), ("tiny", -1e-200, -1, 1)]
    order = rng.permutation(len(types))
    out = []
    for j, ti in enumerate(order):
        lab, a_, b_, mode = types[int(ti)]
        r, z = pts[int(idx[j % 4])][0], pts[int(idx[j % 4])][1]
        if mode == 0:        # x = +-r, y special
            x, y = a_ * r, b_
        elif mode == 1:      # y = +-r, x special
            x, y = a_, b_ * r
        elif mode == 2:      # exact diagonal
            d = r / math.sqrt(2.0)
            x, y = a_ * d, b_ * d
        else:                # y tiny relative to r
            x, y = a_ * r, b_ * r
        out.append([float(x), float(y), float(z), lab])
    return out


def _gen_seq(rng):
    """Call sequence on ONE equilibrium object: a profile container is mapped (all four entry points), a second container
    is mapped, the first is changed IN PLACE and mapped again; the new mappings are evaluated interleaved."""
    amp = float(10 ** rng.uniform(-1, 3))
    nk = int(rng.integers(2, 9))
    inc = rng.uniform(0.3, 1.0, nk - 1)
    x = np.concatenate([[0.0], np.cumsum(inc) / inc.sum()])
    x[-1] = 1.0
    y1 = amp * rng.normal(size=nk)
    how = ["refill", "scale", "element"][int(rng.integers(3))]
    if how == "refill":
        y2 = amp * rng.normal(size=nk)
    elif how == "scale":
        y2 = y1 * float(rng.uniform(1.5, 3.0))
    else:
        y2 = y1.copy()
        y2[int(rng.integers(nk))] += amp * float(rng.choice([-1.0, 1.0]) * rng.uniform(0.5, 2.0))
    return dict(container=["ndarray", "ndarray", "list", "callable"][int(rng.integers(4))], how=how,
                slot=["tor", "pol", "nor"][int(rng.integers(3))], x=[float(v) for v in x], y1=[float(v) for v in y1],
                y2=[float(v) for v in y2], yB=[float(v) for v in amp * rng.normal(size=nk)],
                c1=[float(v) for v in amp * rng.normal(size=3)], c2=[float(v) for v in amp * rng.normal(size=3)],
                cB=[float(v) for v in amp * rng.normal(size=3)], others=[float(v) for v in amp * rng.normal(size=2)])


def gen_case(rng, tier):
    u = rng.random()
    if u < 0.2:
        eq = dict(kind="example")
    elif u < 0.4:
        eq = dict(kind="generomak")
    else:
        eq = _gen_solovev(rng)
    G = _geom(eq)
    u = rng.random()
    outside = None if u < 0.25 else (0.0 if u < 0.4 else float(rng.choice([-1.0, 1.0]) * 10 ** rng.uniform(-2, 4)))
    vamp = float(10 ** rng.uniform(0, 4.5))
    vel = dict(tor=_gen_profile(rng, vamp), pol=_gen_profile(rng, vamp * 10 ** rng.uniform(-2, 0)),
               nor=_gen_profile(rng, vamp * 10 ** rng.uniform(-3, 0)),
               outside=None if rng.random() < 0.4 else [float(v) for v in vamp * rng.normal(size=3)])
    prof = _gen_profile(rng)
    pts = _gen_points(rng, G, NPTS)
    return dict(eq=eq, profile=prof, outside=outside, vel=vel, points=pts, special3d=_gen_special3d(rng, pts), seq=_gen_seq(rng))


def fixed_cases(tier):
    """Deterministic cases: both bundled equilibria and both signs of Solov'ev, every profile kind."""
    out = []
    kinds = ["callable", "function1d", "function1d_interp", "array", "array_linear"]
    for k, seed in enumerate(range(8)):
        rng = np.random.default_rng([12, 99, seed])
        if k < 2:
            eq = dict(kind="example")
        elif k < 4:
            eq = dict(kind="generomak")
        else:
            eq = _gen_solovev(rng)
            d = abs(eq["psi_lcfs"] - eq["psi_axis"]) * (1 if k % 2 else -1)
            eq["psi_lcfs"] = eq["psi_axis"] + d
            eq["psi_axis_eq"] = eq["psi_axis"] + (0.03 * d if k >= 6 else 0.0)
            eq["poly_scale"] = [1.0, 1.04, 0.95, 1.0][k - 4]
        G = _geom(eq)
        prof = _gen_profile(rng)
        while prof["kind"] != kinds[k % len(kinds)]:
            prof = _gen_profile(rng)
        vamp = 1e3
        vel = dict(tor=_gen_profile(rng, vamp), pol=_gen_profile(rng, -0.1 * vamp), nor=_gen_profile(rng, 0.01 * vamp),
                   outside=None if k % 2 else [10.0, -20.0, 30.0])
        pts = _gen_points(rng, G, NPTS)
        out.append(core.jsonable(dict(eq=eq, profile=prof, outside=[None, 0.0, -7.5, 250.0][k % 4], vel=vel,
                                      points=pts, special3d=_gen_special3d(rng, pts), seq=_gen_seq(rng))))
    # regression case of the open finding inside_lcfs:point-on-triangulation-chord-reported-outside (mirrored octagon, a
    # sample point with exactly the z of a polygon vertex, 0.46 mm inside the polygon)
    rng = np.random.default_rng([12, 99, 100])
    eq = {"kind": "solovev", "poly_mode": "mirror", "poly_roll": 116, "poly_f": [0.44912825686919233, 0.28596337104531283, 0.8464236859274872, 0.5285553894229442],
          "R0": 2.5874069487367644, "a": 0.6018980031356884, "kappa": 1.0542013476370993, "tau": 0.0, "Z0": 0.19266150012416083,
          "psi_axis": 0.7482321631155031, "psi_lcfs": 0.9721311856379888, "psi_axis_eq": 0.7482321631155031, "nr": 44, "nz": 33,
          "rmin": 1.565043587803694, "rmax": 3.236014985933917, "zmin": -0.5547990018712647, "zmax": 1.1552733258505905, "poly_n": 8,
          "poly_scale": 0.9394329776446713, "poly_t0": 6.242180355638638, "poly_reverse": True, "f_edge": -4.213018891133002,
          "f_alpha": -0.051526833207879985, "f_knots": 14, "r_vac": 2.087662133248533, "limiter": False}
    pts = _gen_points(rng, _geom(eq), NPTS)
    pts.append([1.9928034115338025, -0.03545249549887075, 0.3, -2.0, "polygon_edge"])
    out.append(core.jsonable(dict(eq=eq, profile=_gen_profile(rng), outside=-3.0, vel=dict(tor=_gen_profile(rng, 1e3), pol=_gen_profile(rng, 1e2),
                                  nor=_gen_profile(rng, 10.0), outside=None), points=pts, special3d=_gen_special3d(rng, pts), seq=_gen_seq(rng))))
    return out


# ----------------------------------------------------------------------------------------------
# profiles: object handed to cherab, and oracle
# ----------------------------------------------------------------------------------------------

def _form(form, c, x):
    if form == "poly":
        return c[0] + c[1] * x + c[2] * x * x
    return c[0] * np.exp(-c[1] * x) + c[2]


def _profile_object(p):
    kind, form, c = p["kind"], p["form"], p["c"]
    if kind == "callable":
        if form == "poly":
            return lambda x: c[0] + c[1] * x + c[2] * x * x
        return lambda x: c[0] * math.exp(-c[1] * x) + c[2]
    if kind == "function1d":
        from raysect.core.math.function.float import Arg1D, Exp1D
        if form == "poly":
            return c[0] + c[1] * Arg1D() + c[2] * Arg1D() * Arg1D()
        return c[0] * Exp1D(-c[1] * Arg1D()) + c[2]
    if kind == "function1d_interp":
        from raysect.core.math.function.float import Interpolator1DArray
        return Interpolator1DArray(np.array(p["x"]), np.array(p["y"]), "cubic", "none", 0)
    data = [list(p["x"]), list(p["y"])]
    return data if p["container"] == "list" else np.array(data)


def _profile_oracle(p):
    """Vectorised reference value of the profile at psi_n in [0, 1]."""
    kind = p["kind"]
    if kind in ("callable", "function1d", "array_linear"):
        form, c = p["form"], p["c"]
        return lambda x: _form(form, c, np.asarray(x, float))
    from raysect.core.math.function.float import Interpolator1DArray
    f = Interpolator1DArray(np.array(p["x"]), np.array(p["y"]), "cubic", "none", 0)   # documented meaning of a 2xN table
    return lambda x: np.array([f(float(v)) for v in np.atleast_1d(x)], float)


def _profile_scale(p):
    x = np.linspace(0, 1, 201)
    s = float(np.max(np.abs(_form(p["form"], p["c"], x))))
    if "y" in p:
        s = max(s, 2.0 * float(np.max(np.abs(p["y"]))))
    return s + 1e-300


# ----------------------------------------------------------------------------------------------
# equilibria (the objects under test)
# ----------------------------------------------------------------------------------------------

def _build_equilibrium(e, G):
    if e["kind"] == "example":
        if "eq_example" not in _CACHE:
            from cherab.tools.equilibrium import example_equilibrium
            _CACHE["eq_example"] = example_equilibrium()
        return _CACHE["eq_example"]
    if e["kind"] == "generomak":
        if "eq_generomak" not in _CACHE:
            from cherab.generomak.equilibrium import load_equilibrium
            _CACHE["eq_generomak"] = load_equilibrium()
        return _CACHE["eq_generomak"]
    from cherab.tools.equilibrium import EFITEquilibrium
    from raysect.core import Point2D
    xk = np.linspace(0.0, 1.0, e["f_knots"])
    fprof = np.array([xk, e["f_edge"] * (1 + e["f_alpha"] * (1 - xk))])
    qprof = np.array([xk, 1.0 + 2.0 * xk ** 2])
    r, z = G["r"], G["z"]
    lim = None if G["lx"] is None else np.array([G["lx"], G["ly"]])
    return EFITEquilibrium(r, z, G["psi"], e["psi_axis_eq"], e["psi_lcfs"], Point2D(e["R0"], e["Z0"]), [], [], fprof, qprof,
                           e["r_vac"], e["f_edge"] / e["r_vac"], np.array([G["vx"], G["vy"]]), lim, 0.0)


def _max_bpol_nodes(eq, G, key):
    if key not in _CACHE:
        m = 0.0
        for a_ in G["r"][1:-1]:
            for b_ in G["z"][1:-1]:
                b = eq.b_field(a_, b_)
                m = max(m, math.hypot(b.x, b.z))
        _CACHE[key] = m
    return _CACHE[key]


class _TargetError(Exception):
    pass


class _MutableProfile:
    """Python callable with mutable state: c0 + c1 x + c2 x^2 with the coefficient list changed in place."""

    def __init__(self, c):
        self.c = list(c)

    def __call__(self, x):
        return self.c[0] + self.c[1] * x + self.c[2] * x * x


def _seq_container(q, which):
    kind = q["container"]
    if kind == "callable":
        return _MutableProfile(q["c1"] if which == "A" else q["cB"])
    data = [list(q["x"]), list(q["y1"] if which == "A" else q["yB"])]
    return np.array(data) if kind == "ndarray" else data


def _seq_modify(q, A):
    kind = q["container"]
    if kind == "callable":
        A.c[:] = q["c2"]
    elif kind == "ndarray":
        A[1, :] = q["y2"]
    else:
        A[1][:] = q["y2"]


def _seq_oracle(q, content):
    if q["container"] == "callable":
        c = {"1": q["c1"], "2": q["c2"], "B": q["cB"]}[content]
        return lambda x: c[0] + c[1] * x + c[2] * x * x
    from raysect.core.math.function.float import Interpolator1DArray
    f = Interpolator1DArray(np.array(q["x"]), np.array({"1": q["y1"], "2": q["y2"], "B": q["yB"]}[content]), "cubic", "none", 0)
    return lambda x: f(float(x))


def _seq_stage(ctx, eq, q, out_val, samples, eqcls):
    """samples: list of (r, z, psin, x, y, phi, basis2d (T, P, N), basis3d (T, P, N) at the 3-D radius, psin3d)."""
    from raysect.core import Vector3D
    ctx.cls("seq:" + q["container"])
    slot = {"tor": 0, "pol": 1, "nor": 2}[q["slot"]]
    o1, o2 = q["others"]
    scale = 1e-300 + max(np.max(np.abs(q[k_])) for k_ in ("y1", "y2", "yB", "c1", "c2", "cB")) * 3.0 + abs(out_val)

    def vec_args(container):
        args = [lambda x: o1, lambda x: o2, lambda x: 0.5 * (o1 - o2)]
        args[slot] = container
        return args

    def make(container, tag):
        return dict(m2=_call(ctx, "map2d", eq.map2d, container, out_val), m3=_call(ctx, "map3d", eq.map3d, container, out_val),
                    v2=_call(ctx, "map_vector2d", eq.map_vector2d, *vec_args(container)),
                    v3=_call(ctx, "map_vector3d", eq.map_vector3d, *vec_args(container)), tag=tag)

    def judge(mp, oracle, stage, mon):
        for (r, z, psn, x, y, phi, b2, b3, psn3) in samples:
            want, want3 = oracle(psn), oracle(psn3)
            got = {"map2d": _call(ctx, "map2d()", mp["m2"], r, z), "map3d": _call(ctx, "map3d()", mp["m3"], x, y, z)}
            v = _call(ctx, "map_vector2d()", mp["v2"], r, z)
            got["map_vector2d"] = v.x * b2[slot][0] + v.y * b2[slot][1] + v.z * b2[slot][2]
            v = _call(ctx, "map_vector3d()", mp["v3"], x, y, z)
            c, s_ = math.cos(phi), math.sin(phi)
            cyl = (v.x * c + v.y * s_, -v.x * s_ + v.y * c, v.z)
            got["map_vector3d"] = cyl[0] * b3[slot][0] + cyl[1] * b3[slot][1] + cyl[2] * b3[slot][2]
            for name in ("map2d", "map3d", "map_vector2d", "map_vector3d"):
                w = want3 if name.endswith("3d") else want
                ctx.close(got[name], w, "sequence:%s:%s:%s" % (name, q["container"], stage),
                          {"first-mapping-not-profile-of-psin": "first mapping of a profile container differs from its content evaluated at psi_n",
                           "new-mapping-after-in-place-change-not-current-content":
                               "a mapping created after the profile container was changed in place does not follow the container's current content",
                           "second-container-mapping-disturbed": "mapping of a second, different profile container (alive at the same time, evaluated "
                                                                 "interleaved) differs from that container's content"}[stage],
                          rtol=1e-11, atol=1e-11 * scale, monitor=mon, how=q["how"], slot=q["slot"], eq=eqcls)

    A = _seq_container(q, "A")
    B = _seq_container(q, "B")
    first = make(A, "first")
    judge(first, _seq_oracle(q, "1"), "first-mapping-not-profile-of-psin", "seq_first")
    mapB = make(B, "B")
    _seq_modify(q, A)
    new = make(A, "new")
    # interleaved evaluation of the new mapping, the other container's mapping, and (unjudged) the old mapping
    for (r, z, psn, x, y, phi, b2, b3, psn3) in samples[:2]:
        _call(ctx, "map2d()", first["m2"], r, z)
        _call(ctx, "map_vector3d()", first["v3"], x, y, z)
    judge(new, _seq_oracle(q, "2"), "new-mapping-after-in-place-change-not-current-content", "seq_remap")
    judge(mapB, _seq_oracle(q, "B"), "second-container-mapping-disturbed", "seq_other")
    judge(new, _seq_oracle(q, "2"), "new-mapping-after-in-place-change-not-current-content", "seq_remap")


def _call(ctx, name, fn, *args):
    """Call into the code under test; any exception for an in-domain argument is a violation keyed by accessor."""
    try:
        return fn(*args)
    except Exception as e:  # noqa
        ctx.viol("%s:raises-%s" % (name, type(e).__name__),
                 "%s raised %s for an in-domain argument: %s" % (name, type(e).__name__, str(e)[:200]), args=[repr(a)[:80] for a in args])
        raise _TargetError(name)


# ----------------------------------------------------------------------------------------------
# the monitor
# ----------------------------------------------------------------------------------------------

def run_case(case, ctx):
    try:
        _run(case, ctx)
    except _TargetError:
        return


def _run(case, ctx):
    from raysect.core import Vector3D
    e = case["eq"]
    G = _geom(e)
    eq = _call(ctx, "EFITEquilibrium", _build_equilibrium, e, G)
    sol = G["sol"]
    psi_axis, psi_lcfs = G["psi_axis"], G["psi_lcfs"]
    delta = psi_lcfs - psi_axis
    eqcls = e["kind"] if sol is None else ("solovev+" if delta > 0 else "solovev-")
    ctx.cls("eq:" + eqcls)
    if sol is not None:
        ctx.cls("polygon:" + ("exact" if e["poly_scale"] == 1.0 else ("shrunk" if e["poly_scale"] < 1 else "grown")))
        ctx.cls("polygon_listing:%s%s" % (e.get("poly_mode", "param"), ":first-last-share-coordinate"
                                          if (G["vx"][0] == G["vx"][-1] or G["vy"][0] == G["vy"][-1]) else ""))
        ctx.cls("grid:r=%s,z=%s" % (e.get("grid_r", {}).get("kind", "uniform"), e.get("grid_z", {}).get("kind", "uniform")))
        ctx.cls("limiter:" + e.get("limiter_mode", "generous" if e.get("limiter") else "none"))
        ctx.cls("axis_value:" + ("offset" if e["psi_axis_eq"] != e["psi_axis"] else "exact"))
    prof = case["profile"]
    ctx.cls("profile:" + prof["kind"])
    outside = case["outside"]
    ctx.cls("outside:" + ("default" if outside is None else ("zero" if outside == 0 else ("pos" if outside > 0 else "neg"))))
    vel = case["vel"]
    ctx.cls("vel_outside:" + ("default" if vel["outside"] is None else "vector"))
    for nm in ("tor", "pol", "nor"):
        ctx.cls("vel_%s:%s" % (nm, vel[nm]["kind"]))

    # ---- objects under test --------------------------------------------------------------------
    pobj = _profile_object(prof)
    if outside is None:
        m2 = _call(ctx, "map2d", eq.map2d, pobj)
        m3 = _call(ctx, "map3d", eq.map3d, _profile_object(prof))
    else:
        m2 = _call(ctx, "map2d", eq.map2d, pobj, outside)
        m3 = _call(ctx, "map3d", eq.map3d, _profile_object(prof), outside)
    out_val = 0.0 if outside is None else float(outside)
    vo = vel["outside"]
    vargs = [_profile_object(vel[k]) for k in ("tor", "pol", "nor")]
    vargs3 = [_profile_object(vel[k]) for k in ("tor", "pol", "nor")]
    if vo is None:
        v2 = _call(ctx, "map_vector2d", eq.map_vector2d, *vargs)
        v3 = _call(ctx, "map_vector3d", eq.map_vector3d, *vargs3)
        vo = [0.0, 0.0, 0.0]
    else:
        v2 = _call(ctx, "map_vector2d", eq.map_vector2d, *vargs, Vector3D(*vo))
        v3 = _call(ctx, "map_vector3d", eq.map_vector3d, *vargs3, Vector3D(*vo))
    vo = np.array(vo, float)

    # ---- sample: row 0 of each point is (r, z); rows 1, 2 are the two toroidal angles (radius recomputed) --------
    pts = case["points"]
    rows = []      # R, Z, phi (nan for 2-D rows), x, y, point index
    for ip, (r, z, ph1, ph2, lab) in enumerate(pts):
        rows.append((r, z, float("nan"), r, 0.0, ip))
        for ph in (ph1, ph2):
            x, y = r * math.cos(ph), r * math.sin(ph)
            rows.append((math.sqrt(x * x + y * y), z, math.atan2(y, x), x, y, ip))
    nreg = len(rows)
    spec = case.get("special3d", [])
    for x, y, z, lab in spec:                                   # exact coordinates, used as stored (signed zeros, subnormals)
        rows.append((math.sqrt(x * x + y * y), z, math.atan2(y, x), x, y, None))
        ctx.mon("pts3d_" + lab)
    n = len(rows)
    is_spec = np.arange(n) >= nreg
    R = np.array([w[0] for w in rows])
    Z = np.array([w[1] for w in rows])
    PHI = np.array([w[2] for w in rows])
    is3 = np.isfinite(PHI)
    # keep the recomputed radius inside the grid (it can exceed the outermost line by an ulp)
    if R.min() < G["r"][0] or R.max() > G["r"][-1]:
        ctx.skip("3-D radius rounds outside the grid")
        return
    f_psi, f_psin, f_mask, f_b = eq.psi, eq.psi_normalised, eq.inside_lcfs, eq.b_field
    f_t, f_p, f_n = eq.toroidal_vector, eq.poloidal_vector, eq.surface_normal

    def col(name, fn, width, three_d=False, essential=False):
        """Evaluate one accessor over all rows; an exception is a violation (reported once per case and accessor),
        the row stays NaN and is excluded from the comparisons that need it."""
        out = np.full((n, width), np.nan)
        reported = False
        for k, (r_, z_, ph, x, y, ip) in enumerate(rows):
            if three_d and ph != ph:
                continue
            try:
                v = fn(x, y, z_) if three_d else fn(r_, z_)
            except Exception as ex:  # noqa
                if not reported:
                    ctx.viol("%s:raises-%s" % (name, type(ex).__name__),
                             "%s raised %s for an in-domain point: %s" % (name, type(ex).__name__, str(ex)[:200]),
                             r=r_, z=z_, phi=ph, eq=eqcls)
                    reported = True
                if essential:
                    raise _TargetError(name)
                continue
            out[k] = (v.x, v.y, v.z) if width == 3 else v
            if not np.all(np.isfinite(out[k])) and not reported:
                ctx.viol("%s:non-finite" % name, "%s returned a non-finite value for an in-domain point" % name,
                         r=r_, z=z_, phi=ph, eq=eqcls, got=out[k])
                reported = True
        return out if width == 3 else out[:, 0]

    psi_c = col("psi", f_psi, 1, essential=True)
    psin = col("psi_normalised", f_psin, 1, essential=True)
    mask = col("inside_lcfs", f_mask, 1, essential=True)
    s2 = col("map2d()", m2, 1)
    B = col("b_field", f_b, 3)
    T = col("toroidal_vector", f_t, 3)
    Pv = col("poloidal_vector", f_p, 3)
    Nv = col("surface_normal", f_n, 3)
    V2 = col("map_vector2d()", v2, 3)
    s3 = col("map3d()", m3, 1, three_d=True)
    V3 = col("map_vector3d()", v3, 3, three_d=True)
    ok_s2 = np.isfinite(s2)
    ok_s3 = np.isfinite(s3)
    ok_B = np.isfinite(B).all(axis=1)
    ok_basis = ok_B & np.isfinite(T).all(axis=1) & np.isfinite(Pv).all(axis=1) & np.isfinite(Nv).all(axis=1)
    ok_V2 = np.isfinite(V2).all(axis=1)
    ok_V3 = np.isfinite(V3).all(axis=1)

    # ---- psi_normalised ------------------------------------------------------------------------
    ctx.check(bool(np.all(psin >= 0.0)) and bool(np.all(np.isfinite(psin))), "psi_normalised:negative",
              "psi_normalised returned a negative (or non-finite) value", monitor="psin_nonneg", min=float(np.nanmin(psin)))
    ctx.mon("psin_nonneg", n - 1)
    raw = (psi_c - psi_axis) / delta
    ctx.mon("psin_clamp_decisive", int((raw < 0).sum()))
    gmax = float(np.max(np.abs((G["psi"] - psi_axis) / delta)))
    pmax = float(np.max(np.abs(G["psi"])))
    tol_def = 1e-11 * (1.0 + gmax + pmax / abs(delta))
    ctx.close(psin, np.maximum(raw, 0.0), "psi_normalised:not-clamped-normalisation-of-psi",
              "psi_normalised differs from max(0, (psi - psi_axis)/(psi_lcfs - psi_axis)) of the public psi interpolant",
              atol=tol_def, monitor="psin_def")
    # exact node values
    nodes = [k for k, w in enumerate(rows) if w[5] is not None and pts[w[5]][4] == "node" and not is3[k]]
    if nodes:
        ir = [int(np.argmin(np.abs(G["r"] - R[k]))) for k in nodes]
        iz = [int(np.argmin(np.abs(G["z"] - Z[k]))) for k in nodes]
        want = G["psi"][ir, iz]
        ctx.close(psi_c[nodes], want, "psi:not-exact-at-grid-nodes", "psi interpolant does not reproduce the grid value at a grid node",
                  atol=1e-12 * pmax, monitor="psi_nodes")
        ctx.close(psin[nodes], np.maximum((want - psi_axis) / delta, 0.0), "psi_normalised:not-exact-at-grid-nodes",
                  "psi_normalised does not equal the clamped normalised grid value at a grid node", atol=tol_def, monitor="psi_nodes")
    bd = None
    if sol is not None:
        bd = Bounds(sol, G["r"], G["z"])
        hmin = min(bd.hr, bd.hz)
        floor = 1e-12 * pmax / hmin
        tol_psi = SAFETY * bd.psi(R, Z) + 1e-12 * pmax
        ctx.close(psi_c, sol.psi(R, Z), "psi:deviates-from-analytic-beyond-interpolation-bound",
                  "psi interpolant deviates from the analytic Solov'ev flux by more than the bicubic interpolation bound",
                  atol=tol_psi, monitor="psi_analytic")
        ctx.close(psin, np.maximum((sol.psi(R, Z) - psi_axis) / delta, 0.0), "psi_normalised:deviates-from-analytic-beyond-interpolation-bound",
                  "psi_normalised deviates from the analytic normalised Solov'ev flux by more than the interpolation bound",
                  atol=tol_psi / abs(delta) + tol_def, monitor="psi_analytic")

    # ---- LCFS mask -----------------------------------------------------------------------------
    vx, vy = G["vx"], G["vy"]
    pin = point_in_polygon(R, Z, vx, vy)
    pd = polygon_distance(R, Z, vx, vy)
    dec = pd >= EDGE_EXCL
    dec3 = dec & (np.abs(psin - 1.0) >= EDGE_EXCL)
    nund = int((~dec).sum())
    if nund:
        ctx.skips["point within 1e-6 of an LCFS polygon edge (undecidable)"] += nund
    inside = pin & (psin <= 1.0)
    ctx.mon("pts_private_flux", int((dec & ~pin & (psin <= 1.0)).sum()))
    ctx.mon("pts_polygon_inside_psin_gt_1", int((dec & pin & (psin > 1.0)).sum()))
    seam = np.array([w[5] is not None and pts[w[5]][4] == "listing_seam" for w in rows])
    ctx.mon("pts_listing_seam", int((dec & seam).sum()))
    if G.get("lx") is not None:
        lin = point_in_polygon(R, Z, G["lx"], G["ly"])
        ldec = polygon_distance(R, Z, G["lx"], G["ly"]) >= EDGE_EXCL
        ctx.mon("pts_inside_lcfs_outside_limiter", int((dec & inside & ldec & ~lin).sum()))
    ctx.mon("pts_inside", int((dec & inside).sum()))
    ctx.mon("pts_outside", int((dec & ~inside).sum()))
    ctx.mon("lcfs_mask", int(dec.sum()))
    okv = (mask == 0.0) | (mask == 1.0)
    if not okv.all():
        k = int(np.argmin(okv))
        ctx.viol("inside_lcfs:value-not-0-or-1", "inside_lcfs returned a value other than 0 or 1", r=R[k], z=Z[k], got=mask[k])
    bad = dec & okv & ((mask == 1.0) != inside)
    # Known mechanism with its own key: the polygon mask is a triangulated mesh whose point location has no tolerance,
    # so an inside point within rounding distance of an internal triangulation edge (a chord between two polygon
    # vertices) can be reported outside.  Such rows are reported under that key and taken out of the mask-dependent
    # comparisons below (their map values follow the wrong mask).
    cand = bad & inside
    if cand.any():
        chord = np.zeros(n, bool)
        ii, jj = np.triu_indices(len(vx), 1)
        ax_, ay_, bx_, by_ = vx[ii], vy[ii], vx[jj], vy[jj]
        L = np.hypot(bx_ - ax_, by_ - ay_) + 1e-300
        for k in np.flatnonzero(cand):
            dist = np.abs((bx_ - ax_) * (Z[k] - ay_) - (by_ - ay_) * (R[k] - ax_)) / L
            chord[k] = bool(dist.min() <= CHORD_EPS)
        if chord.any():
            k = int(np.argmax(chord))
            ctx.viol("inside_lcfs:point-on-triangulation-chord-reported-outside",
                     "point strictly inside the LCFS polygon (psi_n <= 1) but within rounding distance of a chord between two "
                     "polygon vertices (internal triangulation edge) reported outside",
                     r=R[k], z=Z[k], psin=psin[k], polygon_distance=pd[k], n_bad=int(chord.sum()))
            bad = bad & ~chord
            dec = dec & ~chord
            dec3 = dec3 & ~chord
            ctx.skips["inside point on a triangulation chord misreported by the polygon mask (known finding)"] += int(chord.sum())
    if bad.any():
        for cond, key, what in (
                (bad & pin & (psin > 1.0), "inside_lcfs:polygon-inside-psin-gt-1-reported-inside", "point inside the polygon with psi_n > 1 reported inside the LCFS"),
                (bad & ~pin & (psin <= 1.0), "inside_lcfs:polygon-outside-psin-le-1-reported-inside", "point outside the LCFS polygon (private flux / chord sliver, psi_n <= 1) reported inside"),
                (bad & ~pin & (psin > 1.0), "inside_lcfs:outside-both-reported-inside", "point outside the polygon with psi_n > 1 reported inside the LCFS"),
                (bad & inside, "inside_lcfs:inside-reported-outside", "point inside the LCFS polygon with psi_n <= 1 reported outside")):
            if cond.any():
                k = int(np.argmax(cond))
                ctx.viol(key, what, r=R[k], z=Z[k], psin=psin[k], polygon_distance=pd[k], got=mask[k], n_bad=int(cond.sum()))

    # ---- scalar maps ---------------------------------------------------------------------------
    pscale = _profile_scale(prof) + abs(out_val)
    oracle = _profile_oracle(prof)
    pk = "array" if prof["kind"] in ("array", "array_linear") else prof["kind"]
    sel_in = dec & inside
    sel_out = dec & ~inside
    si, so = sel_in & ok_s2, sel_out & ok_s2
    if si.any():
        ctx.close(s2[si], oracle(psin[si]), "map2d:%s:inside-not-profile-of-psin" % pk,
                  "map2d inside the LCFS differs from the profile evaluated at psi_normalised of the point",
                  rtol=1e-12, atol=1e-12 * pscale, monitor="map2d_inside", profile_kind=prof["kind"], eq=eqcls)
    if so.any():
        ctx.close(s2[so], np.full(int(so.sum()), out_val), "map2d:outside-not-outside-value",
                  "map2d outside the LCFS differs from value_outside_lcfs", atol=1e-12 * pscale, monitor="map2d_outside",
                  profile_kind=prof["kind"], eq=eqcls)
    m = is3 & dec3 & ok_s2 & ok_s3 & ~is_spec
    if m.any():
        ctx.close(s3[m], s2[m], "map3d:not-axisymmetric-extension-of-map2d",
                  "map3d(x, y, z) differs from map2d(sqrt(x^2+y^2), z)", rtol=1e-11, atol=1e-11 * pscale, monitor="map3d", eq=eqcls)
    m = is3 & dec3 & ok_s2 & ok_s3 & is_spec
    if m.any():
        k0 = int(np.argmax(m))
        ctx.close(s3[m], s2[m], "map3d:exact-special-point-not-axisymmetric-extension-of-map2d",
                  "map3d at an exact special point (signed-zero / subnormal coordinate, half-axis, diagonal) differs from "
                  "map2d(sqrt(x^2+y^2), z)", rtol=1e-11, atol=1e-11 * pscale, monitor="map3d_special", eq=eqcls,
                  first_xy=[rows[k0][3], rows[k0][4]])
    # same (r, z), two toroidal angles
    a1 = np.arange(1, nreg, 3)
    a2 = a1 + 1
    mm = dec3[a1] & dec3[a2] & ok_s3[a1] & ok_s3[a2]
    if mm.any():
        ctx.close(s3[a1][mm], s3[a2][mm], "map3d:depends-on-toroidal-angle", "map3d differs between two toroidal angles at the same (r, z)",
                  rtol=1e-11, atol=1e-11 * pscale, monitor="map3d_phi", eq=eqcls)

    # ---- basis ---------------------------------------------------------------------------------
    bpol = np.hypot(B[:, 0], B[:, 2])
    nz = ok_basis & (bpol > 0.0)
    if (ok_B & (bpol == 0.0)).any():
        ctx.skips["in-plane field exactly zero: basis undefined"] += int((ok_B & (bpol == 0.0)).sum())
    if nz.any():
        t, p, q, b = T[nz], Pv[nz], Nv[nz], B[nz]
        nb = int(nz.sum())
        one = np.ones(nb)
        zero = np.zeros(nb)
        ctx.close(t, np.tile([0.0, 1.0, 0.0], (nb, 1)), "basis:toroidal-not-unit-phi", "toroidal_vector is not (0, 1, 0)", atol=1e-12, monitor="basis")
        ctx.close(np.linalg.norm(p, axis=1), one, "basis:poloidal-not-unit", "poloidal_vector is not a unit vector", atol=1e-12, monitor="basis")
        ctx.close(np.linalg.norm(q, axis=1), one, "basis:normal-not-unit", "surface_normal is not a unit vector", atol=1e-12, monitor="basis")
        ctx.close(np.sum(p * t, axis=1), zero, "basis:poloidal-not-perpendicular-to-toroidal", "poloidal.toroidal != 0", atol=1e-12, monitor="basis")
        ctx.close(np.sum(q * t, axis=1), zero, "basis:normal-not-perpendicular-to-toroidal", "normal.toroidal != 0", atol=1e-12, monitor="basis")
        ctx.close(np.sum(q * p, axis=1), zero, "basis:normal-not-perpendicular-to-poloidal", "normal.poloidal != 0", atol=1e-12, monitor="basis")
        ctx.close(q, np.cross(p, t), "basis:normal-not-poloidal-cross-toroidal", "surface_normal != poloidal x toroidal", atol=1e-12, monitor="basis")
        bin_ = np.stack([b[:, 0], np.zeros(nb), b[:, 2]], axis=1)
        bhat = bin_ / bpol[nz][:, None]
        ctx.close(p, bhat, "basis:poloidal-not-along-inplane-field", "poloidal_vector is not the unit vector of the in-plane field",
                  atol=1e-12, monitor="basis")
        bn = np.sum(b * q, axis=1)
        ctx.close(bn / np.linalg.norm(b, axis=1), zero, "b_field:component-along-surface-normal", "B . surface_normal != 0",
                  atol=1e-12, monitor="b_normal")

    # ---- field anchors ---------------------------------------------------------------------------
    if sol is not None:
        tol_r = (SAFETY * bd.dpsi_dR(R, Z) + floor) / R
        tol_z = (SAFETY * bd.dpsi_dZ(R, Z) + floor) / R
        ctx.close(B[ok_B, 0], (-sol.dpsi_dZ(R, Z) / R)[ok_B], "b_field:solovev:br-not-minus-dpsi_dz-over-r",
                  "radial field deviates from -psi_Z / r of the analytic flux by more than the np.gradient + interpolation bound",
                  atol=tol_z[ok_B], monitor="field_analytic", eq=eqcls)
        ctx.close(B[ok_B, 2], (sol.dpsi_dR(R, Z) / R)[ok_B], "b_field:solovev:bz-not-dpsi_dr-over-r",
                  "vertical field deviates from psi_R / r of the analytic flux by more than the np.gradient + interpolation bound",
                  atol=tol_r[ok_B], monitor="field_analytic", eq=eqcls)
        if e.get("grid_r", {}).get("kind", "uniform") != "uniform" or e.get("grid_z", {}).get("kind", "uniform") != "uniform":
            ctx.mon("field_analytic_nonuniform", 2 * int(ok_B.sum()))
        fe, fa = e["f_edge"], e["f_alpha"]
        bi, bo = sel_in & ok_B, sel_out & ok_B
        if bi.any():
            ctx.close(B[bi, 1], fe * (1 + fa * (1 - psin[bi])) / R[bi], "b_field:solovev:bt-inside-not-F-over-r",
                      "toroidal field inside the LCFS differs from F(psi_n) / r", rtol=1e-10, monitor="field_analytic", eq=eqcls)
        if bo.any():
            ctx.close(B[bo, 1], fe / R[bo], "b_field:solovev:bt-outside-not-vacuum",
                      "toroidal field outside the LCFS differs from the vacuum field B_vac R_vac / r", rtol=1e-12, monitor="field_analytic", eq=eqcls)
    else:
        r_, z_ = G["r"], G["z"]
        bmax = _max_bpol_nodes(eq, G, "bmax_" + e["kind"])
        sel = (R >= r_[2]) & (R <= r_[-3]) & (Z >= z_[2]) & (Z <= z_[-3]) & ok_B & (np.nan_to_num(bpol) >= 0.3 * bmax)
        if sel.any():
            h = 1e-3 * min(np.min(np.diff(r_)), np.min(np.diff(z_)))
            gr = np.array([(f_psi(a_ + h, b_) - f_psi(a_ - h, b_)) / (2 * h) for a_, b_ in zip(R[sel], Z[sel])])
            gz = np.array([(f_psi(a_, b_ + h) - f_psi(a_, b_ - h)) / (2 * h) for a_, b_ in zip(R[sel], Z[sel])])
            ex, ez = -gz / R[sel], gr / R[sel]
            cosang = (ex * B[sel, 0] + ez * B[sel, 2]) / (np.hypot(ex, ez) * bpol[sel] + 1e-300)
            ctx.mon("field_orientation", int(sel.sum()))
            ctx.margin("field_orientation", float(np.max((1.0 - cosang) / (1.0 - COS_MIN))))
            if (cosang < COS_MIN).any():
                k = int(np.argmin(cosang))
                ctx.viol("b_field:bundled:orientation-not-along-(-dpsi_dz,dpsi_dr)",
                         "in-plane field is not oriented along (-dpsi/dz, dpsi/dr)/r of the public psi interpolant (cos < %.1f)" % COS_MIN,
                         r=R[sel][k], z=Z[sel][k], cos=float(cosang[k]), eq=eqcls, n_bad=int((cosang < COS_MIN).sum()))

    # ---- velocity maps -------------------------------------------------------------------------
    vs = max(_profile_scale(vel[k_]) for k_ in ("tor", "pol", "nor")) + float(np.max(np.abs(vo)))
    sv_in = sel_in & nz & ok_V2
    vo_sel = sel_out & ok_V2
    if sv_in.any():
        x = psin[sv_in]
        for comp, basis, nm in (("tor", T, "toroidal"), ("pol", Pv, "poloidal"), ("nor", Nv, "normal")):
            want = _profile_oracle(vel[comp])(x)
            got = np.sum(V2[sv_in] * basis[sv_in], axis=1)
            ctx.close(got, want, "map_vector2d:%s-component-not-prescribed-profile" % nm,
                      "component of the mapped velocity along the %s basis vector differs from the prescribed profile of psi_n" % nm,
                      rtol=1e-12, atol=1e-12 * vs, monitor="vec2d_inside", profile_kind=vel[comp]["kind"], eq=eqcls)
        # nothing else hidden in the vector: its length is fixed by the three components
        want2 = sum(_profile_oracle(vel[c_])(x) ** 2 for c_ in ("tor", "pol", "nor"))
        ctx.close(np.sum(V2[sv_in] ** 2, axis=1), want2, "map_vector2d:length-not-from-three-components",
                  "|v|^2 of the mapped velocity is not the sum of the squared prescribed components", rtol=1e-11, atol=1e-11 * vs * vs,
                  monitor="vec2d_inside", eq=eqcls)
    if vo_sel.any():
        ctx.close(V2[vo_sel], np.tile(vo, (int(vo_sel.sum()), 1)), "map_vector2d:outside-not-outside-value",
                  "map_vector2d outside the LCFS differs from value_outside_lcfs", atol=1e-12 * vs, monitor="vec2d_outside", eq=eqcls)
    for m, key, what, mon in (
            (is3 & dec3 & ok_V2 & ok_V3 & ~is_spec, "map_vector3d:not-2d-vector-rotated-by-toroidal-angle",
             "(radial, toroidal, vertical) components of map_vector3d at toroidal angle phi differ from map_vector2d at (sqrt(x^2+y^2), z)", "vec3d"),
            (is3 & dec3 & ok_V2 & ok_V3 & is_spec, "map_vector3d:exact-special-point-not-2d-vector-rotated-by-atan2(y,x)",
             "at an exact special point (signed-zero / subnormal coordinate, half-axis, diagonal) map_vector3d is not map_vector2d at "
             "(sqrt(x^2+y^2), z) rotated by the toroidal angle atan2(y, x)", "vec3d_special")):
        if not m.any():
            continue
        c, s = np.cos(PHI[m]), np.sin(PHI[m])
        g = V3[m]
        cyl = np.stack([g[:, 0] * c + g[:, 1] * s, -g[:, 0] * s + g[:, 1] * c, g[:, 2]], axis=1)
        vmag = np.linalg.norm(V2[m], axis=1)[:, None]
        bad = np.abs(cyl - V2[m]).max(axis=1) > (1e-11 * (vs + vmag))[:, 0]
        kb = np.flatnonzero(m)[int(np.argmax(bad))] if bad.any() else int(np.argmax(m))
        ctx.close(cyl, V2[m], key, what, atol=1e-11 * (vs + vmag), monitor=mon, eq=eqcls,
                  first_bad_xyz=[rows[kb][3], rows[kb][4], rows[kb][1]], phi=float(PHI[kb]))
    if si.any() and so.any() and nz.any():
        ctx.nontrivial()

    # ---- call sequences on this equilibrium object --------------------------------------------------
    q = case.get("seq")
    if q is not None:
        samples = []
        for ip in range(len(pts)):
            k = 3 * ip
            if not (sel_in[k] and nz[k] and sel_in[k + 1] and nz[k + 1] and dec3[k + 1]):
                continue
            samples.append((R[k], Z[k], psin[k], rows[k + 1][3], rows[k + 1][4], PHI[k + 1], (T[k], Pv[k], Nv[k]),
                            (T[k + 1], Pv[k + 1], Nv[k + 1]), psin[k + 1]))
            if len(samples) == 5:
                break
        if len(samples) < 2:
            ctx.skip("sequence stage: fewer than two decidable inside points")
        else:
            _seq_stage(ctx, eq, q, out_val, samples, eqcls)
