"""C09 — ionisation balance solves the steady-state equations, conserves particles / charge.

Monitor shape: reference model per call + contracts.

Every generated case drives ONE public entry point of cherab/tools/plasmas/ionisation_balance.py
(fractional_abundance, from_elementdensity, match_plasma_neutrality, the six interpolators*, abundance_axisymmetric_mapper,
the three equilibrium_map3d_* on the bundled example equilibrium, and the three documented coef_*-pass-through helpers)
with ONE input representation (python / numpy scalar, ndarray 1-D / 2-D, Function1D / Function2D with array or scalar
free variable, mixtures) on a MOCKAD provider (vf/mock_c09.py: arbitrary positive smooth rates keyed by every lookup
argument).  The values the code must have seen at every point (n_e, T_e, n_D, element density, other species) are obtained
by evaluating the very input objects in the harness; the oracle is the exact two-term recurrence
f_{z+1} = f_z S_z / (alpha_{z+1} + (n_D/n_e) C_{z+1}) in log space (vf/mock_c09.exact_fractions, no cherab code).

Per point the returned fractions are judged by
  range      0 <= f <= 1 (exact), finite;
  fractions  |f - f_exact| <= 1e-12 + dF,  dF = 200 eps kappa_2(A)  (forward error owed by a double-precision solve);
  sum        |sum f - 1| <= 1e-12 + 200 eps ||A||_2 + (Z+1) dF     (normalisation-row backward error, or the residual
             implied by an admissible forward error);
  balance    |f_z S_z - f_{z+1} R_{z+1}| <= 200 eps (Z+2) ||A||_2 / n_e + 2 max(rate) dF  for every neighbouring pair
             (pair flux = partial sum of the balance-row backward errors);
where A is the documented (Z+2)x(Z+1) system (balance matrix * n_e, row of ones) rebuilt by the harness from the mock
rates ONLY to size the tolerances.  Points whose forward tolerance exceeds 1e-4 (kappa > ~1e10) are not judged on the
forward error (counted as skipped) but still on range / sum / balance.  Density variants: from_elementdensity densities / n_el
are judged as fractions (=> sum = n_el); match_plasma_neutrality densities are >= 0, their normalised vector is judged as
fractions and sum z n_z + charge of the given species = n_e (rtol 1e-9) whenever the species' charge does not exceed n_e.
Function-valued results are evaluated at their knots (and mid-points: linear), equilibrium-mapped ones at (r, z) points
whose psi_n was made a knot at run time, so no interpolation model is needed.
Call-sequence class (12 % of cases): ONE mock atomic-data object per rate table stays alive while 3..8 consecutive calls of
random entry points differ in one thing at a time (donor charge 0/1/2, donor element, receiver element, some points of
n_e/T_e, donor density incl. exact zeros, rate table, entry point, donor on/off; sometimes on a fresh object); every call is
judged by the recurrence for ITS arguments, a failing call that equals the exact solution for an earlier call's rates/donor
is keyed sequence:result-depends-on-previous-call:<stale component>, and the first call repeated at the end must be identical.
Donor-density profiles mix exact zeros with positive values (mode "mixed"; judged point by point, zero => no-donor balance)
and n_e/T_e profiles contain coinciding entries; the scalar cross-entry comparison is made on the first point, the first
positive-donor point and the first zero-donor point (key profile:donor-zero-at-some-points:cx-dropped-elsewhere:*).
Species {charge: density} dicts are passed in random insertion orders (ascending, descending, shuffled, an entry re-inserted)
and as dict / OrderedDict / dict subclass; besides the charge-conservation oracle the same call with ascending dicts must
return the identical result (neutrality:depends-on-dict-insertion-order:*).  35 % of multi-point profiles repeat bit-identical
(n_e, T_e) pairs with different donor / element density; a later point that received the exact solution of the earlier one is
keyed profile:repeated-(n_e,T_e)-point-returns-earlier-points-result:*.
Input kinds: free variables are driven as int64 / int32 / float32 / float64 / non-contiguous arrays, python int / float,
numpy scalars, length-1 arrays (integer coordinates, functions taking non-integer values there) and n_e / T_e / density
ndarrays as int64 / float32 / non-contiguous; kinds the unchanged module rejects (1-D list / tuple, 0-d array, tuple of
lists, list ndarrays) are driven and counted as skip classes.  Besides the recurrence oracle at the float64 point values the
result must equal the same call on float64 ndarrays (inputs:*:disagrees-with-float64-ndarray-call,
inputs:function1d:integer-free-variable-truncates, inputs:*:raises-but-float64-ndarray-call-works).
N-d ndarray inputs (2-D and 3-D) come in C, Fortran, transposed / rolled-axes, strided and broadcast (zero-stride)
layouts, all arrays alike or each differently, and are judged element by element (recurrence per point + the same call on
C-contiguous float64 copies).  Equilibrium-mapped results are additionally evaluated BETWEEN the psi_n nodes: non-negative,
fractions <= 1 and summing to one, and identical to interpolators1d_<family> evaluated at psi_n(r, z) (off-node:* keys).
Free variables of the three public profile functions come in ascending, descending, unsorted order and with repeated
coordinates (all profiles reordered alike; functions are sampled at the caller's coordinates), judged point by point and
against the same call on ndarrays (inputs:free-variable-order:*).  Container class (6 % of cases): 3..6 consecutive calls of
the helpers that return dictionaries of functions (abundance_axisymmetric_mapper, interpolators1d/2d_*, equilibrium_map3d_*)
for different elements / rate tables; each result has exactly the keys 0..Z, is judged at its nodes, and after all later
calls is judged again: same keys, same values, no dictionary or function object shared between calls (container:* keys).
Mechanism keys: a mismatch on a point solved through scipy's bounded TRF iteration (OptimizeResult.status in {-1,0,1,2},
seen through a recording wrapper of the module's lsq_linear reference) is keyed solver:*, a result equal to the exact
no-donor solution while a donor was supplied is keyed tcx-donor-ignored:*, anything else by sub-clause and entry point.
"""
import math

import numpy as np

from vf import mock_c09 as M

ID = "C09"
LEVEL = "exploration"
RULE = ("one case = (entry point, input representation, element Z=1..18, mock rate table (salt, spread 0.5..6 decades, "
        "physical or n_e-balanced magnitude), donor none / density>0 / density 0 / density None, 1..8 points with n_e "
        "1e16..1e22, T_e 0.3 eV..20 keV, n_D/n_e 1e-4..10, element density, 0..2 other species); distinct = distinct case "
        "descriptors; non-trivial when at least one returned point was compared with the recurrence solution; 12 % of the "
        "cases are call sequences (3..8 calls on one atomic-data object changing one argument at a time + repeat of the "
        "first), 25 % of the donor cases mix exact zeros and positive donor densities in one profile")
LEVEL_TEXT = ("Exploration by runtime reference-model monitoring: every public entry point is executed on generated "
              "inputs of every documented representation and each returned point is compared with the exact recurrence "
              "solution of the balance equations, with tolerances derived from the conditioning of the system the code "
              "documents; icontract postconditions on the point helpers run on every call (also under the repository's "
              "own 42 tests in the thorough tier).  Right level: the property quantifies over continuous inputs and rate "
              "tables; the code is deterministic NumPy/SciPy")
LEVEL_NOTE = ("trusted: the recurrence oracle in vf/mock_c09.py, Raysect's function objects evaluated by the harness to "
              "learn the point values, EFITEquilibrium.psi_normalised / inside_lcfs (property C12); forward errors are "
              "not judged where 200 eps kappa > 1e-4")
TECHNIQUE = ("runtime monitoring: reference-model oracle per call (exact recurrence) over generated workloads + icontract "
             "postconditions on the real point helpers + recorded solver status; thorough tier re-runs the repository's "
             "tests under the same contracts")
ASSUMPTIONS = ["rates are positive and finite at every driven point (quantifier: positive rate tables)",
               "species passed to match_plasma_neutrality use the representations the module itself produces "
               "(dict charge->ndarray / Function1D / Function2D, or ndarray [charge, ...])",
               "free variables are ndarrays (or one scalar for 1-D functions) as documented",
               "forward error is owed only up to 200 eps kappa_2 of the documented linear system (double precision solve)"]
QUICK = dict(cases=600, workers=2, timecap=40)
THOROUGH = dict(cases=26000, workers=16, timecap=600)
REQUIRED = {"fractions": 5000, "balance": 5000, "sum_range": 500, "densities": 1500, "neutrality": 150, "cross_entry": 1000,
            "interp_nodes": 2000, "eqmap_points": 1000, "contract_evals": 1000, "donor_sensitive": 80,
            "sequence_steps": 100, "sequence_repeat": 20, "mixed_donor_points": 40, "dict_order_pairs": 15,
            "repeated_point_pairs": 30, "input_kind_pairs": 60, "eqmap_offnode": 300, "fv_order_points": 80,
            "container_steps": 40, "container_rejudged": 40}

EPS = 2.220446049250313e-16
CF = 200.0
CS = 200.0
CJ = 200.0
FWD_SKIP = 1e-4
SLACK_COEF = 1e-10
SLACK_SKIP = 1e-6

ELEMENTS = ["hydrogen", "helium", "lithium", "beryllium", "boron", "carbon", "nitrogen", "oxygen", "fluorine", "neon",
            "sodium", "magnesium", "aluminium", "silicon", "phosphorus", "sulfur", "chlorine", "argon"]
DONORS = [("hydrogen", 0), ("hydrogen", 0), ("deuterium", 0), ("helium", 0), ("helium", 1), ("carbon", 2), ("neon", 1)]
SEQ_DONOR_ELEMENTS = ["hydrogen", "deuterium", "helium", "carbon", "neon"]
SEQ_ENTRIES = ["fractional_abundance", "from_elementdensity", "match_plasma_neutrality", "interpolators1d_fractional"]
SEQ_CHANGES = ["donor_charge", "donor_charge", "donor_element", "receiver_element", "plasma", "donor_density",
               "atomic_data", "entry", "donor_on_off"]
SEQ_WEIGHT = 0.12
CONT_WEIGHT = 0.06
CONT_ENTRIES = ["abundance_axisymmetric_mapper", "abundance_axisymmetric_mapper", "abundance_axisymmetric_mapper",
                "interpolators1d_fractional", "interpolators1d_from_elementdensity", "interpolators1d_match_plasma_neutrality",
                "interpolators2d_fractional", "interpolators2d_from_elementdensity", "interpolators2d_match_plasma_neutrality",
                "equilibrium_map3d_fractional", "equilibrium_map3d_from_elementdensity", "equilibrium_map3d_match_plasma_neutrality"]
CONT_EQ_KNOTS = [0.0, 0.25, 0.5, 0.75, 1.0, 1.1]
CONT_EQ_PTS = [[2.15, 0.1], [1.8, -0.25], [2.05, 0.45], [2.3, -0.1]]

ALLREPS = ["scalar", "npscalar", "array1d", "array2d", "array3d", "func1d", "func1d_scalar", "func2d", "mixed0d", "mixed1d", "mixed2d"]
N_EQ_OFF = 5
R1D = ["array1d", "func1d", "mixed1d"]
R2D = ["array2d", "func2d", "mixed2d"]
ENTRIES = {
    "fractional_abundance": dict(w=16, fam="fractional", reps=ALLREPS),
    "from_elementdensity": dict(w=14, fam="from", reps=ALLREPS),
    "match_plasma_neutrality": dict(w=14, fam="match", reps=ALLREPS),
    "interpolators1d_fractional": dict(w=6, fam="fractional", reps=R1D),
    "interpolators2d_fractional": dict(w=5, fam="fractional", reps=R2D),
    "interpolators1d_from_elementdensity": dict(w=6, fam="from", reps=R1D),
    "interpolators2d_from_elementdensity": dict(w=5, fam="from", reps=R2D),
    "interpolators1d_match_plasma_neutrality": dict(w=6, fam="match", reps=R1D),
    "interpolators2d_match_plasma_neutrality": dict(w=5, fam="match", reps=R2D),
    "equilibrium_map3d_fractional": dict(w=5, fam="fractional", reps=R1D),
    "equilibrium_map3d_from_elementdensity": dict(w=5, fam="from", reps=R1D),
    "equilibrium_map3d_match_plasma_neutrality": dict(w=5, fam="match", reps=R1D),
    "_fractional_abundance(coef_*)": dict(w=2, fam="fractional", reps=["array1d"]),
    "_from_element_density_point(coef_*)": dict(w=2, fam="from", reps=["npscalar"]),
    "_match_element_density_point(coef_*)": dict(w=2, fam="match", reps=["npscalar"]),
}
FAMILY_FN = {"fractional": "fractional_abundance", "from": "from_elementdensity", "match": "match_plasma_neutrality"}


def _donor_key(entry, fam, mixed=False):
    # mechanism = the coef_tcx selection of the point helper the entry point funnels through
    fn = "_fractional_abundance(coef_tcx=...)" if entry == "_fractional_abundance(coef_*)" else FAMILY_FN[fam]
    if mixed:   # the donor density is exactly zero at some points of the profile and positive at this one
        return "profile:donor-zero-at-some-points:cx-dropped-elsewhere:%s" % fn
    return "tcx-donor-ignored:%s" % fn
N_EQ_CAND = 7

_S = {}


# =====================================================================================================================
# generation
# =====================================================================================================================

def _logu(rng, lo, hi, size=None):
    return 10.0 ** rng.uniform(lo, hi, size=size)


def _gen_order(rng, nz):
    """insertion order (list of charges) and container type of a {charge: density} dict."""
    kind = ["asc", "desc", "shuffled", "reinserted"][int(rng.choice(4, p=[0.3, 0.25, 0.25, 0.2]))]
    keys = list(range(nz))
    if kind == "desc":
        keys = keys[::-1]
    elif kind == "shuffled":
        keys = [int(k) for k in rng.permutation(nz)]
    elif kind == "reinserted":               # an entry deleted and added again moves to the end
        k = int(rng.integers(nz))
        keys = [q for q in keys if q != k] + [k]
    return {"keys": keys, "container": ["dict", "OrderedDict", "subclass"][int(rng.integers(3))]}


FV_INT = ("int64", "int32", "pyint", "np.int64", "len1-int")
FV_REJECTED = ("list", "tuple", "0d", "lists")      # probed on the unchanged module: AttributeError / TypeError
ARR_REJECTED = ("list",)                            # ValueError


def _pick(rng, names, p):
    p = np.array(p, dtype=float)
    return names[int(rng.choice(len(names), p=p / p.sum()))]


def _gen_input_kinds(rng, rep, shape, single, iseq, fam, ne, te, nd, nel):
    intgrid = bool((not iseq) and rep not in ("scalar", "npscalar", "array3d") and rng.random() < 0.5)
    if rep in ("scalar", "npscalar", "array3d"):
        fk = {"kind": "none"}
    elif single is not None:
        fk = {"kind": _pick(rng, ["pyint", "np.int64", "len1-int", "np.float32", "pyfloat", "len1-float", "0d"], [3, 1.5, 1.5, 1, 1, 1, 1])
              if intgrid else _pick(rng, ["pyfloat", "len1-float", "0d"], [6, 2, 1.5])}
    elif len(shape) == 1:
        fk = {"kind": _pick(rng, ["int64", "int32", "float32", "float64", "noncontig", "list", "tuple"], [3, 1.5, 1.5, 1, 1, 0.7, 0.7])
              if (intgrid and not iseq) else _pick(rng, ["float64", "noncontig", "list", "tuple"], [6, 2, 0.7, 0.7] if not iseq else [1, 0, 0, 0])}
    else:
        comp = ["int64", "int32", "float32", "float64", "noncontig"] if intgrid else ["float64", "noncontig"]
        fk = {"kind": "lists" if rng.random() < 0.08 else "arrays", "comp": [comp[int(rng.integers(len(comp)))] for _ in range(2)]}
    fk["intgrid"] = intgrid
    # ndarray dtypes (only used by parameters passed as ndarray); at most one of n_e / n_D is float32 (their ratio would
    # otherwise be formed in single precision), float32 n_e is not used for neutrality matching (n_e - charge in float32)
    dt = {}
    for name, v in (("ne", ne), ("te", te), ("nd", nd), ("nel", nel)):
        k = _pick(rng, ["float64", "int64", "float32", "noncontig", "list"], [6, 1.5, 1.5, 1, 0.4])
        if k == "int64" and not (np.all((v >= 1) | (v == 0)) and np.max(v) < 9e18):
            k = "float64"
        if k == "float32" and ((name in ("ne", "nd") and fam == "match") or (name == "nd" and dt.get("ne") == "float32")):
            k = "float64"
        if iseq and k == "list":
            k = "float64"
        if len(shape) >= 2 and rng.random() < 0.45:      # memory layout of N-d arrays
            k = _pick(rng, ["F", "T", "noncontig", "broadcast"], [3, 3, 1.5, 2])
        dt[name] = k
    if len(shape) >= 2 and rng.random() < 0.3:           # every array in the same non-C layout
        lay = _pick(rng, ["F", "T"], [1, 1])
        dt = {name: lay for name in dt}
    return fk, dt


def gen_case(rng, tier, entry=None, rep=None):
    if entry is None and rng.random() < SEQ_WEIGHT:
        return _gen_sequence(rng, tier)
    if entry is None and rng.random() < CONT_WEIGHT / (1.0 - SEQ_WEIGHT):
        return _gen_containers(rng, tier)
    names = list(ENTRIES)
    w = np.array([ENTRIES[n]["w"] for n in names], dtype=float)
    if entry is None:
        entry = names[int(rng.choice(len(names), p=w / w.sum()))]
    spec = ENTRIES[entry]
    fam = spec["fam"]
    if rep is None:
        rep = spec["reps"][int(rng.integers(len(spec["reps"])))]
    iseq = entry.startswith("equilibrium_map3d")
    Z = int(rng.integers(1, 19))
    decades = float([0.5, 1.0, 2.0, 3.0, 6.0][int(rng.choice(5, p=[0.15, 0.3, 0.25, 0.15, 0.15]))])
    ne_ref = float(_logu(rng, 16.5, 21.5))
    logc_mid = -16.0 if rng.random() < 0.5 else -math.log10(ne_ref)
    if iseq:
        decades = min(decades, 2.0)
    par = [int(rng.integers(1 << 31)), decades, float(logc_mid)]
    # grid
    if iseq:
        shape = [N_EQ_CAND + 3]
    elif rep in ("scalar", "npscalar"):
        shape = [1]
    elif rep in ("array1d", "func1d", "mixed1d"):
        shape = [int(rng.integers(2, 7))] if (entry.startswith("interpolators") or rep != "array1d") else [int(rng.integers(1, 7))]
    elif rep in ("func1d_scalar", "mixed0d"):
        shape = [int(rng.integers(2, 5))]
    elif rep == "array3d":
        shape = [int(rng.integers(2, 4)), 2, int(rng.integers(2, 4))]
    else:
        shape = [int(rng.integers(2, 4)), int(rng.integers(2, 4))]
    n = int(np.prod(shape))
    single = None
    if rep in ("scalar", "npscalar"):
        single = 0
    elif rep in ("func1d_scalar", "mixed0d"):
        single = int(rng.integers(n))
    x = np.cumsum(np.concatenate([[rng.uniform(0.1, 2.0)], _logu(rng, -2, 0, shape[0] - 1)])).tolist()
    y = np.cumsum(np.concatenate([[rng.uniform(-1.0, 1.0)], _logu(rng, -2, 0, shape[1] - 1)])).tolist() if len(shape) == 2 else None
    ne = np.clip(ne_ref * _logu(rng, -1.5, 1.5, n), 1e16, 1e22)
    te = _logu(rng, -0.5, 4.3, n)
    if n >= 2 and rng.random() < 0.35:      # profiles in which only some (n_e, T_e) entries coincide
        for _ in range(int(rng.integers(1, n))):
            i, j = (int(v) for v in rng.choice(n, 2, replace=False))
            ne[j] = ne[i]
            if rng.random() < 0.7:
                te[j] = te[i]
    # donor
    u = rng.random()
    donor = None
    nd = np.zeros(n)
    if u > 0.45:
        d = DONORS[int(rng.integers(len(DONORS)))]
        v = rng.random()
        mode = "pos" if v < 0.55 else ("mixed" if v < 0.8 else ("zero" if v < 0.9 else "none_density"))
        if mode == "mixed" and n < 2:
            mode = "pos"
        donor = {"el": d[0], "charge": d[1], "mode": mode}
        if mode in ("pos", "mixed"):
            nd = ne * _logu(rng, -4, 1, n)
        if mode == "mixed":                 # exact zeros at some points, positive elsewhere
            zero = rng.random(n) < 0.4
            zero[int(rng.integers(n))] = True
            if zero.all():
                zero[int(rng.integers(n))] = False
            nd[zero] = 0.0
    # element density / species
    band = 2.0 if (entry.startswith("interpolators") or iseq) else 6.0
    nel = ne * float(_logu(rng, -6, 0)) * _logu(rng, 0, band, n) / 10 ** band
    species = []
    over = False
    if fam == "match":
        nsp = int(rng.integers(0, 3))
        over = bool(rng.random() < 0.06) and nsp > 0
        qtot = rng.uniform(1.2, 3.0, n) if over else rng.uniform(0.05, 0.9, n)
        split = rng.dirichlet(np.ones(max(nsp, 1)), size=n) if nsp else None
        for s in range(nsp):
            nz = int(rng.integers(2, 8))
            raw = _logu(rng, -3, 0, (nz, n))
            charge = (np.arange(nz)[:, None] * raw).sum(axis=0)
            dens = raw * (qtot * split[:, s] * ne / charge)[None, :]
            species.append({"nz": nz, "kind": ["dict_array", "ndarray", "dict_func"][int(rng.integers(3))],
                            "dens": dens.tolist(), "flav": ["py", "lin", "cub"][int(rng.integers(3))],
                            "order": _gen_order(rng, nz)})
    # representation per parameter
    kinds = {}
    for p in ("ne", "te", "nd", "nel"):
        if rep == "scalar":
            k = "scalar"
        elif rep == "npscalar":
            k = "npscalar"
        elif rep in ("array1d", "array2d", "array3d"):
            k = "array"
        elif rep in ("func1d", "func2d", "func1d_scalar"):
            k = "func"
        elif rep == "mixed0d":
            k = "func" if rng.random() < 0.5 else ("scalar" if rng.random() < 0.5 else "npscalar")
        else:
            k = "func" if rng.random() < 0.5 else "array"
        kinds[p] = k
    flav = {p: ["py", "lin", "cub"][int(rng.integers(3))] for p in ("ne", "te", "nd", "nel")}
    if donor is not None and donor["mode"] == "mixed" and flav["nd"] == "cub":
        flav["nd"] = "lin"                  # a cubic need not return the exact zeros at its knots
    for sp in species:
        if rep in ("scalar", "npscalar"):
            sp["kind"] = "dict_array" if sp["kind"] == "dict_func" else sp["kind"]
        elif rep in ("array1d", "array2d", "array3d"):
            sp["kind"] = "dict_array" if sp["kind"] == "dict_func" else sp["kind"]
        elif rep in ("func1d_scalar", "mixed0d"):
            sp["kind"] = "dict_func"
    # ---- free-variable kinds and ndarray dtypes (what the unchanged module accepts was probed; see FV_REJECTED) --------
    fvkind, dtypes = _gen_input_kinds(rng, rep, shape, single, iseq, fam, ne, te, nd, nel)
    if fvkind["intgrid"]:        # integer coordinates: exactly representable in every kind; values at them are non-integer
        x = np.cumsum(np.concatenate([[int(rng.integers(-3, 6))], rng.integers(1, 4, shape[0] - 1)])).astype(float).tolist()
        if len(shape) == 2:
            y = np.cumsum(np.concatenate([[int(rng.integers(-3, 6))], rng.integers(1, 4, shape[1] - 1)])).astype(float).tolist()
    case = dict(entry=entry, rep=rep, Z=Z, par=par, donor=donor, shape=shape, single=single, x=x, y=y, fvkind=fvkind, dtypes=dtypes,
                ne=ne.tolist(), te=te.tolist(), nd=nd.tolist(), nel=nel.tolist(), species=species, over_neutral=over,
                kinds=kinds, flav=flav, fv_as_list=bool(rng.random() < 0.3), pass_fv=bool(rng.random() < 0.5))
    if iseq:
        th = rng.uniform(0, 2 * np.pi, N_EQ_CAND)
        rho = rng.uniform(0.12, 0.9, N_EQ_CAND)
        case["eq"] = {"cand": [[float(2.0 + 0.45 * r * math.cos(t)), float(0.75 * r * math.sin(t))] for r, t in zip(rho, th)],
                      "phi": float(rng.uniform(0, 2 * np.pi)),
                      "off": [[float(2.0 + 0.45 * r * math.cos(t)), float(0.75 * r * math.sin(t))]
                              for r, t in zip(rng.uniform(0.1, 0.9, N_EQ_OFF), rng.uniform(0, 2 * np.pi, N_EQ_OFF))]}
    if entry in ("fractional_abundance", "from_elementdensity", "match_plasma_neutrality") and single is None and len(shape) <= 2:
        _apply_order(case, rng)
    return case


def _apply_order(case, rng):
    """free variable (and every profile with it) in ascending / descending / unsorted order, possibly with repeated
    coordinates: legal for the three public profile functions, which sample functions at the caller's coordinates."""
    shape = list(case["shape"])
    orders, labels = [], []
    for n in shape:
        k = _pick(rng, ["ascending", "descending", "unsorted", "repeated"], [4, 2.5, 2, 1.5])
        idx = np.arange(n)
        if k == "descending":
            idx = idx[::-1]
        elif k == "unsorted":
            idx = rng.permutation(n)
            if np.all(np.diff(idx) > 0):
                idx = idx[::-1]
        elif k == "repeated":
            idx = rng.permutation(np.concatenate([idx, rng.integers(0, n, size=int(rng.integers(1, 3)))]))
        orders.append(idx)
        labels.append(k if n > 1 else "ascending")
    case["fv_order"] = "/".join(labels)
    if all(l == "ascending" for l in labels):
        return

    def take(flat, lead=()):
        a = np.asarray(flat, dtype=float).reshape(list(lead) + shape)
        for ax, idx in enumerate(orders):
            a = np.take(a, idx, axis=len(lead) + ax)
        return a

    for q in ("ne", "te", "nd", "nel"):
        case[q] = take(case[q]).ravel().tolist()
    for sp in case["species"]:
        d = take(sp["dens"], lead=(sp["nz"],))
        sp["dens"] = d.reshape(sp["nz"], -1).tolist()
    case["x"] = [case["x"][i] for i in orders[0]]
    if len(shape) == 2:
        case["y"] = [case["y"][i] for i in orders[1]]
    case["shape"] = [len(o) for o in orders]


def _gen_sequence(rng, tier):
    """call-sequence class: 3..8 consecutive calls on the same (or a fresh) atomic-data object that differ in one thing at
    a time, followed by a repeat of the first call.  Every step is stored fully expanded."""
    n = int(rng.integers(2, 5))
    x = np.cumsum(np.concatenate([[rng.uniform(0.1, 2.0)], _logu(rng, -2, 0, n - 1)])).tolist()
    decades = float([0.5, 1.0, 2.0, 3.0][int(rng.integers(4))])
    ne_ref = float(_logu(rng, 17.5, 20.5))

    def plasma():
        a, b = np.clip(ne_ref * _logu(rng, -1.0, 1.0, n), 1e16, 1e22), _logu(rng, -0.5, 4.3, n)
        if rng.random() < 0.35:              # two points with bit-identical (n_e, T_e)
            i, j = (int(v) for v in rng.choice(n, 2, replace=False))
            a[j], b[j] = a[i], b[i]
        return a, b

    def donor_ratio():
        r = _logu(rng, -3, 1, n)
        if rng.random() < 0.4:
            zero = rng.random(n) < 0.4
            if zero.all():
                zero[int(rng.integers(n))] = False
            r[zero] = 0.0
        return r

    def new_donor(exclude=None):
        while True:
            d = {"el": SEQ_DONOR_ELEMENTS[int(rng.integers(len(SEQ_DONOR_ELEMENTS)))], "charge": int(rng.integers(0, 3))}
            if d != exclude:
                return d

    ne, te = plasma()
    st = dict(Z=int(rng.integers(1, 19)), par=[int(rng.integers(1 << 31)), decades, -16.0],
              donor=new_donor() if rng.random() < 0.75 else None, ne=ne, te=te, ndr=donor_ratio(),
              entry=SEQ_ENTRIES[int(rng.integers(len(SEQ_ENTRIES)))])
    nelr = float(_logu(rng, -5, -1)) * _logu(rng, 0, 1.5, n) / 10 ** 1.5
    nz = int(rng.integers(2, 5))
    raw = _logu(rng, -2, 0, (nz, n))
    sp_frac = raw * (rng.uniform(0.05, 0.8, n) / (np.arange(nz)[:, None] * raw).sum(axis=0))[None, :]

    def snap(change, fresh):
        d = st["donor"]
        nd = st["ne"] * st["ndr"] if d is not None else np.zeros(n)
        return dict(entry=st["entry"], change=change, fresh_ad=bool(fresh), Z=st["Z"], par=list(st["par"]),
                    donor=dict(d) if d else None, ne=st["ne"].tolist(), te=st["te"].tolist(), nd=nd.tolist(),
                    nel=(st["ne"] * nelr).tolist())

    steps = [snap("first", False)]
    for _ in range(int(rng.integers(2, 8))):
        change = SEQ_CHANGES[int(rng.integers(len(SEQ_CHANGES)))]
        if st["donor"] is None and change in ("donor_charge", "donor_element", "donor_density"):
            change = "donor_on_off"
        if change == "donor_charge":
            st["donor"] = dict(st["donor"], charge=int([c for c in (0, 1, 2) if c != st["donor"]["charge"]][int(rng.integers(2))]))
        elif change == "donor_element":
            st["donor"] = dict(st["donor"], el=[e for e in SEQ_DONOR_ELEMENTS if e != st["donor"]["el"]][int(rng.integers(len(SEQ_DONOR_ELEMENTS) - 1))])
        elif change == "receiver_element":
            st["Z"] = int([z for z in range(1, 19) if z != st["Z"]][int(rng.integers(17))])
        elif change == "plasma":                      # redraw some points only: the others coincide with the previous call
            ne2, te2 = plasma()
            m = rng.random(n) < 0.5
            m[int(rng.integers(n))] = True
            st["ne"] = np.where(m, ne2, st["ne"])
            st["te"] = np.where(m & (rng.random(n) < 0.7), te2, st["te"])
        elif change == "donor_density":
            st["ndr"] = donor_ratio()
        elif change == "atomic_data":
            st["par"] = [int(rng.integers(1 << 31)), decades, -16.0]
        elif change == "donor_on_off":
            st["donor"] = None if st["donor"] is not None else new_donor()
        if change == "entry" or rng.random() < 0.5:
            st["entry"] = [e for e in SEQ_ENTRIES if e != st["entry"]][int(rng.integers(len(SEQ_ENTRIES) - 1))]
        steps.append(snap(change, rng.random() < 0.25))
    steps.append(dict(steps[0], change="repeat-first"))
    return dict(entry="call_sequence", rep="array1d", x=x, sp_frac=sp_frac.tolist(), sp_order=_gen_order(rng, nz), steps=steps)


def _gen_containers(rng, tier):
    """container class: 3..6 consecutive calls of the helpers that RETURN dictionaries of functions (mapper, interpolators1d/2d_*,
    equilibrium_map3d_*) for different elements / rate tables; every returned container is kept and judged again at the end."""
    x1 = np.cumsum(np.concatenate([[rng.uniform(0.1, 2.0)], _logu(rng, -1.5, 0, int(rng.integers(1, 4)))])).tolist()
    x2 = np.cumsum(np.concatenate([[rng.uniform(0.2, 2.0)], _logu(rng, -1.5, 0, int(rng.integers(1, 3)))])).tolist()
    y2 = np.cumsum(np.concatenate([[rng.uniform(-1.0, 1.0)], _logu(rng, -1.5, 0, int(rng.integers(1, 3)))])).tolist()
    steps = []
    entry = CONT_ENTRIES[int(rng.integers(len(CONT_ENTRIES)))]
    for k in range(int(rng.integers(3, 7))):
        if k and rng.random() < 0.5:
            entry = CONT_ENTRIES[int(rng.integers(len(CONT_ENTRIES)))]     # else: the same helper again, for another element
        n = len(CONT_EQ_KNOTS) if entry.startswith("equilibrium") else (len(x1) if "1d" in entry else len(x2) * len(y2))
        ne_ref = float(_logu(rng, 17.5, 20.5))
        ne = ne_ref * _logu(rng, -0.7, 0.7, n)
        donor = None
        if rng.random() < 0.5:
            donor = {"el": SEQ_DONOR_ELEMENTS[int(rng.integers(len(SEQ_DONOR_ELEMENTS)))], "charge": int(rng.integers(0, 3))}
        steps.append(dict(entry=entry, family=["fractional", "from", "match"][int(rng.integers(3))] if entry.startswith("abundance") else None,
                          Z=int(rng.integers(1, 19)), par=[int(rng.integers(1 << 31)), float([0.5, 1.0, 2.0][int(rng.integers(3))]), -16.0],
                          donor=donor, ne=ne.tolist(), te=_logu(rng, 0.0, 4.0, n).tolist(),
                          nd=(ne * _logu(rng, -3, 0.5, n)).tolist() if donor else np.zeros(n).tolist(),
                          nel=(ne * float(_logu(rng, -4, -1)) * rng.uniform(0.5, 2.0, n)).tolist(), q=rng.uniform(0.05, 0.8, n).tolist()))
    return dict(entry="container_sequence", rep="array", x1=x1, x2=x2, y2=y2, steps=steps)


def fixed_cases(tier):
    out = []
    rng = np.random.default_rng(90909)
    # one case per entry point with a donor of appreciable density (regression: donor must reach every entry point)
    for entry, spec in ENTRIES.items():
        for rep in spec["reps"][:3]:
            c = gen_case(rng, tier, entry=entry, rep=rep)
            c["Z"] = [10, 2, 6][len(out) % 3]
            c["par"] = [1234 + len(out), 1.0, -16.0]
            n = len(c["ne"])
            new_ne = 3e19 * (1 + 0.3 * np.arange(n))
            for sp in c["species"]:
                sp["dens"] = (np.array(sp["dens"]) * (new_ne / np.array(c["ne"]))[None, :]).tolist()
            c["nel"] = (np.array(c["nel"]) * new_ne / np.array(c["ne"])).tolist()
            c["ne"] = new_ne.tolist()
            c["te"] = (40.0 * (1 + 0.7 * np.arange(n))).tolist()
            c["donor"] = {"el": "hydrogen", "charge": 0, "mode": "pos"}
            c["nd"] = (np.array(c["ne"]) * 0.05).tolist()
            out.append(c)
    # hostile: other species carry more charge than n_e (densities must stay non-negative)
    c = gen_case(rng, tier, entry="match_plasma_neutrality", rep="array1d")
    c["species"] = [{"nz": 3, "kind": "dict_array", "flav": "py",
                     "dens": (np.array(c["ne"])[None, :] * np.array([[0.1], [0.5], [0.6]])).tolist()}]
    c["over_neutral"] = True
    out.append(c)
    # hostile: wide rate spread, heavy element (solver conditioning)
    for k in range(4):
        c = gen_case(rng, tier, entry="fractional_abundance", rep="array1d")
        c["Z"] = 18 - k
        c["par"][1] = 6.0
        out.append(c)
    return out


# =====================================================================================================================
# worker state
# =====================================================================================================================

def worker_init(ctx):
    import importlib
    from raysect.core.math.function.float import Interpolator1DArray, Interpolator2DArray
    from raysect.core.math.function.float.function1d.autowrap import PythonFunction1D
    from raysect.core.math.function.float.function2d.autowrap import PythonFunction2D
    import cherab.core.atomic.elements as em
    ib = importlib.import_module("cherab.tools.plasmas.ionisation_balance")
    from vf import contracts_c09 as C
    C.STATE["mode"] = "raise"
    C.install(ib)
    _S.update(ib=ib, C=C, em=em, I1=Interpolator1DArray, I2=Interpolator2DArray, P1=PythonFunction1D, P2=PythonFunction2D,
              eq=None)


def worker_finish(ctx):
    C = _S.get("C")
    if C is None:
        return
    ctx.mon("contract_evals", int(sum(C.STATE["evals"].values())))
    for k, v in C.STATE["evals"].items():
        ctx.mon("contract:" + k, int(v))
    ctx.mon("lsq_linear_calls", int(C.STATE["lsq_calls"]))
    for s, cnt in C.STATE["lsq_counts"].items():
        ctx.mon("lsq_status:%s" % s, int(cnt))
    ctx.notes["hang_guard_installed"] = bool(C.STATE["hang_guard"])


def _equilibrium():
    if _S["eq"] is None:
        from cherab.tools.equilibrium import example_equilibrium
        _S["eq"] = example_equilibrium()
    return _S["eq"]


# =====================================================================================================================
# input construction
# =====================================================================================================================

def _make_func(flav, vals, xs, ys):
    """Function1D / Function2D returning vals at the knots (knots may be given in any order and repeated: interpolators are
    built on the sorted unique coordinates; repeated coordinates carry identical values by construction)."""
    vals = np.ascontiguousarray(vals, dtype=float)
    xs = np.asarray(xs, dtype=float)
    if ys is None:
        if flav == "py":
            v = vals.copy()
            return _S["P1"](lambda x, xs=xs, v=v: float(v[int(np.argmin(np.abs(xs - x)))]))
        ux, ix = np.unique(xs, return_index=True)
        return _S["I1"](ux, np.ascontiguousarray(vals[ix]), "linear" if flav == "lin" else "cubic", "none", 0)
    ys = np.asarray(ys, dtype=float)
    if flav == "py":
        v = vals.copy()
        return _S["P2"](lambda x, y, xs=xs, ys=ys, v=v: float(v[int(np.argmin(np.abs(xs - x))), int(np.argmin(np.abs(ys - y)))]))
    ux, ix = np.unique(xs, return_index=True)
    uy, iy = np.unique(ys, return_index=True)
    return _S["I2"](ux, uy, np.ascontiguousarray(vals[np.ix_(ix, iy)]), "linear" if flav == "lin" else "cubic", "none", 0, 0)


def _eval_func(f, xs, ys, single):
    if ys is None:
        pts = [(x,) for x in xs]
    else:
        pts = [(x, y) for x in xs for y in ys]
    if single is not None:
        pts = [pts[single]]
    return np.array([f(*p) for p in pts], dtype=float)


def _as_dtype(grid, dt):
    """ndarray of the requested dtype / layout; returns (object, float64 values the module must see)."""
    if dt == "int64":
        a = np.trunc(grid).astype(np.int64)
    elif dt == "float32":
        a = grid.astype(np.float32)
    elif dt == "noncontig":
        a = np.repeat(grid, 2, axis=-1)[..., ::2]
        assert not a.flags["C_CONTIGUOUS"] or a.size <= 1
    elif dt == "list":
        return grid.tolist(), grid.ravel().copy()
    elif dt == "F" and grid.ndim >= 2:
        a = np.asfortranarray(grid)
    elif dt == "T" and grid.ndim >= 2:                  # transposed view of a C array (3-D: a rolled-axes view, neither C nor F)
        perm = list(range(1, grid.ndim)) + [0]
        a = np.ascontiguousarray(grid.transpose(perm)).transpose(np.argsort(perm))
    elif dt == "broadcast" and grid.ndim >= 2:          # a lower-dimensional profile broadcast along the first axis
        a = np.broadcast_to(grid[0], grid.shape)
    else:
        a = grid.copy()
    return a, np.array(a, dtype=float).ravel()


def _make_fv1(kind, v):
    v = np.asarray(v, dtype=float)
    if kind == "int64":
        return v.astype(np.int64)
    if kind == "int32":
        return v.astype(np.int32)
    if kind == "float32":
        return v.astype(np.float32)
    if kind == "noncontig":
        return np.repeat(v, 2)[::2]
    if kind == "list":
        return v.tolist()
    if kind == "tuple":
        return tuple(v.tolist())
    return v.copy()


def _make_fv0(kind, x):
    return {"pyint": lambda: int(x), "np.int64": lambda: np.int64(x), "len1-int": lambda: np.array([int(x)]),
            "np.float32": lambda: np.float32(x), "pyfloat": lambda: float(x), "len1-float": lambda: np.array([float(x)]),
            "0d": lambda: np.array(float(x))}[kind]()


def _build_param(kind, flav, vals_flat, shape, xs, ys, single, dtype="float64"):
    """returns (object passed to the code, values at the evaluated points as the code must see them)."""
    grid = np.asarray(vals_flat, dtype=float).reshape(shape)
    if kind == "array" and dtype != "float64":
        return _as_dtype(grid, dtype)
    if kind == "scalar":
        v = float(grid.flat[single])
        return v, np.array([v])
    if kind == "npscalar":
        v = np.float64(grid.flat[single])
        return v, np.array([float(v)])
    if kind == "array":
        return grid.copy(), grid.ravel().copy()
    f = _make_func(flav, grid, xs, ys)
    return f, _eval_func(f, xs, ys, single)


class _SpeciesDict(dict):
    """a plain dict subclass (what e.g. a user-side container of charge-state densities may be)."""


def _ordered(d, order, ascending=False):
    """the same {charge: value} mapping with the requested insertion order / container type."""
    import collections
    keys = sorted(d) if (ascending or not order) else list(order["keys"])
    cont = {"dict": dict, "OrderedDict": collections.OrderedDict, "subclass": _SpeciesDict}[(order or {}).get("container", "dict")]
    out = cont()
    for k in keys:
        out[k] = d[k]
    return out


def _build_species(sp, shape, xs, ys, single, ascending=False):
    dens = np.asarray(sp["dens"], dtype=float)          # (nz, n)
    nz = dens.shape[0]
    order = sp.get("order")
    if sp["kind"] == "ndarray":
        if single is not None:
            return dens[:, [single]].copy(), dens[:, [single]].copy()
        return dens.reshape([nz] + list(shape)).copy(), dens.copy()
    if sp["kind"] == "dict_array":
        if single is not None:
            return _ordered({z: dens[z, [single]].copy() for z in range(nz)}, order, ascending), dens[:, [single]].copy()
        return _ordered({z: dens[z].reshape(shape).copy() for z in range(nz)}, order, ascending), dens.copy()
    obj, seen = {}, []
    for z in range(nz):
        f = _make_func(sp["flav"], dens[z].reshape(shape), xs, ys)
        obj[z] = f
        seen.append(_eval_func(f, xs, ys, single))
    return _ordered(obj, order, ascending), np.array(seen)


# =====================================================================================================================
# oracle
# =====================================================================================================================

def _system(Z, S, R, ne):
    A = np.zeros((Z + 2, Z + 1))
    for z in range(Z):
        A[z, z] -= S[z]
        A[z, z + 1] += R[z]
        A[z + 1, z] += S[z]
        A[z + 1, z + 1] -= R[z]
    A[:Z + 1] *= ne
    A[Z + 1, :] = 1.0
    sv = np.linalg.svd(A, compute_uv=False)
    return float(sv[0]), float(sv[0] / sv[-1]) if sv[-1] > 0 else float("inf")


def _oracle_point(elname, Z, par, ne, te, donor, nd):
    f, S, R = M.exact_fractions(elname, Z, par, ne, te, donor, nd)
    normA, kappa = _system(Z, S, R, ne)
    return dict(f=np.array(f), S=np.array(S), R=np.array(R), normA=normA, kappa=kappa, ne=ne)


def _ratios(f, O, Z, slack):
    """residual / tolerance for the sum, pair-balance and forward checks of one fraction vector.

    A double-precision solve of the documented system owes either a backward error of a few eps*||A|| (what the direct
    least-squares path delivers) or a forward error of a few eps*kappa (what any forward-stable method, e.g. clipping
    rounding-level negatives, delivers); the sum and pair-balance tolerances therefore are the backward-level bound plus
    the residual implied by an admissible forward error  dF = 200 eps kappa (+ interpolation slack)."""
    dF = CF * EPS * O["kappa"] + slack
    tolS = 1e-12 + CS * EPS * O["normA"] + (Z + 1) * dF
    rS = abs(float(f.sum()) - 1.0) / tolS
    J = O["S"] * f[:-1] - O["R"] * f[1:]
    tolJ = CJ * EPS * (Z + 2) * O["normA"] / O["ne"] + 2.0 * dF * max(float(O["S"].max()), float(O["R"].max()))
    rJ = float(np.abs(J).max()) / tolJ
    tolF = 1e-12 + dF
    rF = float(np.abs(f - O["f"]).max()) / tolF
    return rS, rJ, rF, tolF


def _judge_point(ctx, case, fam, f, O, O_nd, status, slack, check_sum, where, nodonor_ref=None, mixed=False, alts=()):
    """f: fraction vector returned for one point. O: oracle with the supplied donor, O_nd: oracle without donor (or None).
    nodonor_ref(): the module's own scalar fractional_abundance answer WITHOUT donor at this point (mechanism classifier)."""
    entry = case["entry"]
    Z = case["Z"]
    C = _S["C"]
    trf = status in C.TRF_STATUSES
    fails = []
    if not np.all(np.isfinite(f)):
        fails.append(("non-finite", "%s returned a non-finite value" % entry, {}))
        rS = rJ = rF = float("inf")
        tolF = 0.0
    else:
        if f.min() < -slack or f.max() > 1.0 + 1e-12 + slack:
            fails.append(("range", "fraction outside [0,1]", {"min": float(f.min()), "max": float(f.max())}))
        rS, rJ, rF, tolF = _ratios(f, O, Z, slack)
        if not check_sum:
            rS = 0.0
        if rS > 1:
            fails.append(("sum-not-one", "fractions do not sum to one (densities do not sum to the element density)",
                          {"sum_minus_1": float(f.sum() - 1), "ratio": rS}))
        if rJ > 1:
            fails.append(("balance-residual", "n_z S_z != n_(z+1) (alpha_(z+1) + n_D/n_e C_(z+1)) for a neighbouring pair",
                          {"ratio": rJ}))
        judge_fwd = tolF <= FWD_SKIP
        if judge_fwd and rF > 1:
            k = int(np.argmax(np.abs(f - O["f"])))
            fails.append(("fractions-mismatch", "returned fraction differs from the exact recurrence solution",
                          {"charge": k, "got": float(f[k]), "want": float(O["f"][k]), "tol": tolF, "ratio": rF}))
        if not judge_fwd:
            ctx.skip("forward error not judged: 200 eps kappa > 1e-4")
    ctx.mon("sum_range")
    ctx.mon("balance", Z)
    if tolF <= FWD_SKIP and tolF > 0:
        ctx.mon("fractions", Z + 1)
        ctx.nontrivial()
    if not fails:
        if not trf:   # margins describe the oracle's tightness on the direct (backward-stable) path
            sfx = "" if O_nd is None else "_with_donor"   # reported separately: sub-tolerance donor effects
            if check_sum:
                ctx.margin("sum_range", rS)
            ctx.margin("balance" + sfx, rJ)
            if tolF <= FWD_SKIP:
                ctx.margin("fractions" + sfx, rF)
        if O_nd is not None and tolF <= FWD_SKIP:
            # would the no-donor solution have been rejected?  (sensitivity of this very comparison)
            if float(np.abs(O_nd["f"] - O["f"]).max()) > 100 * tolF:
                ctx.mon("donor_sensitive")
        return True
    detail = dict(where=where, status=status, kappa=O["kappa"], Z=Z, fails=[(a, d) for a, _, d in fails])
    if O_nd is not None and np.all(np.isfinite(f)):
        rS2, rJ2, rF2, tolF2 = _ratios(f, O_nd, Z, slack)
        same = tolF2 <= FWD_SKIP and rJ2 <= 1 and rF2 <= 1
        if not same and nodonor_ref is not None:
            r2 = nodonor_ref()   # conditioning-independent: identical to the module's own no-donor computation?
            if r2 is not None and fam == "match" and r2.sum() > 0:
                r2 = r2 / r2.sum()     # f was normalised by the harness; the module's own sum is 1 only to solver accuracy
            same = r2 is not None and bool(np.all(np.abs(f - r2) <= 1e-12 + 1e-9 * np.abs(r2) + 2.0 * slack))
        if same:
            ctx.viol(_donor_key(entry, fam, mixed),
                     "a thermal-CX donor with density > 0 was supplied but the result equals the solution WITHOUT donor",
                     entry=entry, max_diff_with_vs_without=float(np.abs(O_nd["f"] - O["f"]).max()), **detail)
            return False
    if np.all(np.isfinite(f)):
        # an EARLIER point of the same profile with bit-identical (n_e, T_e) but another donor density: its solution returned here?
        for jj, Oj in alts:
            rS3, rJ3, rF3, tolF3 = _ratios(f, Oj, Z, slack)
            if tolF3 <= FWD_SKIP and rJ3 <= 1 and rF3 <= 1:
                fn = "_fractional_abundance(coef_tcx=...)" if entry == "_fractional_abundance(coef_*)" else FAMILY_FN[fam]
                ctx.viol("profile:repeated-(n_e,T_e)-point-returns-earlier-points-result:%s" % fn,
                         "two points of one profile have identical (n_e, T_e) but different donor density; the later point "
                         "received the exact solution of the earlier one", entry=entry, earlier_point=jj, **detail)
                return False
    if trf:
        ctx.viol("solver:lsq_linear-bounded-trf-path(status=%d)-result-inaccurate" % status,
                 "the unconstrained least-squares solution was infeasible by rounding, lsq_linear switched to its bounded "
                 "TRF iteration and the iterate it returned (status %d) violates: %s" % (status, ", ".join(a for a, _, _ in fails)),
                 entry=entry, **detail)
        return False
    for name, what, d in fails:
        ctx.viol("%s:%s" % (name, entry), what, entry_point=entry, **dict(detail, **d))
    return False


# =====================================================================================================================
# execution
# =====================================================================================================================

def _stack(res, Z):
    return np.array([np.asarray(res[z], dtype=float).ravel() for z in range(Z + 1)])


def run_case(case, ctx):
    if case["entry"] == "call_sequence":
        return _run_sequence(case, ctx)
    if case["entry"] == "container_sequence":
        return _run_containers(case, ctx)
    ib, C = _S["ib"], _S["C"]
    entry, rep, Z = case["entry"], case["rep"], case["Z"]
    fam = ENTRIES[entry]["fam"]
    par = tuple(case["par"])
    el = getattr(_S["em"], ELEMENTS[Z - 1])
    elname = el.name
    donor = case["donor"]
    iseq = "eq" in case
    ctx.cls("entry:" + entry)
    ctx.cls("rep:" + rep)
    ctx.cls("donor:" + (donor["mode"] if donor else "none"))
    ctx.cls("decades:%g" % par[1])
    shape = list(case["shape"])
    single = case["single"]
    xs, ys = case["x"], case["y"]
    cols = None
    samples = None
    if iseq:
        eq = _equilibrium()
        acc = []
        for r, z in case["eq"]["cand"]:
            if eq.inside_lcfs(r, z) == 1.0:
                p = eq.psi_normalised(r, z)
                if 0.03 < p < 0.95 and all(abs(p - q[0]) > 2e-3 for q in acc):
                    acc.append((p, r, z))
        if len(acc) < 1:
            ctx.skip("no usable sample point inside the LCFS")
            return
        acc.sort()
        xs = [0.0] + [a[0] for a in acc] + [1.0, 1.1]
        shape = [len(xs)]
        samples = acc
        cols = list(range(len(xs)))
    n = int(np.prod(shape))

    def vals(name):
        v = np.asarray(case[name], dtype=float)
        return v[:n] if iseq else v

    dts = case.get("dtypes") or {}
    in_ne, ne = _build_param(case["kinds"]["ne"], case["flav"]["ne"], vals("ne"), shape, xs, ys, single, dtype=dts.get("ne", "float64"))
    in_te, te = _build_param(case["kinds"]["te"], case["flav"]["te"], vals("te"), shape, xs, ys, single, dtype=dts.get("te", "float64"))
    npts = ne.size
    dkw = {}
    dargs = (None, None, 0)
    nd = np.zeros(npts)
    dkey = None
    if donor is not None:
        del_ = getattr(_S["em"], donor["el"])
        dkey = (del_.name, donor["charge"])
        if donor["mode"] == "none_density":
            in_nd = None
        else:
            in_nd, nd = _build_param(case["kinds"]["nd"], case["flav"]["nd"], vals("nd"), shape, xs, ys, single, dtype=dts.get("nd", "float64"))
        dargs = (del_, in_nd, donor["charge"])
        dkw = dict(tcx_donor=del_, tcx_donor_n=in_nd, tcx_donor_charge=donor["charge"])
    nel = None
    if fam == "from":
        in_nel, nel = _build_param(case["kinds"]["nel"], case["flav"]["nel"], vals("nel"), shape, xs, ys, single, dtype=dts.get("nel", "float64"))
    in_species, species_seen, in_species_asc = [], [], []
    if fam == "match":
        for sp in case["species"]:
            sp2 = dict(sp, dens=np.asarray(sp["dens"], dtype=float)[:, :n]) if iseq else sp
            o, seen = _build_species(sp2, shape, xs, ys, single)
            in_species.append(o)
            species_seen.append(seen)
            in_species_asc.append(_build_species(sp2, shape, xs, ys, single, ascending=True)[0])
            if isinstance(o, dict):
                ctx.cls("species-dict:%s" % ("ascending" if list(o) == sorted(o) else "non-ascending"))
    anyfunc = any(not isinstance(o, (float, np.ndarray, list)) for o in (in_ne, in_te, dargs[1]) if o is not None)
    if fam == "from":
        anyfunc = anyfunc or not isinstance(in_nel, (float, np.ndarray, list))
    if fam == "match":
        anyfunc = anyfunc or any(sp["kind"] == "dict_func" for sp in case["species"])
    # free variable
    if single is not None:
        fv = float(xs[single]) if rep in ("func1d_scalar", "mixed0d") else None
    elif len(shape) == 1:
        fv = np.array(xs, dtype=float)
    elif len(shape) == 2:
        fv = [np.array(xs, dtype=float), np.array(ys, dtype=float)]
        if not case["fv_as_list"]:
            fv = tuple(fv)
    else:
        fv = None
    fv64 = fv
    fk = case.get("fvkind") or {"kind": "none"}
    if fv is not None and not iseq:
        if single is not None:
            fv = _make_fv0(fk["kind"], xs[single]) if fk["kind"] != "none" else fv
        elif len(shape) == 1:
            fv = _make_fv1(fk["kind"], xs)
        else:
            comps = [_make_fv1(fk["comp"][0], xs), _make_fv1(fk["comp"][1], ys)]
            if fk["kind"] == "lists":
                comps = [c.tolist() for c in comps]
            fv = comps if case["fv_as_list"] else tuple(comps)
    fv_pass = fv if (anyfunc or case["pass_fv"] or entry.startswith("interpolators") or iseq) else None
    fv_used = fv_pass is not None and (anyfunc or entry.startswith("interpolators"))
    fv_label = (fk["kind"] if "comp" not in fk else fk["kind"] + ":" + "/".join(fk["comp"])) if fv_used else "unused"
    arr_dts = sorted(set(dts.get(q, "float64") for q, o in (("ne", in_ne), ("te", in_te), ("nd", dargs[1]),
                                                           ("nel", in_nel if fam == "from" else None))
                         if isinstance(o, (np.ndarray, list)) and case["kinds"][q] == "array"))
    rejected = None
    if fv_pass is not None and not iseq and (fk["kind"] in FV_REJECTED):   # (a list is tolerated when no function needs it)
        rejected = "free-variable:" + fk["kind"]
    elif any(d in ARR_REJECTED for d in arr_dts):
        rejected = "ndarray:list"
    alt_inputs = (fv_used and fv_label not in ("float64", "pyfloat", "arrays:float64/float64")) or any(d != "float64" for d in arr_dts)
    ctx.cls("fv:" + fv_label)
    for d_ in arr_dts:
        ctx.cls("array-dtype:" + d_)
    fdim = "function2d" if len(shape) == 2 else "function1d"
    parts = []
    if fv_used and fv_label not in ("float64", "pyfloat", "arrays:float64/float64"):
        parts.append("%s:%s-free-variable" % (fdim, fv_label))
    if any(d != "float64" for d in arr_dts) or not parts:
        parts.append("ndarray:" + "+".join(arr_dts))
    fv_order = case.get("fv_order", "ascending")
    order_alt = fv_pass is not None and any(l != "ascending" for l in fv_order.split("/"))
    if order_alt:
        parts = ["free-variable-order:%s" % fv_order] + ([q_ for q_ in parts if q_ not in ("ndarray:float64", "ndarray:")])
        alt_inputs = True
        ctx.cls("fv-order:" + ("functions" if fv_used else "arrays-only"))
        if fv_used:
            ctx.mon("fv_order_points", int(ne.size))
    in_label = "+".join(parts)

    # ---- oracle -----------------------------------------------------------------------------------------------------
    if not (np.all(ne > 0) and np.all(te > 0) and np.all(nd >= 0) and np.all(np.isfinite(ne + te + nd))):
        ctx.skip("input function produced a non-positive point value")
        return
    O = [_oracle_point(elname, Z, par, float(ne[i]), float(te[i]), dkey, float(nd[i])) for i in range(npts)]
    O_nd = [(_oracle_point(elname, Z, par, float(ne[i]), float(te[i]), None, 0.0) if (dkey is not None and nd[i] > 0) else None)
            for i in range(npts)]

    mixed_profile = bool(dkey is not None and np.any(nd > 0) and np.any(nd == 0))
    if len(set(zip(ne.tolist(), te.tolist()))) < npts:
        ctx.cls("profile:coinciding-points")

    def equiv_call():
        """the same entry point on plain float64 ndarrays holding the point values (None when not applicable)."""
        esh = list(shape) if single is None else [1]
        adq = M.make_atomic_data(par)
        a_ne, a_te = ne.reshape(esh).copy(), te.reshape(esh).copy()
        dq = (None, None, 0)
        if donor is not None:
            dq = (dargs[0], None if donor["mode"] == "none_density" else nd.reshape(esh).copy(), dargs[2])
        spq = [sq.reshape([sq.shape[0]] + esh).copy() for sq in species_seen]
        if entry == "fractional_abundance":
            return _stack(ib.fractional_abundance(adq, el, a_ne, a_te, *dq), Z)
        if entry == "from_elementdensity":
            return _stack(ib.from_elementdensity(adq, el, nel.reshape(esh).copy(), a_ne, a_te, *dq), Z)
        if entry == "match_plasma_neutrality":
            return _stack(ib.match_plasma_neutrality(adq, el, spq, a_ne, a_te, *dq), Z)
        if entry.startswith("interpolators"):
            args = [a_ne, a_te] if fam == "fractional" else ([nel.reshape(esh).copy(), a_ne, a_te] if fam == "from" else [spq, a_ne, a_te])
            rq = getattr(ib, entry)(adq, el, fv64, *args, *dq)
            ptsq = [(x,) for x in xs] if len(shape) == 1 else [(x, y) for x in xs for y in ys]
            return np.array([[rq[z](*p_) for p_ in ptsq] for z in range(Z + 1)])
        if entry == "_fractional_abundance(coef_*)":
            cxq = ib.get_rates_tcx(adq, dargs[0], dargs[2], el) if donor is not None else None
            return np.asarray(ib._fractional_abundance(adq, el, a_ne, a_te, dargs[0], nd.reshape(esh).copy(), dargs[2],
                                                       coef_ion=ib.get_rates_ionisation(adq, el), coef_recom=ib.get_rates_recombination(adq, el),
                                                       coef_tcx=cxq), dtype=float).reshape(Z + 1, -1)
        return None

    ad = M.make_atomic_data(par)
    n0 = len(C.STATE["lsq"])
    mids = None
    mapper_vals = None
    eq_off = None
    try:
        if entry == "fractional_abundance":
            got = _stack(ib.fractional_abundance(ad, el, in_ne, in_te, free_variable=fv_pass, **dkw), Z)
        elif entry == "from_elementdensity":
            got = _stack(ib.from_elementdensity(ad, el, in_nel, in_ne, in_te, free_variable=fv_pass, **dkw), Z)
        elif entry == "match_plasma_neutrality":
            got = _stack(ib.match_plasma_neutrality(ad, el, in_species, in_ne, in_te, free_variable=fv_pass, **dkw), Z)
        elif entry.startswith("interpolators"):
            fn = getattr(ib, entry)
            if fam == "fractional":
                res = fn(ad, el, fv, in_ne, in_te, *dargs)
            elif fam == "from":
                res = fn(ad, el, fv, in_nel, in_ne, in_te, *dargs)
            else:
                res = fn(ad, el, fv, in_species, in_ne, in_te, *dargs)
            if len(shape) == 1:
                pts = [(x,) for x in xs]
                mpts = [((xs[i] + xs[i + 1]) / 2,) for i in range(len(xs) - 1)]
                mnb = [[i, i + 1] for i in range(len(xs) - 1)]
            else:
                ny = len(ys)
                pts = [(x, y) for x in xs for y in ys]
                mpts = [((xs[i] + xs[i + 1]) / 2, (ys[j] + ys[j + 1]) / 2) for i in range(len(xs) - 1) for j in range(ny - 1)]
                mnb = [[i * ny + j, i * ny + j + 1, (i + 1) * ny + j, (i + 1) * ny + j + 1] for i in range(len(xs) - 1) for j in range(ny - 1)]
            got = np.array([[res[z](*p) for p in pts] for z in range(Z + 1)])
            mids = (np.array([[res[z](*p) for p in mpts] for z in range(Z + 1)]), mnb)
            if len(shape) == 2 and min(xs) > 0:
                mp = ib.abundance_axisymmetric_mapper(res)
                # rotate interior knots only: sqrt(x^2+y^2) may round below the first / above the last x knot
                rot = [(0.7 if xs[0] < p[0] < xs[-1] else 0.0) for p in pts]
                mapper_vals = np.array([[mp[z](p[0] * math.cos(a), p[0] * math.sin(a), p[1]) for p, a in zip(pts, rot)] for z in range(Z + 1)])
        elif iseq:
            fn = getattr(ib, entry)
            eq = _equilibrium()
            if fam == "fractional":
                res = fn(ad, el, eq, fv, in_ne, in_te, *dargs)
            elif fam == "from":
                res = fn(ad, el, eq, fv, in_nel, in_ne, in_te, *dargs)
            else:
                res = fn(ad, el, eq, fv, in_species, in_ne, in_te, *dargs)
            phi = case["eq"]["phi"]
            g0 = np.array([[res[z](r, 0.0, zz) for (_, r, zz) in samples] for z in range(Z + 1)])
            g1 = np.array([[res[z](r * math.cos(phi), r * math.sin(phi), zz) for (_, r, zz) in samples] for z in range(Z + 1)])
            got = g0
            mapper_vals = g1
            cols = list(range(1, 1 + len(samples)))
            # off-node positions: the mapped profile must be the documented linear 1-D interpolator of the same family
            offp = []
            for r_, z_ in case["eq"].get("off", []):
                if eq.inside_lcfs(r_, z_) == 1.0:
                    p_ = eq.psi_normalised(r_, z_)
                    if 0.01 < p_ < 0.97:
                        offp.append((p_, r_, z_))
            if offp:
                fn1 = getattr(ib, entry.replace("equilibrium_map3d", "interpolators1d"))
                ad1 = M.make_atomic_data(par)
                if fam == "fractional":
                    ref1 = fn1(ad1, el, fv, in_ne, in_te, *dargs)
                elif fam == "from":
                    ref1 = fn1(ad1, el, fv, in_nel, in_ne, in_te, *dargs)
                else:
                    ref1 = fn1(ad1, el, fv, in_species, in_ne, in_te, *dargs)
                eq_off = (np.array([[res[z](r_, 0.0, z_) for (_, r_, z_) in offp] for z in range(Z + 1)]),
                          np.array([[ref1[z](p_) for (p_, _, _) in offp] for z in range(Z + 1)]), offp)
        elif entry == "_fractional_abundance(coef_*)":
            ci, cr = ib.get_rates_ionisation(ad, el), ib.get_rates_recombination(ad, el)
            cx = ib.get_rates_tcx(ad, dargs[0], dargs[2], el) if donor is not None else None
            got = np.asarray(ib._fractional_abundance(ad, el, in_ne, in_te, dargs[0], nd.reshape(shape).copy(), dargs[2],
                                                      coef_ion=ci, coef_recom=cr, coef_tcx=cx), dtype=float).reshape(Z + 1, -1)
        elif entry == "_from_element_density_point(coef_*)":
            ci, cr = ib.get_rates_ionisation(ad, el), ib.get_rates_recombination(ad, el)
            cx = ib.get_rates_tcx(ad, dargs[0], dargs[2], el) if donor is not None else None
            got = np.asarray(ib._from_element_density_point(ad, el, in_nel, in_ne, in_te, dargs[0], float(nd[0]), dargs[2],
                                                            coef_ion=ci, coef_recom=cr, coef_tcx=cx), dtype=float).reshape(Z + 1, 1)
        elif entry == "_match_element_density_point(coef_*)":
            ci, cr = ib.get_rates_ionisation(ad, el), ib.get_rates_recombination(ad, el)
            cx = ib.get_rates_tcx(ad, dargs[0], dargs[2], el) if donor is not None else None
            spl = [s[:, 0].copy() for s in species_seen]
            got = np.asarray(ib._match_element_density_point(ad, el, spl, in_ne, in_te, dargs[0], float(nd[0]), dargs[2],
                                                             coef_ion=ci, coef_recom=cr, coef_tcx=cx), dtype=float).reshape(Z + 1, 1)
        else:
            raise RuntimeError("unknown entry " + entry)
    except C.SolverNonTermination as e:
        ctx.mon("nontermination_certificates")
        ctx.viol("solver:lsq_linear-bounded-trf-path-never-returns",
                 "lsq_linear entered its bounded TRF iteration and the backtracking line search can make no progress: the "
                 "entry point would never return for this in-domain input (%s)" % e, entry=entry, Z=Z)
        return
    except C.ContractViolation as e:
        st = e.info.get("lsq_status")
        if e.info.get("solver_suspect"):
            ctx.viol("solver:lsq_linear-bounded-trf-path(status=%d)-result-inaccurate" % st,
                     "postcondition of %s failed (%s) on a point solved through the bounded TRF iteration" % (e.fn, e.clause),
                     entry=entry, Z=Z, clause=e.clause)
        else:
            ctx.viol("contract:%s:%s" % (e.fn, e.clause), "postcondition of %s failed: %s" % (e.fn, e.clause), entry=entry, Z=Z,
                     lsq_status=st)
        return
    except Exception as exc:  # noqa  -- only for non-default input kinds; anything else propagates (framework reports it)
        if rejected is not None and isinstance(exc, (TypeError, AttributeError, ValueError, IndexError)):
            ctx.skip("input kind rejected by the module (as on the unchanged tree): " + rejected)
            ctx.cls("rejected:" + rejected)
            return
        if not alt_inputs:
            raise
        try:
            ok_equiv = equiv_call() is not None
        except Exception:  # noqa
            ok_equiv = False
        if not ok_equiv:
            raise
        ctx.mon("input_kind_pairs")
        ctx.viol("inputs:%s:raises-but-float64-ndarray-call-works" % in_label,
                 "the call raises %s for this input kind while the same point values passed as float64 ndarrays are processed: %s"
                 % (type(exc).__name__, str(exc)[:200]), entry=entry, rep=rep, kinds=case["kinds"], dtypes=dts, fvkind=fk)
        return
    st = C.STATE["lsq"][n0:]
    del C.STATE["lsq"][:max(0, len(C.STATE["lsq"]) - 64)]
    statuses = st[:npts] if len(st) == npts else [None] * npts
    ctx.mon("rate_evaluations", ad.n_eval)
    if rejected is not None:
        ctx.cls("tolerated:" + rejected)

    # ---- which oracle column corresponds to which returned column ----------------------------------------------------
    if cols is None or not iseq:
        cols = list(range(npts))
    if got.shape != (Z + 1, len(cols)):
        ctx.viol("shape:%s" % entry, "result has shape %s, expected %s" % (got.shape, (Z + 1, len(cols))), rep=rep)
        return
    returns_functions = entry.startswith("interpolators") or iseq

    def scalar_ref(with_donor, i):
        """(fractions, solver status) of the public scalar fractional_abundance call at point i; None if it cannot be obtained."""
        ad2 = M.make_atomic_data(par)
        n1 = C.STATE["lsq_calls"]
        try:
            if with_donor:
                r = ib.fractional_abundance(ad2, el, float(ne[i]), float(te[i]), tcx_donor=dargs[0],
                                            tcx_donor_n=float(nd[i]), tcx_donor_charge=dargs[2])
            else:
                r = ib.fractional_abundance(ad2, el, float(ne[i]), float(te[i]))
        except (C.SolverNonTermination, C.ContractViolation):
            return None
        stat = C.STATE["lsq"][-1] if (C.STATE["lsq_calls"] > n1 and C.STATE["lsq"]) else None
        del C.STATE["lsq"][:max(0, len(C.STATE["lsq"]) - 64)]
        return _stack(r, Z)[:, 0], stat

    # ---- {charge: density} dicts: the result must not depend on the insertion order / dict type ----------------------
    order_dependent = False
    if fam == "match" and not entry.startswith("_") and any(isinstance(o, dict) and list(o) != sorted(o) for o in in_species):
        try:
            if entry == "match_plasma_neutrality":
                got2 = _stack(ib.match_plasma_neutrality(M.make_atomic_data(par), el, in_species_asc, in_ne, in_te,
                                                         free_variable=fv_pass, **dkw), Z)
            elif iseq:
                res2 = getattr(ib, entry)(M.make_atomic_data(par), el, _equilibrium(), fv, in_species_asc, in_ne, in_te, *dargs)
                got2 = np.array([[res2[z](r, 0.0, zz) for (_, r, zz) in samples] for z in range(Z + 1)])
            else:
                res2 = getattr(ib, entry)(M.make_atomic_data(par), el, fv, in_species_asc, in_ne, in_te, *dargs)
                got2 = np.array([[res2[z](*p) for p in pts] for z in range(Z + 1)])
        except (C.SolverNonTermination, C.ContractViolation):
            got2 = None
        del C.STATE["lsq"][:max(0, len(C.STATE["lsq"]) - 64)]
        if got2 is not None:
            ctx.mon("dict_order_pairs")
            if got2.shape != got.shape or not np.allclose(got, got2, rtol=1e-12, atol=0.0, equal_nan=True):
                order_dependent = True
                ctx.viol("neutrality:depends-on-dict-insertion-order:%s" % entry,
                         "the same {charge: density} species dicts passed in ascending-charge insertion order give a different "
                         "result: densities are attributed to charges by position, not by key",
                         insertion_orders=[list(o) for o in in_species if isinstance(o, dict)],
                         containers=[type(o).__name__ for o in in_species if isinstance(o, dict)],
                         max_rel_diff=float(np.max(np.abs(got - got2) / (np.abs(got2) + 1e-300))) if got2.shape == got.shape else None)

    # ---- input kinds: integer / float32 / non-contiguous free variables and ndarrays must give what float64 ndarrays give --
    if alt_inputs and rejected is None and not order_dependent:
        try:
            gq = equiv_call()
        except (C.SolverNonTermination, C.ContractViolation):
            gq = None
        del C.STATE["lsq"][:max(0, len(C.STATE["lsq"]) - 64)]
        if gq is not None and gq.shape == got.shape:
            ctx.mon("input_kind_pairs")
            if not np.allclose(got, gq, rtol=1e-9, atol=1e-12 * float(np.max(np.abs(gq))), equal_nan=True):
                key = "inputs:%s:disagrees-with-float64-ndarray-call" % in_label
                what = "the result differs from the same call with the point values passed as float64 ndarrays"
                int_fv = fv_used and (fk["kind"] in FV_INT or any(c in FV_INT for c in fk.get("comp", [])))
                if int_fv and fam != "match" and np.all(np.isfinite(got)) and np.all(got.sum(axis=0) > 0):
                    # are the sampled function values truncated to integers?
                    tr = {q: (np.trunc(v) if case["kinds"][q] == "func" else v) for q, v in (("ne", ne), ("te", te), ("nd", nd))}
                    if np.all(tr["ne"] >= 1) and np.all(tr["te"] >= 1):
                        Ot = [_oracle_point(elname, Z, par, float(tr["ne"][i]), float(tr["te"][i]), dkey, float(tr["nd"][i])) for i in cols]
                        if all(_point_ok(got[:, j] / got[:, j].sum(), Ot[j], Z, SLACK_COEF if returns_functions else 0.0, check_sum=False)
                               for j in range(len(cols))):
                            key = "inputs:%s:integer-free-variable-truncates" % fdim
                            what = ("with an integer-typed free variable the function values sampled on it are truncated to "
                                    "integers before the balance is solved")
                ctx.viol(key, what, entry=entry, rep=rep, kinds=case["kinds"], dtypes=dts, fvkind=fk,
                         max_rel_diff=float(np.nanmax(np.abs(got - gq) / (np.abs(gq) + 1e-300))))
                return

    col_slack = {}
    for j, i in enumerate(cols):
        g = got[:, j]
        where = dict(point=i, ne=float(ne[i]), te=float(te[i]), nd=float(nd[i]))
        slack = 0.0
        if fam == "fractional":
            f = g
            if returns_functions:
                slack = SLACK_COEF
            check_sum = True
        elif fam == "from":
            f = g / nel[i]
            if returns_functions:
                slack = SLACK_COEF * float(np.max(nel)) / float(nel[i])
            check_sum = True
            ctx.mon("densities", Z + 1)
        else:
            other = float(sum((np.arange(s.shape[0]) * s[:, i]).sum() for s in species_seen))
            rem = float(ne[i]) - other
            zbar = float((np.arange(Z + 1) * O[i]["f"]).sum())
            N_i = max(rem, 0.0) / zbar
            if returns_functions:
                Ns = []
                for k in range(npts):
                    ok_ = float(sum((np.arange(s.shape[0]) * s[:, k]).sum() for s in species_seen))
                    Ns.append(max(float(ne[k]) - ok_, 0.0) / float((np.arange(Z + 1) * O[k]["f"]).sum()))
                dens_slack = SLACK_COEF * max(Ns)
            else:
                dens_slack = 0.0
            ok = ctx.check(bool(np.all(np.isfinite(g)) and g.min() >= -dens_slack), "negative-density:%s" % entry,
                           "neutrality-matched densities contain a negative or non-finite value", monitor="nonneg",
                           min=float(np.min(g)), **where)
            if not ok:
                continue
            if rem <= 0:
                ctx.skip("other species carry more charge than n_e: neutrality cannot be matched (non-negativity checked)")
                continue
            charge = float((np.arange(Z + 1) * g).sum())
            mag = float(ne[i]) + other
            tolN = 1e-9 * mag + Z * dens_slack
            trf = statuses[i] in C.TRF_STATUSES
            ctx.mon("neutrality")
            if abs(charge - rem) > tolN:
                if trf:
                    ctx.viol("solver:lsq_linear-bounded-trf-path(status=%d)-result-inaccurate" % statuses[i],
                             "charge of the matched element does not restore neutrality on a TRF-path point", entry=entry, **where)
                elif not order_dependent:
                    ctx.viol("neutrality:%s" % entry, "sum_z z n_z + charge of the given species != n_e",
                             got_charge=charge, want_charge=rem, tol=tolN, **where)
                continue
            ctx.margin("neutrality", abs(charge - rem) / tolN)
            tot = float(g.sum())
            if not tot > 0:
                ctx.viol("neutrality:%s" % entry, "all densities are zero although charge remains to be matched", **where)
                continue
            f = g / tot
            slack = dens_slack / N_i if N_i > 0 else float("inf")
            check_sum = False
        if slack > SLACK_SKIP:
            ctx.skip("interpolation rounding slack too large for this knot (profile spans too many decades)")
            continue
        col_slack[j] = slack
        def nd_ref(i=i):
            r2 = scalar_ref(False, i)
            return None if r2 is None else r2[0]
        if mixed_profile and nd[i] > 0:
            ctx.mon("mixed_donor_points")
        alts = [(jj, O[jj]) for jj in range(i) if ne[jj] == ne[i] and te[jj] == te[i] and nd[jj] != nd[i]]
        if alts:
            ctx.mon("repeated_point_pairs")
        _judge_point(ctx, case, fam, f, O[i], O_nd[i], statuses[i], slack, check_sum, where, nodonor_ref=nd_ref,
                     mixed=mixed_profile, alts=alts)

    # ---- structure of function-valued results ------------------------------------------------------------------------
    if entry.startswith("interpolators"):
        ctx.mon("interp_nodes", got.size)
        mv, mnb = mids
        for z in range(Z + 1):
            for k, nb in enumerate(mnb):
                want = float(np.mean(got[z, nb]))
                tol = 1e-12 * float(np.max(np.abs(got[z, nb]))) + 1e-300
                ctx.mon("interp_mid")
                if abs(mv[z, k] - want) > tol:
                    ctx.viol("interpolator-not-linear:%s" % entry, "returned interpolator is not the (bi)linear interpolant of its knot values",
                             charge=z, cell=k, got=float(mv[z, k]), want=want)
                    break
        if mapper_vals is not None:
            ctx.close(mapper_vals, got, "axisymmetric-mapper:abundance_axisymmetric_mapper",
                      "abundance_axisymmetric_mapper(f)(r cos phi, r sin phi, z) != f(r, z)", rtol=1e-9,
                      atol=1e-10 * float(np.max(np.abs(got))), monitor="axisym_mapper")
    if iseq and eq_off is not None:
        goff, roff, offp = eq_off
        scale = float(np.max(np.abs(got))) + 1e-300
        knots = np.array(xs, dtype=float)
        tol_sum = 1e-10 + 2.0 * max(1e-12 + CS * EPS * o_["normA"] + (Z + 1) * CF * EPS * o_["kappa"] for o_ in O)
        for c_, (p_, r_, z_) in enumerate(offp):
            g = goff[:, c_]
            wh = dict(psi_n=float(p_), r=float(r_), z=float(z_), between_nodes=[float(knots[knots <= p_].max()), float(knots[knots >= p_].min())])
            ctx.mon("eqmap_offnode", Z + 1)
            if not np.all(np.isfinite(g)) or g.min() < -1e-10 * scale:
                ctx.viol("off-node:negative:%s" % entry, "between the psi_n nodes the mapped %s is negative (or non-finite)"
                         % ("fraction" if fam == "fractional" else "density"), min=float(np.min(g)), scale=scale, **wh)
            elif fam == "fractional" and g.max() > 1.0 + 1e-10:
                ctx.viol("off-node:range:%s" % entry, "between the psi_n nodes a mapped fraction exceeds 1", max=float(g.max()), **wh)
            if fam == "fractional" and np.all(np.isfinite(g)):
                ctx.margin("eqmap_offnode_sum", abs(float(g.sum()) - 1.0) / tol_sum)
                if abs(float(g.sum()) - 1.0) > tol_sum:
                    ctx.viol("off-node:sum-not-one:%s" % entry, "between the psi_n nodes the mapped fractions do not sum to one",
                             sum_minus_1=float(g.sum() - 1.0), **wh)
            tol = 1e-9 * np.abs(roff[:, c_]) + 1e-10 * scale
            if np.any(np.abs(g - roff[:, c_]) > tol):
                k_ = int(np.argmax(np.abs(g - roff[:, c_]) / tol))
                ctx.viol("off-node:disagrees-with-%s:%s" % (entry.replace("equilibrium_map3d", "interpolators1d"), entry),
                         "between the psi_n nodes the equilibrium-mapped profile differs from the (linear) 1-D interpolator "
                         "of the same family evaluated at psi_n(r, z)", charge=k_, got=float(g[k_]), want=float(roff[k_, c_]), **wh)
            else:
                ctx.margin("eqmap_offnode", float(np.max(np.abs(g - roff[:, c_]) / tol)))
    if iseq:
        ctx.mon("eqmap_points", got.size)
        ctx.close(mapper_vals, got, "equilibrium-map-not-axisymmetric:%s" % entry,
                  "mapped function differs between (r,0,z) and (r cos phi, r sin phi, z)", rtol=1e-9,
                  atol=1e-9 * float(np.max(np.abs(got))) + 1e-300, monitor="eqmap_axisym")

    # ---- cross entry point: the scalar fractional_abundance call on the first returned point and, with a donor, on the
    #      first point with positive and the first point with exactly zero donor density ------------------------------
    pick = [0]
    if donor is not None:
        pick += [j for j, i in enumerate(cols) if nd[i] > 0][:1] + [j for j, i in enumerate(cols) if nd[i] == 0][:1]
    for j in sorted(set(pick)):
        i = cols[j]
        g = got[:, j]
        if not (j in col_slack and np.all(np.isfinite(g)) and g.sum() > 0) or (entry == "fractional_abundance" and rep == "scalar"):
            continue
        rr = scalar_ref(donor is not None, i)
        if rr is None:
            continue
        ref, ref_status = rr
        if fam == "match" and ref.sum() > 0:
            ref = ref / ref.sum()      # match densities are judged as a normalised vector
        f = g if fam == "fractional" else (g / nel[i] if fam == "from" else g / g.sum())
        tol = 1e-12 + 1e-9 * np.abs(ref) + 2.0 * col_slack[j]
        bad = np.abs(f - ref) > tol
        ctx.mon("cross_entry", Z + 1)
        if not bad.any():
            continue
        trf_involved = statuses[i] in C.TRF_STATUSES or ref_status in C.TRF_STATUSES
        classified = False
        if O_nd[i] is not None:
            r2 = scalar_ref(False, i)
            if r2 is not None:
                trf_involved = trf_involved or r2[1] in C.TRF_STATUSES
                r2f = r2[0] / r2[0].sum() if (fam == "match" and r2[0].sum() > 0) else r2[0]
                if np.all(np.abs(f - r2f) <= 1e-12 + 1e-9 * np.abs(r2f) + 2.0 * col_slack[j]):
                    ctx.viol(_donor_key(entry, fam, mixed_profile),
                             "a thermal-CX donor with density > 0 was supplied at this point: the scalar fractional_abundance call "
                             "uses it, this entry point returns exactly the module's own no-donor fractions", entry=entry, point=i,
                             donor_density_profile=[float(v) for v in nd])
                    classified = True
        if classified:
            continue
        if trf_involved:
            ctx.skip("cross-entry comparison not judged: a bounded-TRF-path solve is involved (reported per point)")
            continue
        k = int(np.argmax(np.abs(f - ref) / tol))
        ctx.viol("entry-points-disagree:%s-vs-fractional_abundance(scalar)" % entry,
                 "same point, same rates: fractions differ from the scalar fractional_abundance call",
                 charge=k, got=float(f[k]), ref=float(ref[k]), rep=rep, point=i)


# =====================================================================================================================
# call sequences: results must not depend on what was called before
# =====================================================================================================================

def _point_ok(f, O, Z, slack, check_sum=True):
    if not np.all(np.isfinite(f)) or f.min() < -slack or f.max() > 1.0 + 1e-12 + slack:
        return False
    rS, rJ, rF, tolF = _ratios(f, O, Z, slack)
    return (rS <= 1 or not check_sum) and rJ <= 1 and (rF <= 1 or tolF > FWD_SKIP)


def _seq_oracles(cfg):
    el = getattr(_S["em"], ELEMENTS[cfg["Z"] - 1])
    d = cfg["donor"]
    dkey = (getattr(_S["em"], d["el"]).name, d["charge"]) if d else None
    par = tuple(cfg["par"])
    O, O_nd = [], []
    for ne, te, nd in zip(cfg["ne"], cfg["te"], cfg["nd"]):
        O.append(_oracle_point(el.name, cfg["Z"], par, ne, te, dkey, nd))
        O_nd.append(_oracle_point(el.name, cfg["Z"], par, ne, te, None, 0.0) if (dkey is not None and nd > 0) else None)
    return O, O_nd


def _run_sequence(case, ctx):
    ib, C = _S["ib"], _S["C"]
    xs = np.array(case["x"], dtype=float)
    sp_frac = np.array(case["sp_frac"], dtype=float)
    ctx.cls("entry:call_sequence")
    shared = {}          # ONE atomic-data object per rate table stays alive for the whole sequence
    keep = []            # fresh objects are kept alive too (no id() reuse)
    first_got = None
    history = []
    for k, stp in enumerate(case["steps"]):
        entry, Z = stp["entry"], stp["Z"]
        fam = ENTRIES[entry]["fam"]
        ctx.cls("seqchange:" + stp["change"])
        el = getattr(_S["em"], ELEMENTS[Z - 1])
        ne, te, nd, nel = (np.array(stp[q], dtype=float) for q in ("ne", "te", "nd", "nel"))
        par = tuple(stp["par"])
        if stp["fresh_ad"] or par not in shared:
            ad = M.make_atomic_data(par)
            keep.append(ad)
            if par not in shared:
                shared[par] = ad
        else:
            ad = shared[par]
        d = stp["donor"]
        dargs = (getattr(_S["em"], d["el"]), nd.copy(), d["charge"]) if d else (None, None, 0)
        dens = sp_frac * ne[None, :]
        species = [_ordered({z: dens[z].copy() for z in range(dens.shape[0])}, case.get("sp_order"))]
        try:
            if entry == "fractional_abundance":
                got = _stack(ib.fractional_abundance(ad, el, ne.copy(), te.copy(), *dargs), Z)
            elif entry == "from_elementdensity":
                got = _stack(ib.from_elementdensity(ad, el, nel.copy(), ne.copy(), te.copy(), *dargs), Z)
            elif entry == "match_plasma_neutrality":
                got = _stack(ib.match_plasma_neutrality(ad, el, species, ne.copy(), te.copy(), *dargs), Z)
            else:
                res = ib.interpolators1d_fractional(ad, el, xs.copy(), ne.copy(), te.copy(), *dargs)
                got = np.array([[res[z](x) for x in xs] for z in range(Z + 1)])
        except C.SolverNonTermination as e:
            ctx.viol("solver:lsq_linear-bounded-trf-path-never-returns", "entry point would never return (%s)" % e, entry=entry, step=k)
            return
        except C.ContractViolation as e:
            ctx.viol("contract:%s:%s" % (e.fn, e.clause), "postcondition of %s failed: %s" % (e.fn, e.clause), entry=entry, step=k)
            return
        del C.STATE["lsq"][:max(0, len(C.STATE["lsq"]) - 64)]
        if got.shape != (Z + 1, ne.size):
            ctx.viol("shape:%s" % entry, "result has shape %s" % (got.shape,), step=k)
            return
        slack = SLACK_COEF if entry.startswith("interpolators") else 0.0
        O, O_nd = _seq_oracles(stp)
        mixed = bool(d is not None and np.any(nd > 0) and np.any(nd == 0))
        F, okpts = [], []
        for i in range(ne.size):
            g = got[:, i]
            if fam == "fractional":
                f = g
            elif fam == "from":
                f = g / nel[i]
            else:
                rem = float(ne[i]) * (1.0 - float((np.arange(sp_frac.shape[0]) * sp_frac[:, i]).sum()))
                charge = float((np.arange(Z + 1) * g).sum())
                ctx.mon("neutrality")
                if not (np.all(np.isfinite(g)) and g.min() >= 0 and abs(charge - rem) <= 2e-9 * float(ne[i]) and g.sum() > 0):
                    ctx.viol("neutrality:%s" % entry, "sum_z z n_z + charge of the given species != n_e (or negative density)",
                             step=k, point=i, got_charge=charge, want_charge=rem)
                    f = None
                else:
                    f = g / g.sum()
            F.append(f)
            okpts.append(f is not None and _point_ok(f, O[i], Z, slack, check_sum=(fam != "match")))
        ctx.mon("sequence_steps")
        if all(okpts):
            for i in range(ne.size):
                _judge_point(ctx, {"entry": entry, "Z": Z}, fam, F[i], O[i], O_nd[i], None, slack, fam != "match",
                             dict(step=k, point=i), mixed=mixed)       # counts monitors / margins
                if any(ne[jj] == ne[i] and te[jj] == te[i] and nd[jj] != nd[i] for jj in range(i)):
                    ctx.mon("repeated_point_pairs")
                if mixed and nd[i] > 0:
                    ctx.mon("mixed_donor_points")
        elif all(f is not None for f in F):
            # does the result belong to an EARLIER call of this sequence (stale state)?  Not asked when every failing point
            # simply equals its own no-donor solution (that mechanism has its own keys).
            failing = [i for i in range(ne.size) if not okpts[i]]
            own_nodonor = all(O_nd[i] is not None and _point_ok(F[i], O_nd[i], Z, slack, check_sum=(fam != "match")) for i in failing)
            stale = None
            what = []
            for kk, prev in ([] if own_nodonor else history):
                if prev["Z"] != Z:
                    continue
                # stale rates / donor (own plasma and densities), or the previous call's answer as a whole
                for cand in (dict(stp, donor=prev["donor"], par=prev["par"]), prev):
                    if all(cand[q] == stp[q] for q in ("par", "donor", "ne", "te", "nd")):
                        continue
                    Op, _ = _seq_oracles(cand)
                    if all(_point_ok(F[i], Op[i], Z, slack, check_sum=(fam != "match")) for i in range(ne.size)):
                        stale = kk
                        a, b = cand["donor"], stp["donor"]
                        what = []
                        if (a is None) != (b is None):
                            what.append("donor_on_off")
                        elif a is not None:
                            what += ["donor_charge"] * (a["charge"] != b["charge"]) + ["donor_element"] * (a["el"] != b["el"])
                        what += ["atomic_data"] * (cand["par"] != stp["par"])
                        what += ["plasma"] * (cand["ne"] != stp["ne"] or cand["te"] != stp["te"])
                        what += ["donor_density"] * (cand["nd"] != stp["nd"] and a is not None and b is not None)
            if stale is not None:
                ctx.viol("sequence:result-depends-on-previous-call:%s" % "+".join(what),
                         "call %d of a sequence on one atomic-data object returns the exact solution for the arguments of call %d, "
                         "not for its own (stale: %s)" % (k, stale, "+".join(what)), last_change=stp["change"],
                         entry=entry, step=k, stale_step=stale, fresh_atomic_data=stp["fresh_ad"],
                         calls=[(q["entry"], q["change"], q["donor"], q["Z"]) for q in case["steps"][:k + 1]])
            else:
                for i in range(ne.size):
                    if not okpts[i]:
                        alts = [(jj, O[jj]) for jj in range(i) if ne[jj] == ne[i] and te[jj] == te[i] and nd[jj] != nd[i]]
                        _judge_point(ctx, {"entry": entry, "Z": Z}, fam, F[i], O[i], O_nd[i], None, slack, fam != "match",
                                     dict(step=k, point=i, change=stp["change"]), mixed=mixed, alts=alts)
        if k == 0:
            first_got = got
        elif stp["change"] == "repeat-first":
            ctx.mon("sequence_repeat")
            if not np.allclose(got, first_got, rtol=1e-12, atol=0.0):
                ctx.viol("sequence:repeat-of-first-call-differs:%s" % entry,
                         "the first call repeated at the end of the sequence (same atomic-data object, same arguments) returns a "
                         "different result", max_rel=float(np.max(np.abs(got - first_got) / (np.abs(first_got) + 1e-300))),
                         calls=[(q["entry"], q["change"]) for q in case["steps"]])
        history.append((k, stp))


# =====================================================================================================================
# containers returned by the helpers: independent of each other and unchanged by later calls
# =====================================================================================================================

def _run_containers(case, ctx):
    ib, C = _S["ib"], _S["C"]
    ctx.cls("entry:container_sequence")
    kept = []
    for k, stp in enumerate(case["steps"]):
        entry, Z = stp["entry"], stp["Z"]
        ctx.cls("container:" + entry)
        el = getattr(_S["em"], ELEMENTS[Z - 1])
        par = tuple(stp["par"])
        ad = M.make_atomic_data(par)
        d = stp["donor"]
        iseq = entry.startswith("equilibrium")
        mapper = entry.startswith("abundance")
        if iseq:
            shape, fv = [len(CONT_EQ_KNOTS)], np.array(CONT_EQ_KNOTS)
        elif "1d" in entry:
            shape, fv = [len(case["x1"])], np.array(case["x1"])
        else:
            shape, fv = [len(case["x2"]), len(case["y2"])], (np.array(case["x2"]), np.array(case["y2"]))
        ne, te, nd, nel, q = (np.array(stp[a], dtype=float) for a in ("ne", "te", "nd", "nel", "q"))
        g = lambda a: a.reshape(shape).copy()
        dargs = (getattr(_S["em"], d["el"]), g(nd), d["charge"]) if d else (None, None, 0)
        dkey = (dargs[0].name, d["charge"]) if d else None
        species = [{0: g(0.1 * q * ne), 1: g(q * ne)}]
        base = ("interpolators2d_" + {"fractional": "fractional", "from": "from_elementdensity", "match": "match_plasma_neutrality"}[stp["family"]]) if mapper else entry
        fam = ENTRIES[base]["fam"]
        args = [g(ne), g(te)] if fam == "fractional" else ([g(nel), g(ne), g(te)] if fam == "from" else [species, g(ne), g(te)])
        try:
            if iseq:
                res = getattr(ib, entry)(ad, el, _equilibrium(), fv, *args, *dargs)
            else:
                res = getattr(ib, base)(ad, el, fv, *args, *dargs)
                if mapper:
                    src = res
                    res = ib.abundance_axisymmetric_mapper(src)
                    if res is src:
                        ctx.viol("container:input-dict-returned:abundance_axisymmetric_mapper", "the mapper returns its input dictionary", step=k)
        except (C.SolverNonTermination, C.ContractViolation) as e:
            ctx.viol("contract-or-solver:%s" % entry, "call failed: %s" % e, step=k)
            return
        del C.STATE["lsq"][:max(0, len(C.STATE["lsq"]) - 64)]
        # evaluation points
        if iseq:
            eq = _equilibrium()
            pts = [(r_, 0.0, z_) for r_, z_ in CONT_EQ_PTS if eq.inside_lcfs(r_, z_) == 1.0 and eq.psi_normalised(r_, z_) < 0.97]
        elif len(shape) == 1:
            pts = [(x,) for x in case["x1"]]
        elif mapper:
            pts = [(x, 0.0, y) for x in case["x2"] for y in case["y2"]]
        else:
            pts = [(x, y) for x in case["x2"] for y in case["y2"]]

        def evaluate(r_, pts=pts, Z=Z):      # bound per step
            return np.array([[r_[z](*p_) for p_ in pts] for z in sorted(r_.keys()) if z <= Z])

        ctx.mon("container_steps")
        keys = sorted(res.keys())
        ok_keys = ctx.check(keys == list(range(Z + 1)), "container:unexpected-keys:%s" % entry,
                            "the returned dictionary does not have exactly the charge states 0..Z as keys", monitor="container_keys",
                            keys=[int(v) if isinstance(v, (int, np.integer)) else repr(v) for v in keys], Z=Z, step=k,
                            calls=[(q_["entry"], q_["Z"]) for q_ in case["steps"][:k + 1]])
        vals = evaluate(res) if ok_keys else None
        if vals is not None:
            if iseq:      # judged against the 1-D interpolators of the same family at psi_n(r, z)
                r1 = getattr(ib, entry.replace("equilibrium_map3d", "interpolators1d"))(M.make_atomic_data(par), el, fv, *args, *dargs)
                want = np.array([[r1[z](eq.psi_normalised(p_[0], p_[2])) for p_ in pts] for z in range(Z + 1)])
                ctx.close(vals, want, "container:equilibrium-map-differs-from-interpolators1d:%s" % entry,
                          "mapped values differ from the 1-D interpolators of the same family", rtol=1e-9,
                          atol=1e-10 * float(np.max(np.abs(want))) + 1e-300, monitor="container_values")
            else:
                for i in range(vals.shape[1]):
                    O = _oracle_point(el.name, Z, par, float(ne[i]), float(te[i]), dkey, float(nd[i]))
                    gcol = vals[:, i]
                    f = gcol if fam == "fractional" else (gcol / nel[i] if fam == "from" else (gcol / gcol.sum() if gcol.sum() > 0 else gcol))
                    _judge_point(ctx, {"entry": entry, "Z": Z}, fam, f, O, None, None, SLACK_COEF, fam != "match", dict(step=k, point=i))
            if fam == "fractional":
                ctx.close(vals.sum(axis=0), np.ones(vals.shape[1]), "container:fractions-do-not-sum-to-one:%s" % entry,
                          "fractions taken from the returned container do not sum to one", atol=1e-6, monitor="container_values")
        kept.append(dict(k=k, entry=entry, Z=Z, res=res, vals=vals, evaluate=evaluate, keys=keys,
                         ids=set(id(v) for v in res.values())))
    # ---- every container again, after all later calls ---------------------------------------------------------------
    calls = [(q_["entry"], q_["Z"]) for q_ in case["steps"]]
    for a, A in enumerate(kept):
        ctx.mon("container_rejudged")
        now_keys = sorted(A["res"].keys())
        if now_keys != A["keys"]:
            ctx.viol("container:earlier-result-changed-by-later-call:%s" % A["entry"],
                     "the dictionary returned by call %d has other keys after the later calls" % A["k"],
                     before=[int(v) for v in A["keys"]], after=[int(v) for v in now_keys], calls=calls)
        elif A["vals"] is not None:
            again = A["evaluate"](A["res"])
            if again.shape != A["vals"].shape or not np.allclose(again, A["vals"], rtol=1e-12, atol=0.0, equal_nan=True):
                ctx.viol("container:earlier-result-changed-by-later-call:%s" % A["entry"],
                         "the functions in the dictionary returned by call %d evaluate differently after the later calls" % A["k"], calls=calls)
        for B in kept[a + 1:]:
            if A["res"] is B["res"]:
                ctx.viol("container:same-dict-returned-by-two-calls:%s" % B["entry"],
                         "calls %d and %d returned the very same dictionary object" % (A["k"], B["k"]), calls=calls)
            elif A["ids"] & B["ids"]:
                ctx.viol("container:results-share-function-objects:%s" % B["entry"],
                         "calls %d and %d returned dictionaries sharing function objects" % (A["k"], B["k"]), calls=calls)


# =====================================================================================================================
# thorough tier: the repository's own tests under the same contracts
# =====================================================================================================================

def parent_extra(tier, seed, cfg):
    if tier != "thorough":
        return [], None
    import json
    import os
    import subprocess
    import tempfile
    from vf import core
    tmp = tempfile.mkdtemp(prefix="vf_c09_suite_")
    out = os.path.join(tmp, "suite.json")
    env = core.worker_env()
    env["HOME"] = tmp
    try:
        try:
            r = subprocess.run([core.PY, "-m", "vf.suite_c09", core.REPO, out], cwd=core.ROOT, env=env, capture_output=True,
                               text=True, timeout=1200)
        except subprocess.TimeoutExpired:
            raise core.Inconclusive("repository tests under contracts: watchdog (1200 s)")
        if not os.path.exists(out):
            raise core.Inconclusive("repository tests under contracts produced no result: " + (r.stdout + r.stderr)[-1500:])
        res = json.load(open(out))
    finally:
        import shutil
        shutil.rmtree(tmp, ignore_errors=True)
    if not res.get("ok"):
        raise core.Inconclusive("repository tests under contracts crashed: " + res.get("error", "?")[-1500:])
    evals = res["contract_evals"]
    total = int(sum(evals.values()))
    if total == 0 or res["collected"] == 0:
        raise core.Inconclusive("repository tests under contracts: %d tests collected, %d contract evaluations" % (res["collected"], total))
    viols, counts = [], {}
    for fl in res["contract_failures"]:
        st = fl["info"].get("lsq_status")
        if fl["info"].get("solver_suspect"):
            key = "solver:lsq_linear-bounded-trf-path(status=%d)-result-inaccurate" % st
        else:
            key = "suite-contract:%s:%s" % (fl["fn"], fl["clause"])
        counts[key] = counts.get(key, 0) + 1
        if counts[key] <= 3:
            viols.append({"key": key, "what": "postcondition of %s failed (%s) while running cherab/tools/tests/test_ionization_balance.py"
                                              % (fl["fn"], fl["clause"]), "detail": fl["info"],
                          "case": {"suite": "cherab/tools/tests/test_ionization_balance.py"}})
    mons = {"suite_contract_evals": total, "suite_tests_passed": int(res["passed"])}
    for k, v in evals.items():
        mons["suite_contract:" + k] = int(v)
    result = {"ok": True, "evaluations": 0, "hashes_nt": [], "n_distinct_all": 0, "monitors": mons, "classes": {},
              "margins": {}, "violations": viols, "viol_counts": counts, "skips": {}, "samples": [], "notes": {},
              "shard": "suite", "rc": 0}
    extra = {"suite_under_contracts": {"tests_collected": res["collected"], "tests_passed": res["passed"],
                                       "tests_failed": [f["test"] for f in res["failed"]], "contract_evaluations": evals,
                                       "contract_failures": res["n_contract_failures"], "lsq_linear_calls": res["lsq_calls"],
                                       "lsq_status_counts": res["lsq_status_counts"], "module_file": res["module_file"]}}
    return [result], extra
