"""C15 self-test driver (not part of the check): applies one realistic property-breaking edit at a time to a scratch
copy of the repository, runs the quick check against it (must exit 1 with a sensible key), runs the repository's own
observer-group tests on the broken copy (to see whether the suite would have caught the break) and restores the file.

    tools/scratch.sh new c15_a
    /venv/bin/python -m vf.selftest_c15 [A B ...]        # letters select breaks; default all
    tools/scratch.sh rm c15_a

Never touches /repo. Result of the calibration session (2026-09-28): all 15 breaks caught within the quick budget;
the repository's test_observer_groups.py catches only A, B, E, F, K, L.
"""
import os, shutil, subprocess, sys, time
SCR = "/tmp/vfscratch/c15_a"
G = "cherab/tools/observers/group/"
BREAKS = [
 ("A base.spectral_bins list branch assigns spectral_rays", G + "base.py",
  "                for observer, v in zip(self._observers, value):\n                    observer.spectral_bins = v\n",
  "                for observer, v in zip(self._observers, value):\n                    observer.spectral_rays = v\n"),
 ("B fibreoptic.radius length check dropped", G + "fibreoptic.py",
  "    def radius(self, value):\n        if isinstance(value, (list, tuple, ndarray)):\n            if len(value) == len(self._observers):",
  "    def radius(self, value):\n        if isinstance(value, (list, tuple, ndarray)):\n            if True:"),
 ("C pixel.y_width getter reversed", G + "pixel.py",
  "        return [pixel.y_width for pixel in self._observers]",
  "        return [pixel.y_width for pixel in reversed(self._observers)]"),
 ("D base.add_observer skips parent", G + "base.py",
  "        observer.parent = self\n        self._observers = self._observers + (observer, )",
  "        self._observers = self._observers + (observer, )"),
 ("E base.observers setter type check removed", G + "base.py",
  "        if not all(isinstance(val, self._OBSERVER_TYPE) for val in value):\n            raise ValueError('All observers assigned to the group must be of type {}'.format(self._OBSERVER_TYPE))\n",
  ""),
 ("F targettedpixel.targetted_path_prob scalar skips first pixel", G + "targettedpixel.py",
  "            for pixel in self._observers:\n                pixel.targetted_path_prob = value",
  "            for pixel in self._observers[1:]:\n                pixel.targetted_path_prob = value"),
 ("G bolometry.add_foil_detector skips parent", "cherab/tools/observers/bolometry.py",
  "        foil_detector.parent = self\n        self._foil_detectors.append(foil_detector)",
  "        self._foil_detectors.append(foil_detector)"),
 ("H base.observe skips last member", G + "base.py",
  "        for observer in self._observers:\n            observer.observe()",
  "        for observer in self._observers[:-1]:\n            observer.observe()"),
 ("I spectroscopic.accumulate list branch sets display_progress", G + "spectroscopic.py",
  "                for observer, v in zip(self._observers, value):\n                    observer.accumulate = v",
  "                for observer, v in zip(self._observers, value):\n                    observer.display_progress = v"),
 ("J sightline.sensitivity assigns before length check", G + "sightline.py",
  "        if isinstance(value, (list, tuple, ndarray)):\n            if len(value) == len(self._observers):",
  "        if isinstance(value, (list, tuple, ndarray)):\n            for observer, v in zip(self._observers, value):\n                observer.sensitivity = v\n            if len(value) == len(self._observers):"),
 ("K base.__getitem__ name lookup returns last match of all", G + "base.py",
  "                observers = [observer for observer in self._observers if observer.name == item]\n                if len(observers) == 1:\n                    return observers[0]",
  "                observers = [observer for observer in self._observers if observer.name == item]\n                if len(observers) == 1:\n                    return self._observers[0]"),
 ("L base.quiet wrong length raises TypeError", G + "base.py",
  "                raise ValueError(\"The length of 'quiet' ({}) \"",
  "                raise TypeError(\"The length of 'quiet' ({}) \""),
 ("M bolometry.foil_detectors setter keeps old list order (sorted by name)", "cherab/tools/observers/bolometry.py",
  "        self._foil_detectors = value\n",
  "        self._foil_detectors = sorted(value, key=lambda d: d.name)\n"),
 ("N spectroscopic fibre acceptance_angle scalar branch sets radius", G + "spectroscopic.py",
  "            for sight_line in self._observers:\n                sight_line.acceptance_angle = value",
  "            for sight_line in self._observers:\n                sight_line.radius = value"),
 ("O base.min_wavelength ndarray not named any more", G + "base.py",
  "    def min_wavelength(self, value):\n        if isinstance(value, (list, tuple, ndarray)):",
  "    def min_wavelength(self, value):\n        if isinstance(value, (list, tuple)):"),
]


def main():
    only = sys.argv[1:]
    for name, rel, old, new in BREAKS:
        if only and name.split()[0] not in only:
            continue
        path = os.path.join(SCR, rel)
        shutil.copy(os.path.join("/repo", rel), path)
        s = open(path).read()
        if s.count(old) < 1:
            print("BREAK %s: pattern not found" % name, flush=True); continue
        open(path, "w").write(s.replace(old, new, 1))
        t = time.time()
        env = dict(os.environ, VERIF_REPO=SCR)
        r = subprocess.run(["./check", "C15"], cwd="/verif", env=env, capture_output=True, text=True)
        keys = [l.strip()[:230] for l in r.stdout.splitlines() if l.strip().startswith("key=")]
        print("BREAK %s -> exit %d in %.0fs; %d new keys" % (name, r.returncode, time.time() - t, len(keys)), flush=True)
        for k in keys[:6]:
            print("     ", k, flush=True)
        if r.returncode != 1:
            print(r.stdout[-1500:], flush=True)
        # repo's own observer-group tests on the broken copy ("realistic" = suite stays green)
        p = subprocess.run(["/venv/bin/python", "/verif/tools/scratch_pytest.py", SCR, "cherab/tools/tests/test_observer_groups.py"],
                           capture_output=True, text=True)
        summ = [l for l in p.stdout.splitlines() if " passed" in l or " failed" in l]
        print("      repo tests on broken copy:", summ[-1][:120] if summ else p.stderr[-200:], flush=True)
        shutil.copy(os.path.join("/repo", rel), path)
    print("DONE", flush=True)


if __name__ == "__main__":
    main()
