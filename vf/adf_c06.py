"""Minimal ADF text-file writers for the C06 repository-history check (install_adf* front-ends).

Deliberately small: just enough of the ADF11 / ADF12 / ADF15 / ADF21 / ADF22 record layouts for the cherab parsers to
reach their repository.update_* calls.  Numbers are taken from the (JSON) case and printed with fixed Fortran-like
formats; C06 never compares the installed numbers with the file (that is property C08) - it compares what
install_* hands to repository.update_* with what the repository returns afterwards.
Does not import cherab and does not depend on vf/adfw.py.
"""


def _rows(values, per_line, fmt):
    out = []
    for i in range(0, len(values), per_line):
        out.append("".join(fmt % v for v in values[i:i + per_line]))
    return out


# ----------------------------------------------------------------------------------------------------------------
# ADF11 (unresolved):  header / ---- / log10 ne / log10 te / blocks "----/ IPRT= 1 / IGRD= 1 /----/ Z1= n / DATE="
# ----------------------------------------------------------------------------------------------------------------

def adf11_text(element_name, z_nuclear, log_ne, log_te, blocks, klass="scd"):
    """blocks: list of (z1, table) with table[n_te][n_ne] of log10 coefficients (cm^3 s^-1 / W cm^3)."""
    z1s = [b[0] for b in blocks]
    lines = ["%5d%5d%5d%5d%5d     /%-18s  /GCR PROJECT  %s" % (z_nuclear, len(log_ne), len(log_te), min(z1s), max(z1s),
                                                              element_name.upper(), klass.upper())]
    lines.append("-" * 80)
    lines += _rows(list(log_ne), 8, "%10.5f")
    lines += _rows(list(log_te), 8, "%10.5f")
    for z1, table in blocks:
        lines.append("-" * 20 + "/ IPRT= 1  / IGRD= 1  /--------/ Z1= %-2d  / DATE= 01/01/00" % z1)
        for row in table:                      # one row per temperature, densities run fastest
            lines += _rows(list(row), 8, "%10.5f")
    lines.append("C" + "-" * 79)
    lines.append("C")
    lines.append("C  synthetic ADF11 %s file written by the C06 harness" % klass)
    lines.append("C")
    lines.append("C" + "-" * 79)
    return "\n".join(lines) + "\n"


# ----------------------------------------------------------------------------------------------------------------
# ADF15: header, blocks "<wl> A  nn  nt /FILMEM = x /TYPE = EXCIT /INDM = T /ISEL = n", comment table
# ----------------------------------------------------------------------------------------------------------------

_L_LETTERS = "SPDFGHIKLMNOQR"


def adf15_level_string(cfg):
    """The level name the 'full' header style stands for: '<configuration lower-cased> <2S+1><L letter><J>'."""
    return "%s %s%s%s" % (cfg["conf"].lower(), cfg["mult"], _L_LETTERS[cfg["L"]], cfg["J"])


def adf15_text(style, symbol, charge, blocks, levels=None):
    """style: 'hydrogen' | 'hydrogen-like' | 'full'.
    blocks: list of dict(isel, wl (Angstrom), type EXCIT|RECOM|CHEXC, upper, lower, ne[], te[], pec[nn][nt]);
    upper/lower are integers (principal quantum numbers, or level ids into `levels` for style 'full').
    levels: for 'full': list of dict(id, conf e.g. '1S2 2S1 2P1', mult '2', L int, J '0.5')."""
    lines = ["%5d    /%s+%d PHOTON EMISSIVITY COEFFICIENTS/" % (len(blocks), symbol.upper(), charge)]
    for b in blocks:
        lines.append("%8.1f A%5d%5d /FILMEM = synth   /TYPE = %-5s /INDM = T  /ISEL = %4d" % (
            b["wl"], len(b["ne"]), len(b["te"]), b["type"], b["isel"]))
        lines += _rows(list(b["ne"]), 8, "%10.3E")
        lines += _rows(list(b["te"]), 8, "%10.3E")
        for row in b["pec"]:                   # one row per density, temperatures run fastest
            lines += _rows(list(row), 8, "%10.3E")
    lines.append("C" + "-" * 79)
    lines.append("C")
    lines.append("C  synthetic ADF15 file written by the C06 harness")
    lines.append("C")
    if style == "full":
        lines.append("C    Configuration           (2S+1)L(w-1/2)     Energy (cm**-1)")
        lines.append("C    -------------           --------------     ---------------")
        for k, lv in enumerate(levels):
            lines.append("C %5d  %-20s (%s)%d(%4s)     %12.1f" % (lv["id"], lv["conf"].upper() + " ", lv["mult"], lv["L"],
                                                                 lv["J"], 1000.0 * k))
        lines.append("C")
    lines.append("C  ISEL  WAVELENGTH      TRANSITION            TYPE")
    lines.append("C  ----  ----------  ----------------------    -----")
    for b in blocks:
        if style == "hydrogen":
            tr = "N=%2d - N=%2d" % (b["upper"], b["lower"])
        else:
            tr = "%3d(2)1( 1.5)-%3d(2)0( 0.5)" % (b["upper"], b["lower"])
        lines.append("C %4d. %10.1f   %s  %s" % (b["isel"], b["wl"], tr, b["type"]))
    lines.append("C")
    lines.append("C" + "-" * 79)
    return "\n".join(lines) + "\n"


# ----------------------------------------------------------------------------------------------------------------
# ADF12: count line, blocks of 10-character fields, 6 per line (first character of every field unused)
# ----------------------------------------------------------------------------------------------------------------

def _f6(values, fmt=" %9.2E"):
    return _rows(list(values), 6, fmt)


def _pad(values, n):
    values = list(values)
    return values + [0.0] * (n - len(values))


def adf12_text(blocks):
    """blocks: list of dict(upper, lower, qref, refs[5], eb,qeb (<=24), ti,qti (<=12), ni,qni (<=24), z,qz (<=12),
    b,qb (<=12))."""
    lines = ["%5d" % len(blocks)]
    for i, b in enumerate(blocks):
        head = "%s%2d-%2d" % ("  synthetic effective CX coeff.  N=".ljust(38)[:38], b["upper"], b["lower"])
        lines.append(head + "   isel=%d" % (i + 1))
        lines += _f6([b["qref"]])
        lines += _f6(b["refs"])
        lines += _f6([len(b["eb"]), len(b["ti"]), len(b["ni"]), len(b["z"]), len(b["b"])], " %9d")
        for name, width in (("eb", 24), ("qeb", 24), ("ti", 12), ("qti", 12), ("ni", 24), ("qni", 24),
                            ("z", 12), ("qz", 12), ("b", 12), ("qb", 12)):
            lines += _f6(_pad(b[name], width))
    lines.append("C" + "-" * 79)
    lines.append("C  synthetic ADF12 file written by the C06 harness")
    return "\n".join(lines) + "\n"


# ----------------------------------------------------------------------------------------------------------------
# ADF21 / ADF22 (bms / bmp / bme): fixed-column header fields, 8 ten-character fields per line
# ----------------------------------------------------------------------------------------------------------------

def _place(width, *fields):
    buf = [" "] * width
    for col, text in fields:
        for k, ch in enumerate(text):
            buf[col + k] = ch
    return "".join(buf).rstrip()


def _f8(values):
    return _rows(list(values), 8, " %9.2E")


def adf2x_text(zt, svref, spec, tref, eb, dt, sv, eref, dref, tt, svt):
    """sv[neb][ndt]; file stores one group of neb values per density."""
    hy = "-" * 80
    lines = [_place(80, (0, "/ZT="), (3, "%2d" % zt), (6, "/SVREF="), (13, "%9.3E" % svref), (23, "/SPEC="),
                    (29, "%-2s" % spec[:2]), (32, "/DATE="), (38, "01/01/00"), (47, "/CODE="), (53, "SYNTH C06")),
             hy,
             _place(80, (1, "%4d" % len(eb)), (6, "%4d" % len(dt)), (11, "/TREF="), (17, "%9.3E" % tref)),
             hy]
    lines += _f8(eb)
    lines += _f8(dt)
    lines.append(hy)
    for j in range(len(dt)):
        lines += _f8([sv[i][j] for i in range(len(eb))])
    lines.append(hy)
    lines.append(_place(80, (1, "%4d" % len(tt)), (6, "/EREF="), (12, "%9.3E" % eref), (22, "/NREF="),
                        (28, "%9.3E" % dref)))
    lines.append(hy)
    lines += _f8(tt)
    lines.append(hy)
    lines += _f8(svt)
    lines.append("C" + "-" * 79)
    lines.append("C  synthetic ADF21/22 file written by the C06 harness")
    return "\n".join(lines) + "\n"
