"""Analytic Solov'ev-type flux functions and discretisation bounds for C12 (imports nothing from cherab).

    zeta = (R^2 - R0^2) / (2 R0)
    s(R, Z) = [ zeta^2 + (1 + 2 tau zeta / R0) (Z - Z0)^2 / kappa^2 ] / a^2        (Solov'ev: c1 zeta^2 + (c2 + c3 zeta) Z^2)
    psi = psi_axis + (psi_lcfs - psi_axis) s

s = 0 at the magnetic axis (R0, Z0), s = 1 is the last closed flux surface (closed for a < R0/2), parametrised exactly by
    zeta = a cos t,  R = sqrt(R0^2 + 2 R0 a cos t),  Z = Z0 + kappa a sin t / sqrt(1 + 2 tau a cos t / R0).
psi is a polynomial of degree 4 in R and 2 in Z, so every derivative bound needed below is computed from its coefficients.
"""
import math

import numpy as np
from numpy.polynomial import polynomial as P


class Solovev:
    def __init__(self, R0, a, kappa, tau, Z0, psi_axis, psi_lcfs):
        self.R0, self.a, self.kappa, self.tau, self.Z0 = float(R0), float(a), float(kappa), float(tau), float(Z0)
        self.psi_axis, self.psi_lcfs = float(psi_axis), float(psi_lcfs)
        self.delta = self.psi_lcfs - self.psi_axis

    # ---- closed forms -------------------------------------------------------------------------
    def s(self, R, Z):
        R = np.asarray(R, float)
        Zp = np.asarray(Z, float) - self.Z0
        zeta = (R * R - self.R0 ** 2) / (2 * self.R0)
        g = (1 + 2 * self.tau * zeta / self.R0) / self.kappa ** 2
        return (zeta ** 2 + g * Zp ** 2) / self.a ** 2

    def psi(self, R, Z):
        return self.psi_axis + self.delta * self.s(R, Z)

    def dpsi_dR(self, R, Z):
        R = np.asarray(R, float)
        Zp = np.asarray(Z, float) - self.Z0
        zeta = (R * R - self.R0 ** 2) / (2 * self.R0)
        zeta_R = R / self.R0
        gp = 2 * self.tau / (self.R0 * self.kappa ** 2)          # dg/dzeta
        return self.delta * (2 * zeta * zeta_R + gp * zeta_R * Zp ** 2) / self.a ** 2

    def dpsi_dZ(self, R, Z):
        R = np.asarray(R, float)
        Zp = np.asarray(Z, float) - self.Z0
        zeta = (R * R - self.R0 ** 2) / (2 * self.R0)
        g = (1 + 2 * self.tau * zeta / self.R0) / self.kappa ** 2
        return self.delta * 2 * g * Zp / self.a ** 2

    def lcfs(self, n, scale=1.0, t0=0.0):
        """n vertices of the s = 1 contour (scaled about the axis by `scale`), counter-clockwise, not closed."""
        t = t0 + 2 * np.pi * np.arange(n) / n
        zeta = self.a * np.cos(t)
        R = np.sqrt(self.R0 ** 2 + 2 * self.R0 * zeta)
        Z = self.Z0 + self.kappa * self.a * np.sin(t) / np.sqrt(1 + 2 * self.tau * zeta / self.R0)
        R = self.R0 + scale * (R - self.R0)
        Z = self.Z0 + scale * (Z - self.Z0)
        return R, Z

    # ---- polynomial coefficients c[i, j] of R^i (Z-Z0)^j ------------------------------------
    def coeffs(self):
        R0, a, k, tau = self.R0, self.a, self.kappa, self.tau
        zeta = np.array([-R0 / 2, 0.0, 1 / (2 * R0)])                    # in R
        zeta2 = P.polymul(zeta, zeta)
        g = P.polyadd([1 / k ** 2], (2 * tau / (R0 * k ** 2)) * zeta)
        c = np.zeros((5, 3))
        c[:len(zeta2), 0] += zeta2
        c[:len(g), 2] += g
        c *= self.delta / a ** 2
        c[0, 0] += self.psi_axis
        return c

    def dmax(self, c, order_r, order_z, rr, zz):
        """max |d^(order_r+order_z) psi / dR^order_r dZ^order_z| over the sample arrays rr x zz (x1.1 safety)."""
        d = c
        if order_r:
            d = P.polyder(d, order_r, axis=0)
        if order_z:
            d = P.polyder(d, order_z, axis=1)
        if d.size == 0:
            return 0.0
        v = P.polygrid2d(rr, zz - self.Z0, d)
        return 1.1 * float(np.max(np.abs(v)))


# Lebesgue-type constant of one-dimensional cubic Hermite interpolation with finite-difference slopes:
# |h00| + |h01| = 1; interior slopes (f[i+1] - f[i-1]) / 2 contribute <= max t(1 - t) = 1/4; a one-sided edge slope
# (f[1] - f[0]) contributes <= 2 * 4/27.  1 + 8/27 + 1/8 < 1.45
LAMBDA1 = 1.45


def _e1d(h, m2, m3, m4, edge):
    """Bound of the 1-D error of cubic Hermite interpolation of a smooth function whose node slopes are estimated by
    central differences (error h^2 m3 / 6 each, basis weight <= 1/4 h in total) and, in the outermost cell, by a
    one-sided difference (error h m2 / 2, basis weight <= 4/27 h); exact-slope Hermite error h^4 m4 / 384."""
    e = h ** 4 * m4 / 384.0 + h ** 3 * m3 / 24.0
    if edge:
        e += h ** 2 * m2 * (2.0 / 27.0)
    return e


class Bounds:
    """Computed discretisation bounds for the quantities EFITEquilibrium derives from a sampled Solov'ev psi grid on a
    rectilinear (possibly non-uniform) grid, evaluated with the ACTUAL local spacing around each point.

    psi interpolant      : bicubic interpolation of exact node values.
    dpsi/dR, dpsi/dZ     : node values np.gradient(psi, edge_order=2) / np.gradient(axis, edge_order=2) (index-space
                           differences), then bicubic interpolation of those node values.
        interior node, spacings a (left) and b (right):  (psi(r+b) - psi(r-a)) / (a + b)
              = psi' + (b - a)/2 psi'' + R,  |R| <= (a^2 - a b + b^2)/6 M3  <=  max(a,b)^2 / 3 M3   (kept conservative)
        first node, spacings a, b:  (-3 psi0 + 4 psi1 - psi2) / (3a - b)
              = psi' + (a - b)(3a + b) / (2 (3a - b)) psi'' + R,  |R| <= (4 a^3 + (a + b)^3) / (6 (3a - b)) M3
        (Taylor with Lagrange remainder; M2, M3 = sup of the 2nd / 3rd derivative over the grid domain.)
    """

    def __init__(self, sol, r, z):
        self.sol = sol
        self.r = np.asarray(r, float)
        self.z = np.asarray(z, float)
        self.dr = np.diff(self.r)
        self.dz = np.diff(self.z)
        self.hr = float(np.min(self.dr))       # smallest spacings (rounding floor)
        self.hz = float(np.min(self.dz))
        rho = max(float(np.max(np.maximum(self.dr[1:] / self.dr[:-1], self.dr[:-1] / self.dr[1:]))),
                  float(np.max(np.maximum(self.dz[1:] / self.dz[:-1], self.dz[:-1] / self.dz[1:]))))
        self.jump_r = float(np.max(np.abs(np.diff(self.dr)))) if len(self.dr) > 1 else 0.0
        self.jump_z = float(np.max(np.abs(np.diff(self.dz)))) if len(self.dz) > 1 else 0.0
        self.lam = LAMBDA1 * rho               # interpolation weights grow with the adjacent spacing ratio
        rr = np.linspace(self.r[0], self.r[-1], 65)
        zz = np.linspace(self.z[0], self.z[-1], 65)
        c = sol.coeffs()
        self.c = c
        self.M = {(i, j): sol.dmax(c, i, j, rr, zz) for i in range(0, 6) for j in range(0, 6) if i + j <= 5}
        self.fd_r = self._fd_nodes(self.dr, self.M[(2, 0)], self.M[(3, 0)])
        self.fd_z = self._fd_nodes(self.dz, self.M[(0, 2)], self.M[(0, 3)])

    @staticmethod
    def _fd_nodes(d, m2, m3):
        n = len(d) + 1
        e = np.empty(n)
        a, b = d[:-1], d[1:]
        e[1:-1] = np.abs(b - a) / 2 * m2 + np.maximum(a, b) ** 2 / 3 * m3
        for node, (a_, b_) in ((0, (d[0], d[1])), (n - 1, (d[-1], d[-2]))):
            den = 3 * a_ - b_
            e[node] = (abs(a_ - b_) * (3 * a_ + b_) / (2 * den) * m2 + (4 * a_ ** 3 + (a_ + b_) ** 3) / (6 * den) * m3) if den > 0 else np.inf
        return e

    @staticmethod
    def _local(axis, d, X):
        """cell index, local spacing (largest of the cell and its neighbours), edge flag, node window for each X."""
        i = np.clip(np.searchsorted(axis, X, side="right") - 1, 0, len(axis) - 2)
        lo = np.clip(i - 1, 0, len(d) - 1)
        hi = np.clip(i + 1, 0, len(d) - 1)
        h = np.maximum(np.maximum(d[lo], d[i]), d[hi])
        edge = (i == 0) | (i == len(axis) - 2)
        return i, h, edge

    def _interp(self, R, Z, dr, dz):
        """bound of |bicubic interpolant of exact node values of F - F| where F = d^dr_R d^dz_Z psi."""
        M = self.M
        R = np.asarray(R, float)
        Z = np.asarray(Z, float)
        _, hr, er = self._local(self.r, self.dr, R)
        _, hz, ez = self._local(self.z, self.dz, Z)
        m4r = M[(dr + 4, dz)] if dr + 4 + dz <= 5 else 0.0
        m4z = M[(dr, dz + 4)] if dr + dz + 4 <= 5 else 0.0
        e_r = hr ** 4 * m4r / 384.0 + hr ** 3 * M[(dr + 3, dz)] / 24.0 + np.where(er, hr ** 2 * M[(dr + 2, dz)] * (2.0 / 27.0), 0.0)
        e_z = hz ** 4 * m4z / 384.0 + hz ** 3 * M[(dr, dz + 3)] / 24.0 + np.where(ez, hz ** 2 * M[(dr, dz + 2)] * (2.0 / 27.0), 0.0)
        # cross-derivative node estimates (the fourth ingredient of a bicubic patch): their error is first order in the
        # adjacent-spacing difference plus second order in the spacing; four corners with basis weight <= (4/27 h)^2 each
        g = lambda i, j: M[(i, j)] if i + j <= 5 else 0.0   # noqa
        d_xy = (self.jump_r / 2 * g(dr + 2, dz + 1) + self.jump_z / 2 * g(dr + 1, dz + 2)
                + hr ** 2 / 3 * g(dr + 3, dz + 1) + hz ** 2 / 3 * g(dr + 1, dz + 3))
        e_xy = 4 * (4.0 / 27.0) ** 2 * hr * hz * d_xy
        return self.lam * (e_r + e_z) + self.lam ** 2 * e_xy

    @staticmethod
    def _window_max(e, i):
        n = len(e)
        out = e[np.clip(i - 1, 0, n - 1)]
        for k in (0, 1, 2):
            out = np.maximum(out, e[np.clip(i + k, 0, n - 1)])
        return out

    def psi(self, R, Z):
        return self._interp(R, Z, 0, 0)

    def dpsi_dR(self, R, Z):
        i, _, _ = self._local(self.r, self.dr, np.asarray(R, float))
        return self._interp(R, Z, 1, 0) + self.lam ** 2 * self._window_max(self.fd_r, i)

    def dpsi_dZ(self, R, Z):
        j, _, _ = self._local(self.z, self.dz, np.asarray(Z, float))
        return self._interp(R, Z, 0, 1) + self.lam ** 2 * self._window_max(self.fd_z, j)


def point_in_polygon(px, py, vx, vy):
    """Even-odd crossing test (vectorised over points); own implementation, no triangulation."""
    px = np.asarray(px, float)
    py = np.asarray(py, float)
    inside = np.zeros(px.shape, bool)
    n = len(vx)
    for i in range(n):
        x0, y0 = vx[i], vy[i]
        x1, y1 = vx[(i + 1) % n], vy[(i + 1) % n]
        if y0 == y1:
            continue
        cond = (y0 > py) != (y1 > py)
        with np.errstate(divide="ignore", invalid="ignore"):
            xint = x0 + (py - y0) * (x1 - x0) / (y1 - y0)
        inside ^= cond & (px < xint)
    return inside


def polygon_distance(px, py, vx, vy):
    """Distance from each point to the nearest polygon edge."""
    px = np.asarray(px, float)
    py = np.asarray(py, float)
    best = np.full(px.shape, np.inf)
    n = len(vx)
    for i in range(n):
        x0, y0 = vx[i], vy[i]
        x1, y1 = vx[(i + 1) % n], vy[(i + 1) % n]
        dx, dy = x1 - x0, y1 - y0
        L2 = dx * dx + dy * dy
        if L2 == 0:
            d = np.hypot(px - x0, py - y0)
        else:
            t = np.clip(((px - x0) * dx + (py - y0) * dy) / L2, 0.0, 1.0)
            d = np.hypot(px - (x0 + t * dx), py - (y0 + t * dy))
        best = np.minimum(best, d)
    return best
