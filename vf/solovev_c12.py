"""Analytic Solov'ev-type flux functions and discretisation bounds for C12 (imports nothing from cherab).

    zeta = (R^2 - R0^2) / (2 R0)
    s(R, Z) = [ zeta^2 + (1 + 2 tau zeta / R0) (Z - Z0)^2 / kappa^2 ] / a^2        (Solov'ev: c1 zeta^2 + (c2 + c3 zeta) Z^2)
    psi = psi_axis + (psi_lcfs - psi_axis) s

s = 0 at the magnetic axis (R0, Z0), s = 1 is the last closed flux surface (closed for a < R0/2), parametrised exactly by
    zeta = a cos t,  R = sqrt(R0^2 + 2 R0 a cos t),  Z = Z0 + kappa a sin t / sqrt(1 + 2 tau a cos t / R0).
psi is a polynomial of degree 4 in R and 2 in Z, so every derivative bound needed below is computed from its coefficients.
"""
import math

import numpy as np
from numpy.polynomial import polynomial as P


class Solovev:
    def __init__(self, R0, a, kappa, tau, Z0, psi_axis, psi_lcfs):
        self.R0, self.a, self.kappa, self.tau, self.Z0 = float(R0), float(a), float(kappa), float(tau), float(Z0)
        self.psi_axis, self.psi_lcfs = float(psi_axis), float(psi_lcfs)
        self.delta = self.psi_lcfs - self.psi_axis

    # ---- closed forms -------------------------------------------------------------------------
    def s(self, R, Z):
        R = np.asarray(R, float)
        Zp = np.asarray(Z, float) - self.Z0
        zeta = (R * R - self.R0 ** 2) / (2 * self.R0)
        g = (1 + 2 * self.tau * zeta / self.R0) / self.kappa ** 2
        return (zeta ** 2 + g * Zp ** 2) / self.a ** 2

    def psi(self, R, Z):
        return self.psi_axis + self.delta * self.s(R, Z)

    def dpsi_dR(self, R, Z):
        R = np.asarray(R, float)
        Zp = np.asarray(Z, float) - self.Z0
        zeta = (R * R - self.R0 ** 2) / (2 * self.R0)
        zeta_R = R / self.R0
        gp = 2 * self.tau / (self.R0 * self.kappa ** 2)          # dg/dzeta
        return self.delta * (2 * zeta * zeta_R + gp * zeta_R * Zp ** 2) / self.a ** 2

    def dpsi_dZ(self, R, Z):
        R = np.asarray(R, float)
        Zp = np.asarray(Z, float) - self.Z0
        zeta = (R * R - self.R0 ** 2) / (2 * self.R0)
        g = (1 + 2 * self.tau * zeta / self.R0) / self.kappa ** 2
        return self.delta * 2 * g * Zp / self.a ** 2

    def lcfs(self, n, scale=1.0, t0=0.0):
        """n vertices of the s = 1 contour (scaled about the axis by `scale`), counter-clockwise, not closed."""
        t = t0 + 2 * np.pi * np.arange(n) / n
        zeta = self.a * np.cos(t)
        R = np.sqrt(self.R0 ** 2 + 2 * self.R0 * zeta)
        Z = self.Z0 + self.kappa * self.a * np.sin(t) / np.sqrt(1 + 2 * self.tau * zeta / self.R0)
        R = self.R0 + scale * (R - self.R0)
        Z = self.Z0 + scale * (Z - self.Z0)
        return R, Z

    # ---- polynomial coefficients c[i, j] of R^i (Z-Z0)^j ------------------------------------
    def coeffs(self):
        R0, a, k, tau = self.R0, self.a, self.kappa, self.tau
        zeta = np.array([-R0 / 2, 0.0, 1 / (2 * R0)])                    # in R
        zeta2 = P.polymul(zeta, zeta)
        g = P.polyadd([1 / k ** 2], (2 * tau / (R0 * k ** 2)) * zeta)
        c = np.zeros((5, 3))
        c[:len(zeta2), 0] += zeta2
        c[:len(g), 2] += g
        c *= self.delta / a ** 2
        c[0, 0] += self.psi_axis
        return c

    def dmax(self, c, order_r, order_z, rr, zz):
        """max |d^(order_r+order_z) psi / dR^order_r dZ^order_z| over the sample arrays rr x zz (x1.1 safety)."""
        d = c
        if order_r:
            d = P.polyder(d, order_r, axis=0)
        if order_z:
            d = P.polyder(d, order_z, axis=1)
        if d.size == 0:
            return 0.0
        v = P.polygrid2d(rr, zz - self.Z0, d)
        return 1.1 * float(np.max(np.abs(v)))


# Lebesgue-type constant of one-dimensional cubic Hermite interpolation with finite-difference slopes:
# |h00| + |h01| = 1; interior slopes (f[i+1] - f[i-1]) / 2 contribute <= max t(1 - t) = 1/4; a one-sided edge slope
# (f[1] - f[0]) contributes <= 2 * 4/27.  1 + 8/27 + 1/8 < 1.45
LAMBDA1 = 1.45


def _e1d(h, m2, m3, m4, edge):
    """Bound of the 1-D error of cubic Hermite interpolation of a smooth function whose node slopes are estimated by
    central differences (error h^2 m3 / 6 each, basis weight <= 1/4 h in total) and, in the outermost cell, by a
    one-sided difference (error h m2 / 2, basis weight <= 4/27 h); exact-slope Hermite error h^4 m4 / 384."""
    e = h ** 4 * m4 / 384.0 + h ** 3 * m3 / 24.0
    if edge:
        e += h ** 2 * m2 * (2.0 / 27.0)
    return e


class Bounds:
    """Computed discretisation bounds for the quantities EFITEquilibrium derives from a sampled Solov'ev psi grid.

    psi interpolant      : bicubic interpolation of exact node values.
    dpsi/dR, dpsi/dZ     : np.gradient(edge_order=2) at the nodes (error <= h^2 M3 / 3, the one-sided 3-point formula;
                           central differences have h^2 M3 / 6) followed by bicubic interpolation of those node values.
    """

    def __init__(self, sol, r, z):
        self.sol = sol
        self.r = np.asarray(r, float)
        self.z = np.asarray(z, float)
        self.hr = float(np.max(np.diff(self.r)))
        self.hz = float(np.max(np.diff(self.z)))
        rr = np.linspace(self.r[0], self.r[-1], 65)
        zz = np.linspace(self.z[0], self.z[-1], 65)
        c = sol.coeffs()
        self.c = c
        m = lambda i, j: sol.dmax(c, i, j, rr, zz)   # noqa
        self.M = {(i, j): m(i, j) for i in range(0, 6) for j in range(0, 6) if i + j <= 5}

    def _is_edge(self, R, Z):
        r, z = self.r, self.z
        er = (R < r[1]) | (R > r[-2])
        ez = (Z < z[1]) | (Z > z[-2])
        return er, ez

    def _interp(self, R, Z, dr, dz):
        """bound of |bicubic interpolant of exact node values of F - F| where F = d^dr_R d^dz_Z psi."""
        M = self.M
        er, ez = self._is_edge(np.asarray(R, float), np.asarray(Z, float))
        out = np.zeros(np.shape(R))
        for edge_r in (False, True):
            for edge_z in (False, True):
                e_r = _e1d(self.hr, M[(dr + 2, dz)], M[(dr + 3, dz)], M[(dr + 4, dz)] if dr + 4 + dz <= 5 else 0.0, edge_r)
                e_z = _e1d(self.hz, M[(dr, dz + 2)], M[(dr, dz + 3)], M[(dr, dz + 4)] if dr + dz + 4 <= 5 else 0.0, edge_z)
                sel = (er == edge_r) & (ez == edge_z)
                out = np.where(sel, LAMBDA1 * (e_r + e_z), out)
        return out

    def psi(self, R, Z):
        return self._interp(R, Z, 0, 0)

    def dpsi_dR(self, R, Z):
        fd = self.hr ** 2 * self.M[(3, 0)] / 3.0
        return self._interp(R, Z, 1, 0) + LAMBDA1 ** 2 * fd

    def dpsi_dZ(self, R, Z):
        fd = self.hz ** 2 * self.M[(0, 3)] / 3.0
        return self._interp(R, Z, 0, 1) + LAMBDA1 ** 2 * fd


def point_in_polygon(px, py, vx, vy):
    """Even-odd crossing test (vectorised over points); own implementation, no triangulation."""
    px = np.asarray(px, float)
    py = np.asarray(py, float)
    inside = np.zeros(px.shape, bool)
    n = len(vx)
    for i in range(n):
        x0, y0 = vx[i], vy[i]
        x1, y1 = vx[(i + 1) % n], vy[(i + 1) % n]
        if y0 == y1:
            continue
        cond = (y0 > py) != (y1 > py)
        with np.errstate(divide="ignore", invalid="ignore"):
            xint = x0 + (py - y0) * (x1 - x0) / (y1 - y0)
        inside ^= cond & (px < xint)
    return inside


def polygon_distance(px, py, vx, vy):
    """Distance from each point to the nearest polygon edge."""
    px = np.asarray(px, float)
    py = np.asarray(py, float)
    best = np.full(px.shape, np.inf)
    n = len(vx)
    for i in range(n):
        x0, y0 = vx[i], vy[i]
        x1, y1 = vx[(i + 1) % n], vy[(i + 1) % n]
        dx, dy = x1 - x0, y1 - y0
        L2 = dx * dx + dy * dy
        if L2 == 0:
            d = np.hypot(px - x0, py - y0)
        else:
            t = np.clip(((px - x0) * dx + (py - y0) * dy) / L2, 0.0, 1.0)
            d = np.hypot(px - (x0 + t * dx), py - (y0 + t * dy))
        best = np.minimum(best, d)
    return best
