"""MOCKAD for C05 — recording mock atomic-data provider for the beam models (BeamCXLine, BeamEmissionLine).

Rate tables are described by plain-dict *specs* that live in the (JSON) case, so a replay rebuilds exactly the same
provider:

    {"mode": "power", "c": c, "x0": [...], "a": [...]}   value = c * prod_i (1 + x_i / x0_i) ** a_i
    {"mode": "const", "c": c}                            value = c for every argument
    {"mode": "zero"}                                     value = 0.0 (the provider's null rate)

"power" tables are positive and finite for every non-negative finite argument (incl. 0) and depend on *every* argument
with logarithmic sensitivity a_i * x/(x + x0_i); x0 is chosen at the low end of the driven range so that a wrong density,
temperature, energy, Z-effective or |B| reaching a coefficient changes the number by far more than the tolerances.
`rate_value(spec, args)` is the pure-Python table definition used by both the mock (to answer) and the oracle (to
predict); it imports nothing from cherab.

Every accessor call is appended to `provider.events`; every `evaluate` call is appended to the rate object's `calls`
list as (args tuple, returned value).  A request for a key that the case does not define returns a recording *decoy*
(positive constant, flagged `decoy=True`) so that the monitor can report the wrong request instead of the harness
raising.  The cherab-facing classes are created lazily (importing this module never imports cherab).
"""
import math

DECOY_VALUE = 7.7e-33


def rate_value(spec, args):
    mode = spec["mode"]
    if mode == "zero":
        return 0.0
    if mode == "const":
        return float(spec["c"])
    v = float(spec["c"])
    for x, x0, a in zip(args, spec["x0"], spec["a"]):
        v *= (1.0 + x / x0) ** a
    return v


_CLASSES = {}


def _build_classes():
    if _CLASSES:
        return _CLASSES
    from cherab.core.atomic import AtomicData, BeamCXPEC, BeamStoppingRate, BeamPopulationRate, BeamEmissionPEC

    class MockBeamCXPEC(BeamCXPEC):
        def __init__(self, donor_metastable, spec, key, decoy=False):
            super().__init__(donor_metastable)
            self.spec = spec
            self.key = key
            self.decoy = decoy
            self.calls = []

        def evaluate(self, energy, temperature, density, z_effective, b_field):
            args = (energy, temperature, density, z_effective, b_field)
            v = rate_value(self.spec, args)
            self.calls.append((args, v))
            return v

    def mk3(base):
        class _Rate(base):
            def __init__(self, spec, key, decoy=False):
                self.spec = spec
                self.key = key
                self.decoy = decoy
                self.calls = []

            def evaluate(self, energy, density, temperature):
                args = (energy, density, temperature)
                v = rate_value(self.spec, args)
                self.calls.append((args, v))
                return v
        _Rate.__name__ = "Mock" + base.__name__
        return _Rate

    MS, MP, ME = mk3(BeamStoppingRate), mk3(BeamPopulationRate), mk3(BeamEmissionPEC)

    class MockAtomicData(AtomicData):
        """tables = {
             "wavelength": {"<element>|<charge>|<upper>|<lower>": nm},
             "cx": {"donor": name, "receiver": name, "receiver_charge": Z, "transition": [u, l],
                    "rates": [{"metastable": m, "spec": spec}, ...]  (order = order of the returned list)},
             "cx_alt": optional second entry of the same shape (the line a model is switched to in a history),
             "pop": {"<m>|<element>|<charge>": spec}, "bes": {"<element>|<charge>": spec}, "stop": {"<element>|<charge>": spec},
             "beam_element": name, "bes_transition": [3, 2]}"""

        def __init__(self, tables):
            super().__init__()
            self.tables = tables
            self.events = []
            self.cx_rates = []          # every list handed out by beam_cx_pec: (table name "cx"|"cx_alt", [(metastable, rate), ...])
            self.pop_rates = {}         # (m, element, charge) -> [rate objects handed out]
            self.bes_rates = {}         # (element, charge) -> [rate objects handed out]
            self.stop_rates = {}
            self.decoys = []

        # -- helpers ---------------------------------------------------------------------------
        def all_rates(self):
            out = []
            for _, lst in self.cx_rates:
                out.extend(r for _, r in lst)
            for d in (self.pop_rates, self.bes_rates, self.stop_rates):
                for lst in d.values():
                    out.extend(lst)
            out.extend(self.decoys)
            return out

        def clear_calls(self):
            for r in self.all_rates():
                del r.calls[:]

        def _decoy(self, cls, *a):
            r = cls(*a, decoy=True)
            self.decoys.append(r)
            return r

        # -- accessors -------------------------------------------------------------------------
        def wavelength(self, ion, charge, transition):
            key = "%s|%d|%s|%s" % (ion.name, int(charge), transition[0], transition[1])
            self.events.append(("wavelength", key))
            return float(self.tables["wavelength"].get(key, 123.456))

        def beam_cx_pec(self, donor_ion, receiver_ion, receiver_charge, transition):
            req = (donor_ion.name, receiver_ion.name, int(receiver_charge), [transition[0], transition[1]])
            self.events.append(("beam_cx_pec",) + req[:3] + (tuple(req[3]),))
            for name in ("cx", "cx_alt"):
                cx = self.tables.get(name)
                if cx is None or req != (cx["donor"], cx["receiver"], int(cx["receiver_charge"]), list(cx["transition"])):
                    continue
                lst = [(int(r["metastable"]), MockBeamCXPEC(int(r["metastable"]), r["spec"], (name, int(r["metastable"]))))
                       for r in cx["rates"]]
                self.cx_rates.append((name, lst))
                return [r for _, r in lst]
            return [self._decoy(MockBeamCXPEC, 1, {"mode": "const", "c": DECOY_VALUE}, ("cx-decoy",) + req[:3])]

        def beam_population_rate(self, beam_ion, metastable, plasma_ion, charge):
            self.events.append(("beam_population_rate", beam_ion.name, int(metastable), plasma_ion.name, int(charge)))
            key = "%d|%s|%d" % (int(metastable), plasma_ion.name, int(charge))
            spec = self.tables["pop"].get(key)
            if spec is None or beam_ion.name != self.tables["beam_element"]:
                return self._decoy(MP, {"mode": "const", "c": 0.123}, ("pop-decoy", key))
            r = MP(spec, ("pop", int(metastable), plasma_ion.name, int(charge)))
            self.pop_rates.setdefault((int(metastable), plasma_ion.name, int(charge)), []).append(r)
            return r

        def beam_emission_pec(self, beam_ion, plasma_ion, charge, transition):
            self.events.append(("beam_emission_pec", beam_ion.name, plasma_ion.name, int(charge), (transition[0], transition[1])))
            key = "%s|%d" % (plasma_ion.name, int(charge))
            spec = self.tables["bes"].get(key)
            if (spec is None or beam_ion.name != self.tables["beam_element"]
                    or [transition[0], transition[1]] != list(self.tables["bes_transition"])):
                return self._decoy(ME, {"mode": "const", "c": DECOY_VALUE}, ("bes-decoy", key))
            r = ME(spec, ("bes", plasma_ion.name, int(charge)))
            self.bes_rates.setdefault((plasma_ion.name, int(charge)), []).append(r)
            return r

        def beam_stopping_rate(self, beam_ion, plasma_ion, charge):
            self.events.append(("beam_stopping_rate", beam_ion.name, plasma_ion.name, int(charge)))
            key = "%s|%d" % (plasma_ion.name, int(charge))
            spec = self.tables["stop"].get(key, {"mode": "zero"})
            r = MS(spec, ("stop", plasma_ion.name, int(charge)))
            self.stop_rates.setdefault((plasma_ion.name, int(charge)), []).append(r)
            return r

    _CLASSES.update(MockAtomicData=MockAtomicData, MockBeamCXPEC=MockBeamCXPEC, MS=MS, MP=MP, ME=ME)
    return _CLASSES


def make_atomic_data(tables):
    return _build_classes()["MockAtomicData"](tables)
