"""Independent reference mathematics for C11 (never imports cherab).

* system builders (geometry matrices, measurement vectors, grid Laplacians) from a JSON recipe;
* NumPy SART / constrained SART written from the docstring formula of cherab.tools.inversions.sart, run with an
  a-priori rounding-error bound that is propagated through the iteration (so the lock-step comparison has a computed,
  not a guessed, tolerance and is skipped when the iteration itself amplifies rounding errors);
* optimality certificates (normal equations / KKT) evaluated in extended precision.
"""
import numpy as np

EPS = 2.220446049250313e-16
LD = np.longdouble


# ------------------------------------------------------------------------------------------------
# builders
# ------------------------------------------------------------------------------------------------

def grid_laplacian(nx, ny, kind):
    """Cell index i = ix * ny + iy.  lap4 / lap8: diagonal = number of existing neighbours (zero row sums, the form the
    bolometry demos build); lap4c / lap8c: diagonal = C fixed (docstring formula C x_l - sum of neighbours)."""
    n = nx * ny
    if kind == "zero":
        return np.zeros((n, n))
    if kind == "identity":
        return np.identity(n)
    L = np.zeros((n, n))
    eight = kind.startswith("lap8")
    for ix in range(nx):
        for iy in range(ny):
            i = ix * ny + iy
            cnt = 0
            for dx in (-1, 0, 1):
                for dy in (-1, 0, 1):
                    if dx == 0 and dy == 0:
                        continue
                    if not eight and dx != 0 and dy != 0:
                        continue
                    jx, jy = ix + dx, iy + dy
                    if 0 <= jx < nx and 0 <= jy < ny:
                        L[i, jx * ny + jy] = -1.0
                        cnt += 1
            L[i, i] = (8.0 if eight else 4.0) if kind.endswith("c") else float(cnt)
    return L


def _chord_matrix(rng, m, nx, ny):
    """Line-integral geometry matrix of m random chords over an nx x ny grid of unit cells (path length per cell by
    fine sampling): the structure real sight-line geometries have, incl. unseen cells and chords missing the grid."""
    W = np.zeros((m, nx * ny))
    cx, cy = nx / 2.0, ny / 2.0
    rad = 0.75 * np.hypot(nx, ny) + 0.5
    ns = 600
    for k in range(m):
        a0, a1 = rng.uniform(0, 2 * np.pi, 2)
        p0 = np.array([cx + rad * np.cos(a0), cy + rad * np.sin(a0)])
        p1 = np.array([cx + rad * np.cos(a1), cy + rad * np.sin(a1)])
        t = (np.arange(ns) + 0.5) / ns
        px = p0[0] + (p1[0] - p0[0]) * t
        py = p0[1] + (p1[1] - p0[1]) * t
        ok = (px >= 0) & (px < nx) & (py >= 0) & (py < ny)
        if ok.any():
            idx = np.floor(px[ok]).astype(int) * ny + np.floor(py[ok]).astype(int)
            step = np.hypot(*(p1 - p0)) / ns
            W[k] = np.bincount(idx, minlength=nx * ny) * step
    return W


def build_w(case):
    nx, ny, m = case["nx"], case["ny"], case["m"]
    n = nx * ny
    rng = np.random.default_rng([int(case["wseed"]), 1101])
    kind = case["wkind"]
    if kind == "explicit":
        return np.array(case["W"], dtype=float).reshape(m, n)
    if kind == "dense":
        W = rng.random((m, n))
    elif kind == "sparse":
        W = rng.random((m, n)) * (rng.random((m, n)) < case.get("density", 0.3))
    elif kind == "chords":
        W = _chord_matrix(rng, m, nx, ny)
    elif kind == "lowrank":
        r = int(case.get("rank", 1))
        W = rng.random((m, r)) @ rng.random((r, n))
    elif kind == "zeros":
        W = np.zeros((m, n))
    elif kind == "identity":
        W = np.zeros((m, n))
        for i in range(min(m, n)):
            W[i, i] = 1.0
    else:
        raise ValueError("unknown wkind %r" % kind)
    mods = case.get("mods", {})
    for _ in range(int(mods.get("dup_cols", 0))):
        s, d = rng.integers(n, size=2)
        W[:, d] = W[:, s]
    for _ in range(int(mods.get("dup_rows", 0))):
        s, d = rng.integers(m, size=2)
        W[d, :] = W[s, :]
    for _ in range(int(mods.get("prop_cols", 0))):        # proportional columns: two voxels seen with proportional path lengths
        s_, d_ = rng.integers(n, size=2)
        W[:, d_] = W[:, s_] * rng.uniform(0.2, 3.0)
    for _ in range(int(mods.get("lincomb_cols", 0))):     # one column a combination of two others
        s1, s2, d_ = rng.integers(n, size=3)
        W[:, d_] = rng.uniform(0.2, 2.0) * W[:, s1] + rng.uniform(0.2, 2.0) * W[:, s2]
    for _ in range(int(mods.get("prop_rows", 0))):
        s_, d_ = rng.integers(m, size=2)
        W[d_, :] = W[s_, :] * rng.uniform(0.2, 3.0)
    for _ in range(int(mods.get("lincomb_rows", 0))):
        s1, s2, d_ = rng.integers(m, size=3)
        W[d_, :] = rng.uniform(0.2, 2.0) * W[s1, :] + rng.uniform(0.2, 2.0) * W[s2, :]
    if mods.get("colscale_dec", 0):
        W = W * 10.0 ** rng.uniform(-mods["colscale_dec"], mods["colscale_dec"], n)[None, :]
    if mods.get("rowscale_dec", 0):
        W = W * 10.0 ** rng.uniform(-mods["rowscale_dec"], mods["rowscale_dec"], m)[:, None]
    for _ in range(int(mods.get("zero_rows", 0))):
        W[int(rng.integers(m)), :] = 0.0
    for _ in range(int(mods.get("zero_cols", 0))):
        W[:, int(rng.integers(n))] = 0.0
    W = W * float(case.get("wscale", 1.0))
    W = np.asfortranarray(W) if mods.get("order", "C") == "F" else np.ascontiguousarray(W)
    return W


def build_xtrue(case):
    nx, ny = case["nx"], case["ny"]
    n = nx * ny
    rng = np.random.default_rng([int(case["bseed"]), 1102])
    kind = case.get("xkind", "random")
    if kind == "random":
        x = rng.random(n)
    elif kind == "sparse":
        x = rng.random(n) * (rng.random(n) < 0.4)
    elif kind == "blob":
        ix, iy = np.divmod(np.arange(n), ny)
        c = rng.uniform(0, 1, 2) * [nx, ny]
        s = rng.uniform(0.5, 2.0)
        x = np.exp(-((ix + 0.5 - c[0]) ** 2 + (iy + 0.5 - c[1]) ** 2) / (2 * s * s))
    elif kind == "const":
        x = np.ones(n)
    else:
        raise ValueError("unknown xkind %r" % kind)
    return x * float(case.get("xscale", 1.0)), rng


def build_b(case, W):
    m = W.shape[0]
    xt, rng = build_xtrue(case)
    kind = case["bkind"]
    if kind == "explicit":
        return np.array(case["b"], dtype=float).reshape(m), xt
    if kind == "zero":
        return np.zeros(m), xt
    bc = np.dot(W, xt)
    if kind == "consistent":
        return bc, xt
    ref = float(np.abs(bc).max())
    if ref == 0.0:
        ref = float(case.get("wscale", 1.0)) * float(case.get("xscale", 1.0))
    if kind == "noisy":      # non-negative measurements
        return np.abs(bc + case.get("noise", 0.05) * ref * rng.normal(size=m)), xt
    if kind == "noisy_signed":   # background-subtracted signals may go slightly negative
        b = bc + case.get("noise", 0.05) * ref * rng.normal(size=m)
        if not (b > 0).any():
            b[int(rng.integers(m))] = ref
        return b, xt
    if kind == "random":
        return ref * rng.random(m) + ref * 1e-3, xt
    if kind == "nonpositive":    # no positive entry, some exactly zero, at least one negative (over-subtracted background)
        b = -np.abs(bc + 0.3 * ref * rng.normal(size=m)) * (rng.random(m) < 0.6)
        if not (b < 0).any():
            b[int(rng.integers(m))] = -ref
        return b, xt
    if kind == "all_negative":
        return -ref * (rng.random(m) + 1e-3), xt
    if kind == "mixed":
        return ref * rng.normal(size=m), xt
    if kind == "single":
        b = np.zeros(m)
        b[int(rng.integers(m))] = ref
        return b, xt
    raise ValueError("unknown bkind %r" % kind)


def build_tikhonov(case, W):
    nx, ny = case["nx"], case["ny"]
    n = nx * ny
    kind = case.get("tikkind", "none")
    rng = np.random.default_rng([int(case["wseed"]), 1103])
    if kind == "none":
        return None
    if kind in ("identity", "zero", "lap4", "lap8", "lap4c", "lap8c"):
        return grid_laplacian(nx, ny, kind)
    if kind == "lap_unseen":   # the bolometry demos' idiom: columns of unseen cells set to 1e10, used with alpha ~ 1e-11
        L = grid_laplacian(nx, ny, "lap8")
        L[:, np.nonzero(W.sum(axis=0) == 0)[0]] = 1e10
        return L
    if kind == "dense":
        return rng.normal(size=(n, n))
    if kind == "singular_diag":
        d = rng.random(n) * (rng.random(n) < 0.5)
        return np.diag(d)
    raise ValueError("unknown tikkind %r" % kind)


# ------------------------------------------------------------------------------------------------
# reference SART (docstring formula) with propagated rounding-error bound
# ------------------------------------------------------------------------------------------------

class SartRef:
    """x^(i+1)_l = max(0, x_l + omega / W_(+,l) * sum_k W_kl / W_(k,+) * (Phi_k - (W x)_k) - beta * (L x)_l).

    Terms with W_(k,+) = 0 (ray of zero length) contribute nothing; cells with W_(+,l) = 0 (no ray) get no data update.
    conv_i = (Phi.Phi - yhat.yhat) / Phi.Phi with yhat = W x^(i+1); stop after iteration i > 0 when
    |conv_i - conv_(i-1)| < conv_tol.

    The error bound: with S = diag(sqrt(W_(+,l))) the linear part J = I - omega D^-1 W^T R^-1 W - beta L satisfies
    ||S J S^-1||_2 = g (g <= 1 for plain SART, omega <= 2) and clipping is non-expansive in any diagonally weighted
    norm, so two executions of the same rule in floating point differ by at most E_k in the S-norm, where
    E_(k+1) = g E_k + ||S delta_k||_2 and delta_k is the local rounding error of one step (standard model, any
    summation order).  |x_real - x_ref|_l <= E_k / s_l.
    """

    def __init__(self, W, b, relaxation, beta=0.0, L=None):
        self.W = np.asarray(W, dtype=float)
        self.b = np.asarray(b, dtype=float)
        self.m, self.n = self.W.shape
        self.omega = float(relaxation)
        self.beta = float(beta)
        self.L = None if L is None else np.asarray(L, dtype=float)
        self.D = self.W.sum(axis=0)
        self.R = self.W.sum(axis=1)
        with np.errstate(divide="ignore", invalid="ignore"):
            self.P = np.where(self.R[:, None] != 0, self.W / self.R[:, None], 0.0)      # W_kl / W_(k,+)
            self.gain = np.where(self.D > 0, self.omega / self.D, 0.0)                   # omega / W_(+,l)
        self.seen = self.D > 0
        dpos = self.D[self.seen]
        s0 = np.sqrt(dpos.mean()) if dpos.size else 1.0
        self.s = np.where(self.seen, np.sqrt(np.where(self.seen, self.D, 1.0)), s0)
        J = np.identity(self.n) - self.gain[:, None] * (self.P.T @ self.W)
        if self.L is not None and self.beta != 0.0:
            J = J - self.beta * self.L
        Js = (self.s[:, None] * J) / self.s[None, :]
        try:
            self.g = float(np.linalg.norm(Js, 2))
        except np.linalg.LinAlgError:
            self.g = float("inf")
        if not np.isfinite(self.g):
            self.g = float("inf")
        self.g = self.g * (1 + 1e-12) + 1e-13       # g itself is a computed quantity
        try:
            self.wnorm_s = float(np.linalg.norm(self.W / self.s[None, :], 2))
        except np.linalg.LinAlgError:
            self.wnorm_s = float("inf")
        self.absW = np.abs(self.W)
        self.absL = None if self.L is None else np.abs(self.L)
        self.bb = float(np.dot(self.b, self.b))

    def step(self, x, yhat, spread=0.0):
        """One application of the rule; returns (x_new, yhat_new, local rounding bound per component).

        spread = component-wise bound on how far the *other* execution's current iterate may be from x: its local
        rounding errors scale with its own iterate, so the bound is evaluated at |x| + spread."""
        m, n = self.m, self.n
        with np.errstate(all="ignore"):
            diff = self.b - yhat
            upd = self.P.T @ diff
            xn = x + self.gain * upd
            xa = np.abs(x) + spread
            q = np.abs(self.b) + self.absW @ xa
            delta = EPS * (n + m + 8) * self.gain * (self.P.T @ q) + 4 * EPS * xa
            if self.L is not None:
                pen = self.beta * (self.L @ x)
                xn = xn - pen
                delta = delta + EPS * (n + 8) * abs(self.beta) * (self.absL @ xa)
            delta = delta + 2 * EPS * (np.abs(xn) + spread)
            xn = np.where(xn < 0, 0.0, xn)
            yn = self.W @ xn
        return xn, yn, delta

    def run(self, x0, max_iterations, conv_tol, real_len=None, zero_b=False, safety=4.0):
        """Lock-step run.  Returns dict(x, conv, E (S-norm bound per iterate), conv_tol_k, iterates, borderline, stop_k).

        real_len = len(convergence) reported by the real code: only used to follow the real decision when the
        stopping decision is numerically borderline (that decision is then not judged)."""
        x = np.array(x0, dtype=float)
        with np.errstate(all="ignore"):
            yhat = self.W @ x
        E = 0.0
        conv, convtol, Es, iterates = [], [], [], []
        borderline = []
        stopped_at = None
        for k in range(max_iterations):
            with np.errstate(all="ignore"):
                x, yhat, delta = self.step(x, yhat, E / self.s)
                E = self.g * E + safety * float(np.linalg.norm(self.s * delta))
                yy = float(np.dot(yhat, yhat))
                c = (self.bb - yy) / self.bb if self.bb != 0 else float("nan")
                ynorm = np.sqrt(yy)
                dy = self.wnorm_s * E + safety * EPS * (self.n + 4) * float(np.linalg.norm(self.absW @ np.abs(x)))
                ct = ((2 * ynorm * dy + dy * dy) + 8 * EPS * (self.m + self.n) * (abs(self.bb) + yy)) / self.bb \
                    if self.bb != 0 else float("nan")
            conv.append(c)
            convtol.append(ct)
            Es.append(E)
            iterates.append(x)
            if k > 0 and not zero_b:
                d = abs(conv[k] - conv[k - 1])
                u = convtol[k] + convtol[k - 1]
                if conv_tol <= 0:
                    stop = False      # |delta| < conv_tol can never be true
                elif not (np.isfinite(d) and np.isfinite(u)):
                    # overflowed iteration: the decision is not judged, the real decision is followed
                    borderline.append(k)
                    stop = (real_len == k + 1)
                elif d < conv_tol - u:
                    stop = True
                elif d >= conv_tol + u:
                    stop = False
                else:
                    borderline.append(k)
                    stop = (real_len == k + 1)
                if stop:
                    stopped_at = k
                    break
        return dict(x=x, conv=conv, convtol=convtol, E=Es, iterates=iterates, borderline=borderline,
                    stopped_at=stopped_at)


# ------------------------------------------------------------------------------------------------
# optimality certificates
# ------------------------------------------------------------------------------------------------

def stacked(W, b, alpha, T):
    m, n = W.shape
    T = np.identity(n) if T is None else np.asarray(T, dtype=float)
    C = np.vstack([np.asarray(W, dtype=float), float(alpha) * T])
    d = np.concatenate([np.asarray(b, dtype=float), np.zeros(n)])
    return C, d


def certificate(C, d, x):
    """Gradient g = C^T (C x - d), residual norm, and the scale tau0 = ||C||_2^2 ||x||_2 + ||C||_2 ||d||_2
    (a backward-stable solver leaves |g| <~ eps * tau0); all in extended precision."""
    Cl, dl, xl = C.astype(LD), d.astype(LD), np.asarray(x, dtype=float).astype(LD)
    r = Cl @ xl - dl
    g = Cl.T @ r
    rn = float(np.sqrt(np.sum(r * r)))
    # spectral norm computed on the matrix scaled to unit size: LAPACK's SVD of a matrix whose entries are ~1e-300
    # (alpha = 1e-300 with a zero geometry matrix) underflows internally and returns NaN
    sC = float(np.max(np.abs(C))) if C.size else 0.0
    if sC == 0.0 or not np.isfinite(sC):
        nC = 0.0 if sC == 0.0 else float("inf")
    else:
        try:
            nC = sC * float(np.linalg.norm(C / sC, 2))
        except np.linalg.LinAlgError:
            nC = sC * float(np.linalg.norm(C / sC))
        if not np.isfinite(nC):
            nC = sC * float(np.linalg.norm(C / sC))
    def _norm(v):
        # scaled 2-norm: components of 1e281 must not overflow when squared
        v = np.asarray(v, dtype=float).ravel()
        sv = float(np.max(np.abs(v))) if v.size else 0.0
        return sv * float(np.linalg.norm(v / sv)) if (sv > 0 and np.isfinite(sv)) else sv
    nx = _norm(x)
    nd = _norm(d)
    return np.asarray(g, dtype=float), rn, nC, nx, nd


# ------------------------------------------------------------------------------------------------
# input representations (dtype / layout / container) of one and the same float64 values
# ------------------------------------------------------------------------------------------------

INT_REPS = {"int64": np.int64, "int32": np.int32, "uint8": np.uint8}
EPS32 = float(np.finfo(np.float32).eps)


def rep_values(arr, rep, q=20):
    """float64 values that are exactly representable in representation `rep` (the oracle works on these).

    integer reps: integer-valued arrays are kept (if they fit), others are quantised to q levels of their maximum
    (hit counts / 0-1 incidence matrices); bool: the support; float32: rounded to single precision."""
    arr = np.asarray(arr, dtype=float)
    if rep in INT_REPS:
        amax = float(np.max(np.abs(arr))) if arr.size else 0.0
        lim = 255.0 if rep == "uint8" else 2.0e9
        if amax == 0.0:
            return arr.copy()
        if rep == "uint8" and (arr < 0).any():
            arr = np.abs(arr)
        if np.array_equal(arr, np.rint(arr)) and amax <= lim:
            return arr.copy()
        return np.rint(arr / amax * min(float(q), lim))
    if rep == "bool":
        return (arr != 0).astype(float)
    if rep == "float32":
        with np.errstate(all="ignore"):
            return arr.astype(np.float32).astype(np.float64)
    return arr


def represent(vals, rep):
    """The object handed to the real function: same values, different dtype / memory layout / container."""
    vals = np.asarray(vals, dtype=float)
    if rep in (None, "f64"):
        return vals.copy(order="K")      # always a distinct object: in-place modification by the solver stays visible
    if rep in INT_REPS:
        return vals.astype(INT_REPS[rep])
    if rep == "bool":
        return vals.astype(bool)
    if rep == "float32":
        return vals.astype(np.float32)
    if rep == "list":
        return vals.tolist()
    if rep == "F":
        return np.asfortranarray(vals)
    if rep == "T":          # transposed C buffer (Fortran strides without the F flag games)
        return np.ascontiguousarray(vals.T).T
    if rep == "view":       # non-contiguous view: every second element of a larger buffer filled with garbage
        big = np.full(tuple(2 * s for s in vals.shape), -7.25e3)
        sl = tuple(slice(None, None, 2) for _ in vals.shape)
        big[sl] = vals
        return big[sl]
    raise ValueError("unknown representation %r" % rep)


def rep_family(rep):
    return {"int64": "int", "int32": "int", "uint8": "int", "bool": "bool", "float32": "float32", "list": "list",
            "F": "strided", "T": "strided", "view": "strided", "npfloat32": "float32", "npint64": "int",
            "pyint": "int"}.get(rep, rep)


# ------------------------------------------------------------------------------------------------
# reference minimum of |C x - d|^2 (rank-deficient systems: the minimiser is a subspace, so the OBJECTIVE is compared)
# ------------------------------------------------------------------------------------------------

def objective(C, d, x):
    """|C x - d|^2 of the float64 vector x, evaluated in extended precision."""
    r = C.astype(LD) @ np.asarray(x, dtype=float).astype(LD) - d.astype(LD)
    return float(np.sum(r * r))


def ls_reference(C, d, eps=EPS):
    """Independent reference for min |C x - d|^2 from the SVD of C (numpy gesdd, own truncation).

    Returns dict(f_ref, nx_lo, nC, nd):
      f_ref : objective of the truncated-SVD solution that drops every singular value below 20x the LAPACK cut-off
              max(M,N) * eps * s_max.  Any solver that keeps at least these directions reaches f <= f_ref (+ noise).
      nx_lo : norm of the solution that keeps everything above 0.05x that cut-off: the largest solution norm a
              legitimate truncation produces; it sets the evaluation noise of f for a float64 x."""
    C = np.asarray(C, dtype=float)
    d = np.asarray(d, dtype=float)
    M, N = C.shape
    nd = float(np.linalg.norm(d))
    if C.size == 0 or not C.any():
        return dict(f_ref=nd * nd, nx_lo=0.0, nC=0.0, nd=nd)
    U, s, Vt = np.linalg.svd(C, full_matrices=False)
    smax = float(s[0])
    cut = max(M, N) * eps * smax
    c = U.T @ d
    with np.errstate(all="ignore"):
        coef = np.where(s > 0, c / np.where(s > 0, s, 1.0), 0.0)
    x_hi = Vt.T @ np.where(s > 20 * cut, coef, 0.0)
    x_lo = Vt.T @ np.where(s > 0.05 * cut, coef, 0.0)
    return dict(f_ref=objective(C, d, x_hi), nx_lo=float(np.linalg.norm(x_lo)), nC=smax, nd=nd, x_hi=x_hi)


def objective_tolerance(ref, f_ref, nx, eps=EPS, rtol=1e-8):
    """How far above f_ref the objective of a backward-stable solver's result may be evaluated.

    A solver that returns the exact minimiser of a perturbed problem (C + dC, d + dd), |dC| <= e |C|, |dd| <= e |d|,
    has |Cx - d| <= |r*| + e (|C| (|x| + |x*|) + 2 |d|)  (first order, rigorous); e = 1e-2 * rtol (1e-10 in double
    precision, 1e-5 when a matrix is single precision).  Added: the noise of evaluating f at a float64 vector.  |x| enters
    only up to 1e3 x the norm of the reference solution: a blown-up x must not buy itself tolerance."""
    nxe = max(ref["nx_lo"], min(nx, 1e3 * ref["nx_lo"]))
    rho = (1e-2 * rtol) * (ref["nC"] * (nxe + ref["nx_lo"]) + 2.0 * ref["nd"]) + 1e3 * eps * ref["nC"] * nxe
    return 2.0 * np.sqrt(max(f_ref, 0.0)) * rho + rho * rho
