"""Independent chord-length oracle for C10 (ray-transfer box / cylinder).  Imports numpy only, never cherab/raysect.

For a ray p(t) = o + t d (|d| = 1, t >= 0, local grid coordinates) the functions below return, for every grid
cell c, an interval [lo_c, hi_c] that must contain the length of the ray inside cell c *for every line within
`delta` of the nominal one and every placement of the boundaries within `delta`*:

    lo_c  = length inside the cell shrunk by delta, inside the bounding primitive shrunk by delta
    hi_c  = length inside the cell grown by delta, inside the bounding primitive grown by delta

(Raysect launches the in-volume daughter ray from a point displaced 1e-9 along the surface normal, so the line that
is actually integrated is a parallel line up to a few 1e-9 away; for generic rays hi-lo ~ delta/sin(angle), for a ray
running exactly along a cell face the whole chord is between lo and hi, which is the only statement the property
can make there.)  The bounding primitive is the one raytransfer.py builds: the grid shrunk by 1e-5 cell at the upper
ends (box) / both radial ends and the top (cylinder).

Method: all parameter values t at which the line crosses a cell boundary surface displaced by -delta, 0, +delta
(planes; coaxial cylinders; vertical planes through the axis) are collected and sorted; on every elementary piece
between consecutive values the cell, its possible neighbours (if within delta of a face) and the inside/outside
status are constant and are read off at the piece's midpoint.
"""
import numpy as np

SHIFT = np.array([-1.0, 0.0, 1.0])


# ------------------------------------------------------------------------------------------------------------
# grids
# ------------------------------------------------------------------------------------------------------------

class BoxGrid:
    kind = "box"

    def __init__(self, nx, ny, nz, xmax, ymax, zmax):
        self.n = np.array([nx, ny, nz], dtype=int)
        self.size = np.array([xmax, ymax, zmax], dtype=float)
        self.d = self.size / self.n
        self.eps = 1.0e-5 * self.d
        self.upper = self.size - self.eps            # bounding Box: [0, upper]
        self.shape = (int(nx), int(ny), int(nz))
        self.ncell = int(nx * ny * nz)
        self.min_cell = float(self.d.min())
        self.centre = 0.5 * self.size
        self.radius = 0.5 * float(np.linalg.norm(self.size))

    # -- breakpoints --------------------------------------------------------------------------------------
    def breakpoints(self, o, d, delta):
        ts = []
        for a in range(3):
            if d[a] == 0.0:
                continue
            planes = np.concatenate([np.arange(self.n[a] + 1) * self.d[a], [self.upper[a]]])
            planes = (planes[:, None] + delta * SHIFT[None, :]).ravel()
            ts.append((planes - o[a]) / d[a])
        return ts

    # -- classification of points -------------------------------------------------------------------------
    def classify(self, P, delta):
        """P (m,3) -> main (m,3) int, alt (m,3) int (-1 none), status (m,) 2 surely inside / 1 ambiguous / 0 outside,
        phi_all (m,) bool (always False here)."""
        q = P / self.d
        main = np.floor(q).astype(int)
        low = P - main * self.d
        up = (main + 1) * self.d - P
        alt = np.full(main.shape, -1, dtype=int)
        alt = np.where(low < delta, main - 1, alt)
        alt = np.where(up < delta, main + 1, alt)
        inside = np.all((P >= delta) & (P <= self.upper - delta), axis=1)
        maybe = np.all((P >= -delta) & (P <= self.upper + delta), axis=1)
        status = np.where(inside, 2, np.where(maybe, 1, 0))
        nmax = self.n[None, :] - 1
        mainc = np.clip(main, 0, nmax)
        alt = np.where((alt < 0) | (alt > nmax) | (alt == mainc), -1, alt)
        return mainc, alt, status, np.zeros(len(P), dtype=bool)

    def flat(self, idx):
        return (idx[:, 0] * self.shape[1] + idx[:, 1]) * self.shape[2] + idx[:, 2]

    # -- independent fine sampler (own floor-based index formulas) -----------------------------------------
    def sample_cells(self, P):
        inside = np.all((P >= 0.0) & (P <= self.upper), axis=1)
        idx = np.clip(np.floor(P / self.d).astype(int), 0, self.n[None, :] - 1)
        return self.flat(idx), inside


class CylGrid:
    kind = "cyl"

    def __init__(self, nr, nphi, nz, ro, ri, h, period):
        self.nr, self.nphi, self.nz = int(nr), int(nphi), int(nz)
        self.ro, self.ri, self.h, self.period = float(ro), float(ri), float(h), float(period)
        self.dr = (self.ro - self.ri) / self.nr
        self.dz = self.h / self.nz
        self.dphi = self.period / self.nphi
        self.eps_r = 1.0e-5 * self.dr
        self.eps_z = 1.0e-5 * self.dz
        self.r_out = self.ro - self.eps_r            # Subtract(Cylinder(r_out, z_top), Cylinder(r_in, z_top))
        self.r_in = self.ri + self.eps_r
        self.z_top = self.h - self.eps_z
        self.shape = (self.nr, self.nphi, self.nz)
        self.ncell = self.nr * self.nphi * self.nz
        self.min_cell = min(self.dr, self.dz)
        self.centre = np.array([0.0, 0.0, 0.5 * self.h])
        self.radius = float(np.hypot(self.ro, 0.5 * self.h))
        self.nwedge = int(round(360.0 / self.dphi)) if self.nphi > 1 else 1

    def breakpoints(self, o, d, delta):
        ts = []
        a = d[0] * d[0] + d[1] * d[1]
        b = o[0] * d[0] + o[1] * d[1]
        c0 = o[0] * o[0] + o[1] * o[1]
        if a > 1e-24:
            radii = np.concatenate([self.ri + np.arange(self.nr + 1) * self.dr, [self.r_out, self.r_in]])
            radii = (radii[:, None] + delta * SHIFT[None, :]).ravel()
            radii = radii[radii > 0.0]
            # closest approach to the axis first, then roots relative to it: b^2 - a(c - R^2) would cancel
            # catastrophically for a far origin and a small radius (that is raysect's own weak spot, see TANGENT band)
            tca = -b / a
            pc = o + tca * d
            tca -= (pc[0] * d[0] + pc[1] * d[1]) / a
            pc = o + tca * d
            rc2 = pc[0] * pc[0] + pc[1] * pc[1]
            disc = (radii * radii - rc2) / a
            sq = np.sqrt(disc[disc >= 0.0])
            ts += [tca - sq, tca + sq, np.array([tca])]
        if d[2] != 0.0:
            planes = np.concatenate([np.arange(self.nz + 1) * self.dz, [self.z_top]])
            planes = (planes[:, None] + delta * SHIFT[None, :]).ravel()
            ts.append((planes - o[2]) / d[2])
        if self.nphi > 1:
            al = np.radians(np.arange(self.nwedge) * self.dphi)
            nx, ny = -np.sin(al), np.cos(al)
            s0 = nx * o[0] + ny * o[1]
            sd = nx * d[0] + ny * d[1]
            ok = np.abs(sd) > 1e-300
            for s in SHIFT:
                ts.append((s * delta - s0[ok]) / sd[ok])
        return ts

    def t_closest(self, o, d):
        a = d[0] * d[0] + d[1] * d[1]
        if a < 1e-24:
            return None
        tca = -(o[0] * d[0] + o[1] * d[1]) / a
        pc = np.asarray(o) + tca * np.asarray(d)
        return float(tca - (pc[0] * d[0] + pc[1] * d[1]) / a)

    def tangent_to_inner(self, o, d, delta):
        """True when the line is tangent to the inner bounding cylinder within the band in which raysect's
        Cylinder.hit cannot tell the entering from the leaving intersection (discriminant b^2-4ac rounds to ~0:
        |r_in^2 - r_ca^2| <~ 3e-16 |o_xy|^2 measured; 10x safety + the 1e-9 lateral offsets of daughter rays)."""
        a = d[0] * d[0] + d[1] * d[1]
        if a < 1e-24:
            return False
        b = o[0] * d[0] + o[1] * d[1]
        oxy2 = o[0] * o[0] + o[1] * o[1]
        tca = -b / a
        zca = o[2] + tca * d[2]
        if zca < -1e-6 - delta or zca > self.z_top + 1e-6 + delta:
            return False
        pc = np.asarray(o) + tca * np.asarray(d)
        t2 = tca - (pc[0] * d[0] + pc[1] * d[1]) / a
        pc = np.asarray(o) + t2 * np.asarray(d)
        q = self.r_in ** 2 - (pc[0] * pc[0] + pc[1] * pc[1])
        band = 3e-15 * (oxy2 + self.ro ** 2 + 1.0) + 1e-8 * self.r_in + 1e-16
        return bool(abs(q) <= band)

    def classify(self, P, delta):
        x, y, z = P[:, 0], P[:, 1], P[:, 2]
        r = np.hypot(x, y)
        m = len(P)
        main = np.zeros((m, 3), dtype=int)
        alt = np.full((m, 3), -1, dtype=int)
        # R
        ir = np.floor((r - self.ri) / self.dr).astype(int)
        low = r - (self.ri + ir * self.dr)
        up = (self.ri + (ir + 1) * self.dr) - r
        ar = np.where(low < delta, ir - 1, -1)
        ar = np.where(up < delta, ir + 1, ar)
        # Z
        iz = np.floor(z / self.dz).astype(int)
        lowz = z - iz * self.dz
        upz = (iz + 1) * self.dz - z
        az = np.where(lowz < delta, iz - 1, -1)
        az = np.where(upz < delta, iz + 1, az)
        # PHI
        phi_all = np.zeros(m, dtype=bool)
        if self.nphi > 1:
            ph = np.degrees(np.arctan2(y, x)) % 360.0
            j = np.floor(ph / self.dphi).astype(int)
            j = np.minimum(j, self.nwedge - 1)
            a_lo = np.clip(ph - j * self.dphi, 0.0, 90.0)
            a_hi = np.clip((j + 1) * self.dphi - ph, 0.0, 90.0)
            d_lo = r * np.sin(np.radians(a_lo))
            d_hi = r * np.sin(np.radians(a_hi))
            aj = np.where(d_lo < delta, j - 1, -999)
            aj = np.where(d_hi < delta, j + 1, aj)
            phi_all = r * np.sin(np.radians(min(0.5 * self.dphi, 90.0))) < delta
            ip = j % self.nphi
            ap = np.where(aj == -999, -1, (aj + self.nwedge) % self.nphi)
            ap = np.where(ap == ip, -1, ap)
        else:
            ip = np.zeros(m, dtype=int)
            ap = np.full(m, -1, dtype=int)
        inside = (r <= self.r_out - delta) & (r >= self.r_in + delta) & (z >= delta) & (z <= self.z_top - delta)
        # radius_inner = 0: the 1e-5 dr hole raytransfer.py leaves on the axis is not needed to keep indices in range;
        # a ray may or may not be integrated through it (both accepted)
        r_low = self.r_in - delta if self.ri > 0.0 else -1.0
        maybe = (r <= self.r_out + delta) & (r >= r_low) & (z >= -delta) & (z <= self.z_top + delta)
        status = np.where(inside, 2, np.where(maybe, 1, 0))
        irc = np.clip(ir, 0, self.nr - 1)
        izc = np.clip(iz, 0, self.nz - 1)
        ar = np.where((ar < 0) | (ar > self.nr - 1) | (ar == irc), -1, ar)
        az = np.where((az < 0) | (az > self.nz - 1) | (az == izc), -1, az)
        main[:, 0], main[:, 1], main[:, 2] = irc, ip, izc
        alt[:, 0], alt[:, 1], alt[:, 2] = ar, ap, az
        return main, alt, status, phi_all

    def flat(self, idx):
        return (idx[:, 0] * self.nphi + idx[:, 1]) * self.nz + idx[:, 2]

    def sample_cells(self, P):
        x, y, z = P[:, 0], P[:, 1], P[:, 2]
        r = np.hypot(x, y)
        inside = (r <= self.r_out) & (r >= self.r_in) & (z >= 0.0) & (z <= self.z_top)
        ir = np.clip(np.floor((r - self.ri) / self.dr).astype(int), 0, self.nr - 1)
        iz = np.clip(np.floor(z / self.dz).astype(int), 0, self.nz - 1)
        if self.nphi > 1:
            ph = np.degrees(np.arctan2(y, x)) % 360.0
            j = np.minimum(np.floor(ph / self.dphi).astype(int), self.nwedge - 1)
            ip = j % self.nphi
        else:
            ip = np.zeros(len(P), dtype=int)
        return (ir * self.nphi + ip) * self.nz + iz, inside


def make_grid(g):
    if g["kind"] == "box":
        return BoxGrid(g["nx"], g["ny"], g["nz"], g["xmax"], g["ymax"], g["zmax"])
    return CylGrid(g["nr"], g["nphi"], g["nz"], g["ro"], g["ri"], g["h"], 360.0 / g["k"])


# ------------------------------------------------------------------------------------------------------------
# analysis of one ray
# ------------------------------------------------------------------------------------------------------------

def dt_of(L, step, ms):
    """Integration step the integrators use on an in-primitive segment of length L (0 if the segment is skipped)."""
    if L < 0.1 * step:
        return 0.0
    return L / max(ms, int(L / step))


def dt_sup(Lmin, Lmax, step, ms):
    """Supremum of dt_of(L) over Lmin <= L <= Lmax."""
    if Lmax < 0.1 * step:
        return 0.0
    n_lo = max(ms, int(max(Lmin, 0.0) / step))
    n_hi = max(ms, int(Lmax / step))
    if n_lo == n_hi:
        return Lmax / n_hi
    return step * (n_lo + 1.0) / n_lo          # just below the length at which one more sample is taken


class RayAnalysis:
    pass


def analyse(grid, o, d, step, ms, delta):
    """Exact per-cell chord intervals for the ray (o, d) on `grid`; see module docstring."""
    o = np.asarray(o, dtype=float)
    d = np.asarray(d, dtype=float)
    d = d / np.linalg.norm(d)
    ts = grid.breakpoints(o, d, delta)
    A = RayAnalysis()
    ncell = grid.ncell
    A.lo = np.zeros(ncell)
    A.lo_geom = np.zeros(ncell)
    A.hi = np.zeros(ncell)
    A.runs = np.zeros(ncell, dtype=int)
    A.dt = 0.0
    A.segments = []
    A.dropped_short = 0
    A.origin_ambiguous = False
    A.tmax = 0.0
    A.tangent_inner = False
    if grid.kind == "cyl":
        A.tangent_inner = grid.tangent_to_inner(o, d, delta)
    A.total_lo = 0.0
    A.total_hi = 0.0
    A._seq = None
    tcap = 1.0e4 * (float(np.abs(o).max()) + grid.radius + 1.0)      # crossings further away are outside everything
    if ts:
        t = np.concatenate(ts)
        t = t[np.isfinite(t) & (t > 0.0) & (t < tcap)]
    else:
        t = np.zeros(0)
    t = np.unique(np.concatenate(([0.0], t)))
    if t.size < 2:
        return A
    ln = np.diff(t)
    mid = 0.5 * (t[:-1] + t[1:])
    P = o[None, :] + mid[:, None] * d[None, :]
    main, alt, status, phi_all = grid.classify(P, delta)
    keep = status > 0
    if not keep.any():
        return A
    A.tmax = float(t[1:][keep].max())
    flat_main = grid.flat(main)
    unamb = (status == 2) & np.all(alt == -1, axis=1) & ~phi_all
    # ---- segments: maximal runs of pieces with status > 0 -----------------------------------------------------
    prev = np.concatenate(([False], keep[:-1]))
    seg_start = keep & ~prev
    seg_id = np.cumsum(seg_start) - 1
    nseg = int(seg_start.sum())
    drop_piece = np.zeros(len(ln), dtype=bool)          # pieces whose contribution may legitimately be missing
    dts = []
    short_len = 0.1 * step * (1 + 1e-6) + 1e-12
    for s in range(nseg):
        idx = np.flatnonzero(keep & (seg_id == s))
        L_all = float(ln[idx].sum())
        surely = status[idx] == 2
        L_in = float(ln[idx][surely].sum())
        first_amb = bool(idx[0] == 0 and status[0] == 1)     # origin within delta of the primitive surface
        if first_amb:
            A.origin_ambiguous = True
            drop_piece[idx] = True
        # maximal surely-inside sub-runs with the ambiguous lengths adjacent to them: raysect may end the segment
        # anywhere inside an ambiguous piece, so the real segment(s) are [sub, sub + adjacent] long or the whole run
        subs = []                       # (pieces, length, ambiguous length before, after)
        cur, cur_len, amb_before, amb_run = [], 0.0, 0.0, 0.0
        for k, su in zip(idx, surely):
            if su:
                if not cur:
                    amb_before = amb_run
                cur.append(k)
                cur_len += ln[k]
                amb_run = 0.0
            else:
                if cur:
                    subs.append([cur, cur_len, amb_before, 0.0])
                    cur, cur_len = [], 0.0
                    amb_run = 0.0
                amb_run += ln[k]
                if subs and subs[-1][3] == 0.0 and not cur:
                    subs[-1][3] = amb_run
        if cur:
            subs.append([cur, cur_len, amb_before, 0.0])
        any_short = False
        cand = [dt_sup(L_in, L_all, step, ms)]
        for pieces, length, a0, a1 in subs:
            if length < short_len:
                drop_piece[pieces] = True               # a segment shorter than 0.1 step is skipped by the integrators
                any_short = True
            cand.append(dt_sup(length, length + a0 + a1, step, ms))
        if any_short and L_all >= 0.1 * step:
            A.dropped_short += 1
        dts.append(max(cand))
        A.segments.append(dict(t0=float(t[idx[0]]), t1=float(t[idx[-1] + 1]), L_lo=L_in, L_hi=L_all,
                               sub_runs=[float(x[1]) for x in subs], origin_ambiguous=first_amb))
    A.dt = max(dts) * (1 + 1e-6) if dts else 0.0
    # ---- lo --------------------------------------------------------------------------------------------------
    np.add.at(A.lo_geom, flat_main[unamb], ln[unamb])
    sel = unamb & ~drop_piece
    np.add.at(A.lo, flat_main[sel], ln[sel])
    # ---- hi: every candidate cell of every possibly-inside piece ----------------------------------------------
    normal = keep & ~phi_all
    m = len(ln)
    cand = np.full((m, 8), -1, dtype=np.int64)          # candidate cells of each piece (-1 = unused slot)
    for mask in range(8):
        use = normal.copy()
        idx3 = main.copy()
        for a in range(3):
            if mask >> a & 1:
                use &= alt[:, a] >= 0
                idx3[:, a] = np.where(alt[:, a] >= 0, alt[:, a], idx3[:, a])
        if use.any():
            fl = grid.flat(idx3[use])
            np.add.at(A.hi, fl, ln[use])
            cand[use, mask] = fl
    extra_visit = 0
    if (keep & phi_all).any():
        extra_visit = 1
        for k in np.flatnonzero(keep & phi_all):
            rs = {int(main[k, 0])} | ({int(alt[k, 0])} if alt[k, 0] >= 0 else set())
            zs = {int(main[k, 2])} | ({int(alt[k, 2])} if alt[k, 2] >= 0 else set())
            for ir in rs:
                for iz in zs:
                    for ip in range(grid.shape[1]):
                        A.hi[(ir * grid.shape[1] + ip) * grid.shape[2] + iz] += ln[k]
    # ---- number of separate visits per cell: maximal runs of consecutive pieces that have the cell among their
    #      candidates (a piece on the axis, where every phi cell is a candidate, counts as one more visit for all)
    prevc = np.vstack([np.full((1, 8), -1, dtype=np.int64), cand[:-1]])
    cont = (cand[:, :, None] == prevc[:, None, :]).any(axis=2)           # candidate already present in previous piece
    starts = (cand >= 0) & ~cont
    A.runs = np.bincount(cand[starts], minlength=ncell) + extra_visit
    # a line can touch a cell boundary from inside the cell without leaving it only at the concave (inner) ring
    # surface, i.e. at its closest approach to the axis: samples there may fall into the grazed inner ring and split
    # the visit in two -> one more visit for the cells that are candidates in the radially ambiguous pieces around t_ca
    if grid.kind == "cyl":
        tca = grid.t_closest(o, d)
        if tca is not None and t[0] < tca < t[-1]:
            i0 = int(np.searchsorted(t, tca) - 1)
            i0 = min(max(i0, 0), m - 1)
            if keep[i0] and alt[i0, 0] >= 0:
                lo_i = i0
                while lo_i > 0 and keep[lo_i - 1] and alt[lo_i - 1, 0] >= 0:
                    lo_i -= 1
                hi_i = i0
                while hi_i < m - 1 and keep[hi_i + 1] and alt[hi_i + 1, 0] >= 0:
                    hi_i += 1
                cells = np.unique(cand[lo_i:hi_i + 1])
                cells = cells[cells >= 0]
                A.runs[cells] += 1
    A._cand = cand
    A._extra_visit = extra_visit
    A.total_lo = float(A.lo.sum())
    A.total_hi = float(ln[keep].sum())
    A._seq = (flat_main, keep, seg_id, unamb, ln)
    return A


def active_bounds(A, active_flat):
    """Bounds on the length of the ray inside the union of the active cells, and the largest number of separate
    sample runs the union can receive: maximal runs of consecutive pieces with at least one active candidate cell,
    plus one for every group of pieces with mixed (active and inactive) candidates strictly inside such a run
    (samples falling into the inactive candidate split the run)."""
    if A._seq is None:
        return 0.0, 0.0, 0
    flat_main, keep, seg_id, unamb, ln = A._seq
    lo = float(A.lo[active_flat].sum())
    hi = float(min(A.hi[active_flat].sum(), A.total_hi))
    cand = A._cand
    valid = cand >= 0
    actc = np.where(valid, active_flat[np.clip(cand, 0, None)], False)
    any_act = actc.any(axis=1)
    all_act = (actc | ~valid).all(axis=1) & valid.any(axis=1)
    code = np.where(any_act, np.where(all_act, 1, 2), 0)          # 1 = surely active, 2 = mixed, 0 = break
    runs = 0
    extra = 0
    prev_seg = -1
    in_run = False
    seen_pure = False
    pending_mixed = False
    for c, sg in zip(code.tolist(), seg_id.tolist()):
        if c == 0 or sg != prev_seg:
            in_run = False
        if c != 0:
            if not in_run:
                in_run = True
                runs += 1
                seen_pure = False
                pending_mixed = False
            if c == 1:
                if pending_mixed and seen_pure:
                    extra += 1
                pending_mixed = False
                seen_pure = True
            else:
                pending_mixed = True
        prev_seg = sg
    return lo, hi, runs + extra + A._extra_visit


def fine_sample(grid, o, d, tmax, N):
    """Independent cross-check: midpoint sampling of the whole ray [0, tmax] with N points and floor-based indices."""
    o = np.asarray(o, dtype=float)
    d = np.asarray(d, dtype=float)
    d = d / np.linalg.norm(d)
    h = tmax / N
    tt = (np.arange(N) + 0.5) * h
    P = o[None, :] + tt[:, None] * d[None, :]
    flat, inside = grid.sample_cells(P)
    out = np.bincount(flat[inside], minlength=grid.ncell) * h
    return out, h
