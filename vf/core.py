"""Framework core: build, worker processes, offline aggregation, evidence, known findings.

Entry points (see ../check and ../setup.sh):
    python -m vf.core setup
    python -m vf.core check <ID> [--tier quick|thorough] [--replay PATH] [--cases N] [--workers N]
    python -m vf.core worker <ID> ...          (internal)

Verdicts: exit 0 = held on everything explored, exit 1 = VIOLATION (not in known_findings.json),
exit 2 = INCONCLUSIVE (deciding monitor not reached, build failure, worker watchdog, harness error).
"""
import argparse
import collections
import fcntl
import hashlib
import importlib
import json
import math
import os
import shutil
import signal
import subprocess
import sys
import tempfile
import time
import traceback

ROOT = os.path.dirname(os.path.dirname(os.path.abspath(__file__)))
REPO = os.environ.get("VERIF_REPO", "/repo")
DEPS = os.path.join(ROOT, ".deps")
CACHE = os.path.join(ROOT, ".cache")
PY = "/venv/bin/python"
WHEELS = "/opt/veriftools/wheels"
GUARD = "CHERAB_CORE_VERIF"
EVIDENCE_SCHEMA = "/root/.vp/EVIDENCE.schema.json"
MAX_VIOL_PER_KEY = 5


class Inconclusive(Exception):
    pass


# ----------------------------------------------------------------------------------------------
# dependencies and build
# ----------------------------------------------------------------------------------------------

def _lock(name):
    os.makedirs(CACHE, exist_ok=True)
    f = open(os.path.join(CACHE, name), "w")
    fcntl.flock(f, fcntl.LOCK_EX)
    return f


def ensure_deps():
    """Install icontract / deal / jsonschema / mpmath from the offline wheelhouse into .deps (git-ignored)."""
    marker = os.path.join(DEPS, ".ok")
    if os.path.exists(marker):
        return
    lk = _lock("deps.lock")
    try:
        if os.path.exists(marker):
            return
        cmd = [PY, "-m", "pip", "install", "--quiet", "--no-index", "--find-links", WHEELS,
               "--target", DEPS, "icontract", "deal", "jsonschema", "mpmath"]
        r = subprocess.run(cmd, capture_output=True, text=True)
        if r.returncode != 0:
            raise Inconclusive("dependency install failed: " + r.stderr[-2000:])
        open(marker, "w").write("ok")
    finally:
        lk.close()


def add_deps_path():
    if DEPS not in sys.path:
        sys.path.append(DEPS)  # appended: never shadows /venv packages


def ensure_built():
    """Rebuild the extension modules of REPO's current working tree in place (2.5 s when up to date)."""
    lk = _lock("build.lock" if REPO == "/repo" else "build_%s.lock" % hashlib.sha1(REPO.encode()).hexdigest()[:8])
    try:
        t0 = time.time()
        env = dict(os.environ)
        env.pop(GUARD, None)
        r = subprocess.run([PY, "setup.py", "build_ext", "-j16", "--inplace"], cwd=REPO,
                           capture_output=True, text=True, env=env)
        with open(os.path.join(CACHE, "build.log"), "w") as f:
            f.write(r.stdout[-20000:] + "\n" + r.stderr[-20000:])
        if r.returncode != 0:
            raise Inconclusive("build of %s failed (see .cache/build.log): %s" % (REPO, r.stderr[-1500:]))
        return time.time() - t0
    finally:
        lk.close()


# ----------------------------------------------------------------------------------------------
# JSON helpers
# ----------------------------------------------------------------------------------------------

def _default(o):
    try:
        import numpy as np
        if isinstance(o, np.ndarray):
            return o.tolist()
        if isinstance(o, (np.floating,)):
            return float(o)
        if isinstance(o, (np.integer,)):
            return int(o)
        if isinstance(o, (np.bool_,)):
            return bool(o)
    except ImportError:
        pass
    if isinstance(o, (set, frozenset)):
        return sorted(o)
    if isinstance(o, complex):
        return [o.real, o.imag]
    return repr(o)


def jdump(o, **kw):
    return json.dumps(o, default=_default, **kw)


def case_hash(case):
    return hashlib.sha1(jdump(case, sort_keys=True).encode()).hexdigest()[:16]


def jsonable(o):
    return json.loads(jdump(o))


# ----------------------------------------------------------------------------------------------
# per-worker context handed to property modules
# ----------------------------------------------------------------------------------------------

class Ctx:
    def __init__(self, pid, tier, seed):
        self.pid = pid
        self.tier = tier
        self.seed = seed
        self.monitors = collections.Counter()
        self.classes = collections.Counter()
        self.margins = {}
        self.violations = []
        self.viol_counts = collections.Counter()
        self.skips = collections.Counter()
        self.case = None
        self._nontrivial = False
        self.notes = {}

    # -- bookkeeping -----------------------------------------------------------------------
    def mon(self, name, n=1):
        self.monitors[name] += n

    def cls(self, name):
        self.classes[name] += 1

    def nontrivial(self, flag=True):
        self._nontrivial = self._nontrivial or bool(flag)

    def skip(self, reason):
        self.skips[reason] += 1

    def margin(self, name, ratio):
        if ratio == ratio and ratio > self.margins.get(name, 0.0):
            self.margins[name] = float(ratio)

    # -- verdicts ---------------------------------------------------------------------------
    def viol(self, key, what, **detail):
        self.viol_counts[key] += 1
        if self.viol_counts[key] <= MAX_VIOL_PER_KEY:
            self.violations.append({"key": key, "what": what, "detail": jsonable(detail),
                                    "case": jsonable(self.case)})

    def check(self, ok, key, what, monitor=None, **detail):
        self.mon(monitor or key.split(":")[0])
        if not ok:
            self.viol(key, what, **detail)
        return bool(ok)

    def close(self, got, want, key, what, rtol=0.0, atol=0.0, monitor=None, **detail):
        """Numeric comparison |got-want| <= atol + rtol*|want| (arrays allowed); tracks the margin."""
        import numpy as np
        name = monitor or key.split(":")[0]
        g = np.asarray(got, dtype=float)
        w = np.asarray(want, dtype=float)
        self.mon(name, int(max(g.size, 1)))
        if g.shape != w.shape:
            try:
                g, w = np.broadcast_arrays(g, w)
            except ValueError:
                self.viol(key, what + " (shape %s vs %s)" % (g.shape, w.shape), **detail)
                return False
        tol = atol + rtol * np.abs(w)
        err = np.abs(g - w)
        bad_nan = ~np.isfinite(g) & np.isfinite(w)
        same_inf = np.isinf(g) & np.isinf(w) & (np.sign(g) == np.sign(w))
        with np.errstate(divide="ignore", invalid="ignore"):
            ratio = np.where(err == 0, 0.0, err / np.where(tol > 0, tol, np.nan))
            ratio = np.where(same_inf, 0.0, ratio)
            ratio = np.where((tol <= 0) & (err > 0), np.inf, ratio)
        bad = bad_nan | (np.nan_to_num(ratio, nan=np.inf) > 1.0)
        bad = bad & ~same_inf
        finite = ratio[np.isfinite(ratio)]
        if finite.size:
            self.margin(name, float(finite.max()))
        if bad.any():
            idx = int(np.argmax(bad.ravel()))
            self.viol(key, what, index=idx, got=float(g.ravel()[idx]), want=float(w.ravel()[idx]),
                      tol=float(np.ravel(tol)[idx] if np.ndim(tol) else tol), n_bad=int(bad.sum()), **detail)
            return False
        return True


# ----------------------------------------------------------------------------------------------
# worker
# ----------------------------------------------------------------------------------------------

def redirect_repo():
    """With VERIF_REPO set (scratch copies for self-tests) make `import cherab` resolve there, not in /repo."""
    if REPO != "/repo":
        m = sys.modules.get("cherab")
        if m is not None and hasattr(m, "__path__"):
            m.__path__[:] = [os.path.join(REPO, "cherab")]
        for k in list(sys.modules):
            if k.startswith("cherab."):
                raise Inconclusive("cherab imported before redirect")


def load_prop(pid):
    redirect_repo()
    return importlib.import_module("vf.props." + pid.lower())


def _innermost_is_harness(tb):
    frames = traceback.extract_tb(tb)
    if not frames:
        return True
    return frames[-1].filename.startswith(os.path.join(ROOT, "vf"))


def run_one(mod, case, ctx):
    """Run one case; classify unexpected exceptions."""
    ctx.case = case
    ctx._nontrivial = False
    try:
        mod.run_case(case, ctx)
    except Inconclusive:
        raise
    except BaseException as e:  # noqa
        if isinstance(e, (KeyboardInterrupt, SystemExit)):
            raise
        tb = traceback.format_exc()
        frames = traceback.extract_tb(e.__traceback__)
        top = ""
        for fr in reversed(frames):
            if "/cherab/" in fr.filename or fr.filename.startswith("cherab/"):
                top = os.path.basename(fr.filename) + ":" + fr.name
                break
        if _innermost_is_harness(e.__traceback__) and not getattr(e, "from_target", False):
            ctx.notes.setdefault("harness_errors", []).append({"case": jsonable(case), "traceback": tb[-3000:]})
            ctx.mon("harness_error")
        else:
            ctx.viol("unexpected-exception:%s@%s" % (type(e).__name__, top),
                     "unexpected %s while executing an in-domain case: %s" % (type(e).__name__, str(e)[:300]),
                     traceback=tb[-3000:])
    return ctx._nontrivial


def case_rng(seed, pid, caseno):
    import numpy as np
    return np.random.default_rng([int(seed) & 0xFFFFFFFF, int(pid[1:]), int(caseno)])


def worker_main(a):
    home = tempfile.mkdtemp(prefix="vfhome_")
    os.environ["HOME"] = home
    os.environ.setdefault("MPLBACKEND", "Agg")
    add_deps_path()
    t0 = time.time()
    # last resort against orphans: the parent's watchdog (timecap * 3 + 300 s) normally ends a stuck worker, but a worker
    # whose parent was killed would otherwise spin for ever
    try:
        import faulthandler as _fh
        _fh.dump_traceback_later(float(a.timecap) * 3 + 900, exit=True)
    except Exception:  # noqa
        pass
    res = {"ok": False}
    inflight = a.out + ".inflight"
    ckpt = a.out + ".ckpt"
    try:
        redirect_repo()
        finder = None
        if os.environ.get("VF_ASAN_DIR"):
            from . import asan as _asan
            finder = _asan.install_finder()
        mod = load_prop(a.id)
        ctx = Ctx(a.id, a.tier, a.seed)
        ctx.home = home
        hashes_nt = set()
        hashes_all = set()
        samples = []
        state = {"n": 0, "last_ckpt": time.time(), "nviol": 0}

        def result(ok=True, **extra):
            r = {"ok": ok, "evaluations": state["n"], "hashes_nt": sorted(hashes_nt), "n_distinct_all": len(hashes_all),
                 "monitors": dict(ctx.monitors), "classes": dict(ctx.classes), "margins": ctx.margins,
                 "violations": ctx.violations, "viol_counts": dict(ctx.viol_counts), "skips": dict(ctx.skips),
                 "samples": samples, "notes": ctx.notes, "wall_s": time.time() - t0}
            r.update(extra)
            return r

        def before(tag, case):
            with open(inflight, "w") as f:
                f.write(jdump({"tag": tag, "case": case}))

        def after():
            nv = sum(ctx.viol_counts.values())
            if nv != state["nviol"] or time.time() - state["last_ckpt"] > 2.0:
                state["nviol"] = nv
                state["last_ckpt"] = time.time()
                with open(ckpt + ".tmp", "w") as f:
                    f.write(jdump(result()))
                os.replace(ckpt + ".tmp", ckpt)

        if hasattr(mod, "worker_init"):
            mod.worker_init(ctx)
        if a.replay:
            rp = json.load(open(a.replay))
            before("replay", rp["case"])
            run_one(mod, rp["case"], ctx)
            state["n"] = 1
        else:
            fixed = []
            if a.shard == 0 and hasattr(mod, "fixed_cases"):
                fixed = list(mod.fixed_cases(a.tier))
            for i, case in enumerate(fixed):
                if i < a.fixed_start:
                    continue
                before("fixed:%d" % i, case)
                nt = run_one(mod, case, ctx)
                h = case_hash(case)
                hashes_all.add(h)
                if nt:
                    hashes_nt.add(h)
                state["n"] += 1
                if len(samples) < 2:
                    samples.append(jsonable(case))
                after()
            k = a.start if a.start >= 0 else a.shard
            while k < a.cases:
                if time.time() - t0 > a.timecap:
                    ctx.notes["stopped_by_budget_at_case"] = k
                    break
                rng = case_rng(a.seed, a.id, k)
                case = mod.gen_case(rng, a.tier)
                case = jsonable(case)
                case["_caseno"] = k
                before("k:%d" % k, case)
                nt = run_one(mod, case, ctx)
                h = case_hash({kk: v for kk, v in case.items() if kk != "_caseno"})
                hashes_all.add(h)
                if nt:
                    hashes_nt.add(h)
                state["n"] += 1
                if len(samples) < 4 and nt:
                    samples.append(case)
                k += a.nshards
                after()
        if hasattr(mod, "worker_finish"):
            mod.worker_finish(ctx)
        if finder is not None:
            ctx.notes["asan_loaded"] = sorted(set(finder.loaded))
        res = result()
    except Inconclusive as e:
        res = {"ok": False, "inconclusive": str(e)}
    except BaseException:  # noqa
        res = {"ok": False, "inconclusive": "worker crashed in harness: " + traceback.format_exc()[-3000:]}
    finally:
        shutil.rmtree(home, ignore_errors=True)
    with open(a.out, "w") as f:
        f.write(jdump(res))
    for fn in (inflight, ckpt):
        if os.path.exists(fn):
            os.remove(fn)
    return 0


# ----------------------------------------------------------------------------------------------
# parent: spawn workers, aggregate, known findings, evidence
# ----------------------------------------------------------------------------------------------

def load_known():
    p = os.path.join(ROOT, "known_findings.json")
    if not os.path.exists(p):
        return []
    out = list(json.load(open(p))["findings"])
    d = os.path.join(ROOT, "known_findings.d")   # staging area used while checks are being developed
    if os.path.isdir(d):
        for fn in sorted(os.listdir(d)):
            if fn.endswith(".json"):
                out.extend(json.load(open(os.path.join(d, fn)))["findings"])
    return out


def worker_env():
    env = dict(os.environ)
    env[GUARD] = "1"
    env["PYTHONHASHSEED"] = "0"
    env["MPLBACKEND"] = "Agg"
    pp = [ROOT]
    if REPO != "/repo":
        pp.insert(0, REPO)
    if env.get("PYTHONPATH"):
        pp.append(env["PYTHONPATH"])
    env["PYTHONPATH"] = os.pathsep.join(pp)
    env["OMP_NUM_THREADS"] = "1"
    env["OPENBLAS_NUM_THREADS"] = "1"
    return env


def _signame(rc):
    try:
        return signal.Signals(-rc).name if isinstance(rc, int) and rc < 0 else "exit-%s" % rc
    except ValueError:
        return "signal%s" % rc


def spawn_workers(pid, tier, seed, cases, workers, timecap, extra_env=None, replay=None, mod=None):
    """Run the shards as subprocesses.  A worker killed by a signal while a case was in flight is a violation for
    that case (witness = the in-flight case + faulthandler log); the shard is restarted after the fatal case."""
    tmp = tempfile.mkdtemp(prefix="vf_%s_" % pid)
    env = worker_env()
    if extra_env:
        env.update(extra_env)
    results = []
    watchdog = timecap * 3 + 300
    t0 = time.time()

    def launch(s, start=-1, fixed_start=0, gen=0):
        out = os.path.join(tmp, "w%d_%d.json" % (s, gen))
        log = open(os.path.join(tmp, "w%d_%d.log" % (s, gen)), "w")
        cmd = [PY, "-X", "faulthandler", "-m", "vf.core", "worker", pid, "--tier", tier, "--seed", str(seed),
               "--shard", str(s), "--nshards", str(workers), "--cases", str(cases), "--timecap", str(timecap),
               "--out", out, "--start", str(start), "--fixed-start", str(fixed_start)]
        if replay:
            cmd += ["--replay", replay]
        return dict(s=s, out=out, log=log, gen=gen, p=subprocess.Popen(cmd, cwd=ROOT, env=env, stdout=log, stderr=subprocess.STDOUT))

    active = [launch(s) for s in range(workers)]
    while active:
        w = active.pop(0)
        try:
            rc = w["p"].wait(timeout=max(5, watchdog - (time.time() - t0)))
        except subprocess.TimeoutExpired:
            w["p"].kill()
            rc = "watchdog"
        w["log"].close()
        fulllog = open(w["log"].name).read()
        logtxt = fulllog[-6000:]
        if os.path.exists(w["out"]):
            r = json.load(open(w["out"]))
            r["shard"] = w["s"]
            r["rc"] = rc
            if not r.get("ok") and "log" not in r:
                r["log"] = logtxt
            results.append(r)
            continue
        infl = w["out"] + ".inflight"
        ck = w["out"] + ".ckpt"
        if rc != "watchdog" and os.path.exists(infl):
            info = json.load(open(infl))
            part = json.load(open(ck)) if os.path.exists(ck) else {
                "ok": True, "evaluations": 0, "hashes_nt": [], "monitors": {}, "classes": {}, "margins": {}, "violations": [],
                "viol_counts": {}, "skips": {}, "samples": [], "notes": {}}
            hint = ""
            if mod is not None and hasattr(mod, "crash_hint"):
                try:
                    hint = ":" + mod.crash_hint(info["case"])
                except Exception:  # noqa
                    hint = ""
            key = "crash:%s%s" % (_signame(rc), hint)
            if "AddressSanitizer" in fulllog:
                from . import asan as _asan
                ak = _asan.classify_log(fulllog)
                if ak:
                    key = ak
                    i0 = fulllog.find("ERROR: AddressSanitizer")
                    logtxt = fulllog[i0:i0 + 3500]
            part["violations"].append({"key": key, "what": "the process died (%s) while executing this in-domain case" % _signame(rc),
                                       "detail": {"faulthandler": logtxt[-2500:]}, "case": info["case"]})
            part["viol_counts"][key] = part["viol_counts"].get(key, 0) + 1
            part["monitors"]["worker_deaths"] = part["monitors"].get("worker_deaths", 0) + 1
            part["evaluations"] += 1
            part["shard"] = w["s"]
            part["rc"] = rc
            results.append(part)
            tag = info["tag"]
            if w["gen"] < 8 and not replay:
                if tag.startswith("fixed:"):
                    active.append(launch(w["s"], fixed_start=int(tag[6:]) + 1, gen=w["gen"] + 1))
                elif tag.startswith("k:"):
                    active.append(launch(w["s"], start=int(tag[2:]) + workers, fixed_start=10 ** 9, gen=w["gen"] + 1))
            elif not replay:
                results.append({"ok": False, "inconclusive": "shard %d died more than 8 times; giving up on it" % w["s"], "shard": w["s"]})
        else:
            results.append({"ok": False, "died": True, "rc": rc, "log": logtxt, "shard": w["s"]})
    shutil.rmtree(tmp, ignore_errors=True)
    return results


def validate_evidence(ev):
    add_deps_path()
    try:
        import jsonschema
        schema = json.load(open(EVIDENCE_SCHEMA))
        jsonschema.validate(ev, schema)
        return None
    except ImportError:
        return None
    except Exception as e:  # noqa
        return str(e)[:500]


def aggregate(pid, mod, tier, seed, results, t0, extra=None, replay=False):
    known = [k for k in load_known() if k["property"] == pid]
    open_keys = {k["key"]: k for k in known if k.get("status") == "open"}
    monitors = collections.Counter()
    classes = collections.Counter()
    skips = collections.Counter()
    margins = {}
    viols = []
    viol_counts = collections.Counter()
    hashes = set()
    samples = []
    evaluations = 0
    inconclusive = []
    notes = {}
    for r in results:
        if not r.get("ok"):
            if r.get("died"):
                inconclusive.append("worker %s died rc=%s: %s" % (r["shard"], r["rc"], r.get("log", "")[-800:]))
            else:
                inconclusive.append("worker %s: %s" % (r["shard"], r.get("inconclusive", "?")[-1500:]))
            continue
        evaluations += r["evaluations"]
        monitors.update(r["monitors"])
        classes.update(r["classes"])
        skips.update(r["skips"])
        viol_counts.update(r["viol_counts"])
        hashes.update(r["hashes_nt"])
        for k, v in r["margins"].items():
            margins[k] = max(margins.get(k, 0.0), v)
        viols.extend(r["violations"])
        for s in r["samples"]:
            if len(samples) < 4:
                samples.append(s)
        for k, v in r["notes"].items():
            notes.setdefault(k, [])
            notes[k].append(v)
    if monitors.get("harness_error"):
        inconclusive.append("%d harness errors, first: %s" % (
            monitors["harness_error"], jdump(notes.get("harness_errors", [[None]])[0][:1])[-2500:]))
    required = getattr(mod, "REQUIRED", {})
    if not replay:
        for name, minimum in required.items():
            m = minimum if tier == "quick" else minimum
            if monitors.get(name, 0) < m:
                inconclusive.append("monitor %r reached %d times (< %d required)" % (name, monitors.get(name, 0), m))
    # classify violations
    known_seen = collections.OrderedDict()
    new = collections.OrderedDict()
    for v in viols:
        if v["key"] in open_keys:
            known_seen.setdefault(v["key"], v)
        else:
            new.setdefault(v["key"], []).append(v)
    lines = []
    if not replay:
        for key, kf in open_keys.items():
            seen = viol_counts.get(key, 0)
            lines.append("KNOWN-FINDING: property=%s %s — %s (%s)" % (
                pid, key, kf.get("what", ""), "seen %d× in this run" % seen if seen else "listed; not reached by this run's cases"))
    else:
        for key, v in known_seen.items():
            lines.append("KNOWN-FINDING: property=%s %s — %s (seen %d×)" % (pid, key, open_keys[key].get("what", v["what"]),
                                                                          viol_counts[key]))
    replay_paths = []
    if new:
        rdir = os.path.join(ROOT, "replays", pid) if REPO == "/repo" else os.path.join(CACHE, "replays_scratch", pid)
        os.makedirs(rdir, exist_ok=True)
        for key, vs in new.items():
            v = vs[0]
            name = hashlib.sha1(key.encode()).hexdigest()[:10] + ".json"
            path = os.path.join(rdir, name)
            with open(path, "w") as f:
                f.write(jdump({"property": pid, "key": key, "what": v["what"], "detail": v["detail"],
                               "case": v["case"], "seed": seed, "tier": tier}, indent=1))
            replay_paths.append(path)
            lines.append("VIOLATION property=%s replay=%s" % (pid, path))
            lines.append("  key=%s count=%d: %s" % (key, viol_counts[key], v["what"]))
            lines.append("  detail=%s" % jdump(v["detail"])[:1500])
    n_new = sum(viol_counts[k] for k in new)
    ev = {
        "property_id": pid, "tier": tier, "seed": int(seed), "level": getattr(mod, "LEVEL", "exploration"),
        "coverage": {
            "evaluations": int(evaluations), "distinct_nontrivial": len(hashes),
            "rule": getattr(mod, "RULE", ""), "samples": samples,
            "classes": dict(classes), "monitors": dict(monitors), "margins": margins, "skipped": dict(skips),
            "known_findings_seen": {k: viol_counts[k] for k in known_seen},
            "new_violation_keys": {k: viol_counts[k] for k in new},
            "inconclusive": inconclusive,
        },
        "assumptions": list(getattr(mod, "ASSUMPTIONS", [])),
        "wall_s": round(time.time() - t0, 2), "violations": int(n_new),
    }
    if getattr(mod, "EXHAUSTIVE", False):
        ev["coverage"]["exhaustive"] = True
    if notes.get("stopped_by_budget_at_case"):
        ev["coverage"]["stopped_by_budget_at_case"] = sorted(notes["stopped_by_budget_at_case"])
    if extra:
        ev["coverage"].update(extra)
    if not replay:
        if len(hashes) < 2 or evaluations < 1:
            inconclusive.append("too few distinct non-trivial cases (%d)" % len(hashes))
        err = validate_evidence(ev) if len(hashes) >= 2 and evaluations >= 1 and samples else None
        if err:
            inconclusive.append("evidence does not validate: " + err)
        evdir = os.path.join(ROOT, "evidence") if REPO == "/repo" else os.path.join(CACHE, "evidence_scratch")
        os.makedirs(evdir, exist_ok=True)
        with open(os.path.join(evdir, pid + ".json"), "w") as f:
            f.write(jdump(ev, indent=1))
    for ln in lines:
        print(ln)
    print("%s tier=%s seed=%s evaluations=%d distinct_nontrivial=%d monitors=%s" % (
        pid, tier, seed, evaluations, len(hashes), jdump(dict(monitors))))
    if margins:
        print("%s margins (max residual/tolerance): %s" % (pid, jdump({k: float("%.3g" % v) for k, v in margins.items()})))
    if new:
        print("%s: VIOLATED (%d new violation keys) wall=%.1fs" % (pid, len(new), time.time() - t0))
        return 1
    if inconclusive:
        for i in inconclusive:
            print("INCONCLUSIVE property=%s %s" % (pid, i))
        return 2
    print("%s: HELD on %d executions (%d known findings seen) wall=%.1fs" % (pid, evaluations, len(known_seen),
                                                                            time.time() - t0))
    return 0


QUICK_TIMECAP_FLOOR = 150.0


def check_main(a):
    t0 = time.time()
    pid = a.id.upper()
    tier = a.tier or os.environ.get("VERIF_TIER") or "quick"
    seed = int(os.environ.get("VERIF_SEED", "0") or 0)
    try:
        ensure_deps()
        add_deps_path()
        ensure_built()
    except Inconclusive as e:
        print("INCONCLUSIVE property=%s %s" % (pid, e))
        return 2
    mod = load_prop(pid)
    if a.replay:
        results = spawn_workers(pid, tier, seed, 1, 1, 600, replay=os.path.abspath(a.replay), mod=mod)
        return aggregate(pid, mod, tier, seed, results, t0, replay=True)
    cfg = dict(getattr(mod, "QUICK" if tier == "quick" else "THOROUGH"))
    if a.cases:
        cfg["cases"] = a.cases
    if a.workers:
        cfg["workers"] = a.workers
    if a.timecap:
        cfg["timecap"] = a.timecap
    elif tier == "quick":
        # the module's figure is the wall time it was sized for; the cap only guards against a runaway run, and a
        # loaded machine must not cut the workload below the monitors' required counts (that would be INCONCLUSIVE)
        cfg["timecap"] = max(cfg.get("timecap", 60), QUICK_TIMECAP_FLOOR)
    results = spawn_workers(pid, tier, seed, cfg["cases"], cfg.get("workers", 2), cfg.get("timecap", 60), mod=mod)
    extra = None
    if getattr(mod, "ASAN_MODULES", None) and (tier in getattr(mod, "ASAN_TIERS", ("thorough",)) or os.environ.get("VF_ASAN_FORCE")):
        from . import asan as _asan
        acfg = dict(getattr(mod, "ASAN", {}))
        try:
            tb = time.time()
            adir = _asan.build(list(mod.ASAN_MODULES))
            build_s = time.time() - tb
            try:
                ares = spawn_workers(pid, tier, seed, acfg.get("cases", max(50, cfg["cases"] // 20)), acfg.get("workers", 8),
                                     acfg.get("timecap", 300), extra_env=_asan.worker_env(adir), mod=mod)
            finally:
                shutil.rmtree(adir, ignore_errors=True)
            loaded = sorted(set(sum([r.get("notes", {}).get("asan_loaded", []) for r in ares], [])))
            extra = {"asan": {"modules_built": list(mod.ASAN_MODULES), "modules_loaded_instrumented": loaded,
                              "cases_run": sum(r.get("evaluations", 0) for r in ares), "build_s": round(build_s, 1),
                              "reports": sum(1 for r in ares for v in r.get("violations", []) if v["key"].startswith("asan:"))}}
            for r in ares:
                r.setdefault("notes", {}).pop("asan_loaded", None)
                if r.get("ok"):
                    r.setdefault("monitors", {})["asan_cases"] = r.get("evaluations", 0)
            if not loaded:
                ares.append({"ok": False, "inconclusive": "ASan pass loaded no instrumented module", "shard": "asan"})
            results.extend(ares)
        except Inconclusive as e:
            results.append({"ok": False, "inconclusive": "ASan engine: %s" % e, "shard": "asan"})
    if hasattr(mod, "parent_extra"):
        # optional extra engines (ASan pass, suite-under-contracts) run by the parent
        try:
            extra_results, extra2 = mod.parent_extra(tier, seed, cfg)
            results.extend(extra_results)
            extra = dict(extra or {}, **(extra2 or {}))
        except Inconclusive as e:
            results.append({"ok": False, "inconclusive": "extra engine: %s" % e, "shard": "extra"})
    return aggregate(pid, mod, tier, seed, results, t0, extra=extra)


def main():
    ap = argparse.ArgumentParser()
    sub = ap.add_subparsers(dest="cmd")
    sub.add_parser("setup")
    c = sub.add_parser("check")
    c.add_argument("id")
    c.add_argument("--tier", choices=["quick", "thorough"])
    c.add_argument("--replay")
    c.add_argument("--cases", type=int)
    c.add_argument("--workers", type=int)
    c.add_argument("--timecap", type=float)
    w = sub.add_parser("worker")
    w.add_argument("id")
    w.add_argument("--tier", default="quick")
    w.add_argument("--seed", type=int, default=0)
    w.add_argument("--shard", type=int, default=0)
    w.add_argument("--nshards", type=int, default=1)
    w.add_argument("--cases", type=int, default=10)
    w.add_argument("--timecap", type=float, default=60)
    w.add_argument("--out", required=True)
    w.add_argument("--start", type=int, default=-1)
    w.add_argument("--fixed-start", type=int, default=0, dest="fixed_start")
    w.add_argument("--replay")
    a = ap.parse_args()
    if a.cmd == "setup":
        try:
            ensure_deps()
            dt = ensure_built()
            print("setup ok (build %.1fs)" % dt)
            return 0
        except Inconclusive as e:
            print("setup failed:", e)
            return 2
    if a.cmd == "worker":
        return worker_main(a)
    if a.cmd == "check":
        return check_main(a)
    ap.print_help()
    return 2


if __name__ == "__main__":
    sys.exit(main())
