"""C15 helper: own invariant wrapper ("contract at a hook") for the cherab observer-group classes.

icontract.invariant cannot decorate subclasses of extension types (Node), so this module patches, from the harness
side only, every property setter and every membership mutator that the group classes define in Python:

    after the call (normal return OR exception) the group invariant is evaluated
        I1  every member's scene-graph parent is the group            (parent)
        I2  every member is one of group.children                     (children)
        I3  len(group) == number of members returned by the getter    (len)
    optionally (post=True, used when the repository's own tests are the workload) a generic broadcast post-condition
    for the plain same-named attributes: scalar -> every member equals it, list/tuple(/ndarray where the setter names
    it) of group length -> element-wise, ValueError on a wrong-length sequence -> the attribute is unchanged.

Nothing in /repo is touched; the wrappers only *observe* and report through the `record` callback.

Run as a script it executes cherab/tools/tests/test_observer_groups.py with the wrappers active:
    python -m vf.groupinv_c15 --suite OUT.json
"""
import functools
import json
import sys

GROUP_CLASSES = ["SightLineGroup", "FibreOpticGroup", "PixelGroup", "TargettedPixelGroup",
                 "SpectroscopicSightLineGroup", "SpectroscopicFibreOpticGroup", "BolometerCamera"]

MUTATOR_METHODS = ("__init__", "add_observer", "add_sight_line", "add_foil_detector", "connect_pipelines")

# plain attributes: group attribute -> member attribute, compared with == ; value: does the setter name ndarray
SIMPLE = {
    "spectral_bins": True, "spectral_rays": True, "max_wavelength": True, "min_wavelength": True,
    "ray_extinction_prob": True, "ray_max_depth": True, "ray_extinction_min_depth": True,
    "ray_importance_sampling": True, "ray_important_path_weight": True, "quiet": True,
    "pixel_samples": True, "samples_per_task": True, "sensitivity": True, "acceptance_angle": True,
    "radius": True, "x_width": True, "y_width": True, "targetted_path_prob": False,
}

COUNTS = {"invariant": 0, "post": 0}
_INSTALLED = {"done": False}


def load_classes():
    """name -> class for the seven group classes (imported lazily: cherab must be importable / redirected first)."""
    from cherab.tools.observers.group import SightLineGroup, FibreOpticGroup, PixelGroup, TargettedPixelGroup
    from cherab.tools.observers.group.spectroscopic import SpectroscopicSightLineGroup, SpectroscopicFibreOpticGroup
    from cherab.tools.observers.bolometry import BolometerCamera
    return {"SightLineGroup": SightLineGroup, "FibreOpticGroup": FibreOpticGroup, "PixelGroup": PixelGroup,
            "TargettedPixelGroup": TargettedPixelGroup, "SpectroscopicSightLineGroup": SpectroscopicSightLineGroup,
            "SpectroscopicFibreOpticGroup": SpectroscopicFibreOpticGroup, "BolometerCamera": BolometerCamera}


def members_of(group):
    """The group's members as the public getter returns them."""
    if hasattr(type(group), "foil_detectors"):
        return list(group.foil_detectors)
    return list(group.observers)


def invariant_problems(group):
    """List of (clause, text) for the invariant clauses that do not hold right now."""
    out = []
    try:
        mem = members_of(group)
    except AttributeError:
        return out            # object under construction (membership container not yet created)
    children = group.children
    for i, m in enumerate(mem):
        if getattr(m, "parent", None) is not group:
            out.append(("parent", "member %d (%s) has parent %r, not the group" % (i, type(m).__name__, getattr(m, "parent", None))))
        if not any(c is m for c in children):
            out.append(("children", "member %d (%s) is not among group.children" % (i, type(m).__name__)))
    try:
        n = len(group)
    except Exception as e:  # noqa
        out.append(("len", "len(group) raised %s" % type(e).__name__))
    else:
        if n != len(mem):
            out.append(("len", "len(group)=%d but the member getter returns %d members" % (n, len(mem))))
    return out


def _eval_invariant(group, where, record):
    COUNTS["invariant"] += 1
    cname = type(group).__name__
    for clause, text in invariant_problems(group):
        record("hook:%s:%s:after-%s" % (clause, cname, where), "invariant violated after %s.%s: %s" % (cname, where, text), {})


def _eq(a, b):
    try:
        return bool(a == b)
    except Exception:  # noqa
        return False


def _wrap_setter(owner, name, prop, record, post):
    fset = prop.fset

    @functools.wraps(fset)
    def wrapped(self, value):
        before = None
        simple = post and name in SIMPLE
        if simple:
            try:
                before = [getattr(m, name) for m in members_of(self)]
            except Exception:  # noqa
                simple = False
        try:
            fset(self, value)
        except ValueError:
            if simple:
                import numpy as np
                seq = isinstance(value, (list, tuple)) or (SIMPLE[name] and isinstance(value, np.ndarray))
                if seq and len(value) != len(before):
                    COUNTS["post"] += 1
                    after = [getattr(m, name) for m in members_of(self)]
                    if len(after) != len(before) or not all(_eq(x, y) for x, y in zip(after, before)):
                        record("hook:post:%s.%s:wronglen-changed-state" % (type(self).__name__, name),
                               "wrong-length assignment raised ValueError but changed member values", {})
            _eval_invariant(self, name + "=", record)
            raise
        except BaseException:
            _eval_invariant(self, name + "=", record)
            raise
        if simple:
            import numpy as np
            COUNTS["post"] += 1
            mem = members_of(self)
            seq = isinstance(value, (list, tuple)) or (SIMPLE[name] and isinstance(value, np.ndarray))
            cname = type(self).__name__
            if seq:
                if len(value) != len(mem):
                    record("hook:post:%s.%s:wronglen-accepted" % (cname, name),
                           "sequence of length %d accepted by a group of %d members" % (len(value), len(mem)), {})
                else:
                    for i, (m, v) in enumerate(zip(mem, value)):
                        if not _eq(getattr(m, name), v):
                            record("hook:post:%s.%s:seq-member-value" % (cname, name),
                                   "member %d holds %r after element-wise assignment of %r" % (i, getattr(m, name), v), {})
                            break
            else:
                for i, m in enumerate(mem):
                    if not _eq(getattr(m, name), value):
                        record("hook:post:%s.%s:scalar-member-value" % (cname, name),
                               "member %d holds %r after broadcasting %r" % (i, getattr(m, name), value), {})
                        break
        _eval_invariant(self, name + "=", record)

    wrapped._c15_wrapped = True
    return property(prop.fget, wrapped, prop.fdel, prop.__doc__)


def _wrap_method(name, fn, record):
    @functools.wraps(fn)
    def wrapped(self, *a, **k):
        try:
            r = fn(self, *a, **k)
        except BaseException:
            _eval_invariant(self, name, record)
            raise
        _eval_invariant(self, name, record)
        return r

    wrapped._c15_wrapped = True
    return wrapped


def install(record, post=False):
    """Patch the cherab classes in the MRO of the seven group classes. Idempotent. Returns the patched names."""
    if _INSTALLED["done"]:
        return _INSTALLED["names"]
    classes = load_classes()
    owners = []
    for c in classes.values():
        for k in c.__mro__:
            if k.__module__.startswith("cherab.") and k not in owners:
                owners.append(k)
    names = []
    for k in owners:
        for name, v in list(vars(k).items()):
            if isinstance(v, property) and v.fset is not None and not getattr(v.fset, "_c15_wrapped", False):
                setattr(k, name, _wrap_setter(k, name, v, record, post))
                names.append("%s.%s=" % (k.__name__, name))
            elif name in MUTATOR_METHODS and callable(v) and not getattr(v, "_c15_wrapped", False):
                setattr(k, name, _wrap_method(name, v, record))
                names.append("%s.%s()" % (k.__name__, name))
    _INSTALLED["done"] = True
    _INSTALLED["names"] = names
    return names


# ----------------------------------------------------------------------------------------------
# repository tests under the wrapper
# ----------------------------------------------------------------------------------------------

def _suite_main(out_path):
    import io
    import unittest
    from vf import core
    core.redirect_repo()
    viols = []

    def record(key, what, detail):
        viols.append({"key": key, "what": what, "detail": detail})

    names = install(record, post=True)
    import cherab.tools.tests.test_observer_groups as tmod
    suite = unittest.defaultTestLoader.loadTestsFromModule(tmod)
    stream = io.StringIO()
    res = unittest.TextTestRunner(stream=stream, verbosity=0).run(suite)
    out = {"tests_run": res.testsRun,
           "failures": [str(t) for t, _ in res.failures], "errors": [str(t) for t, _ in res.errors],
           "fail_text": [tb[-1500:] for _, tb in (res.failures + res.errors)][:5],
           "invariant_evaluations": COUNTS["invariant"], "post_evaluations": COUNTS["post"],
           "patched": names, "violations": viols, "module_file": tmod.__file__}
    with open(out_path, "w") as f:
        json.dump(out, f)
    return 0


if __name__ == "__main__":
    if len(sys.argv) == 3 and sys.argv[1] == "--suite":
        sys.exit(_suite_main(sys.argv[2]))
    print(__doc__)
    sys.exit(2)
