"""MOCKAD — deterministic recording atomic-data provider used by the scene-level monitors (C01).

Every rate is a smooth positive function of ALL of its arguments with constants derived from
(provider tag, accessor, key), so wrong wiring / stale rate objects change the numbers.
"""
import hashlib
import struct

from cherab.core.atomic import AtomicData
from cherab.core.atomic.rates import (ImpactExcitationPEC, RecombinationPEC, ThermalCXPEC, BeamCXPEC, BeamStoppingRate,
                                      BeamPopulationRate, BeamEmissionPEC, LineRadiationPower, ContinuumPower,
                                      CXRadiationPower)
from cherab.core.atomic.gaunt import FreeFreeGauntFactor


def hfrac(*key):
    d = hashlib.md5(repr(key).encode()).digest()
    return struct.unpack("<Q", d[:8])[0] / 2.0 ** 64


def _sym(e):
    return e.symbol


COUNTS = {"evaluate": 0, "accessor": 0}


def _consts(tag, acc, key, n, scale):
    c = scale * (0.5 + hfrac(tag, acc, key, "c"))
    a = [0.4 * (hfrac(tag, acc, key, "a", i) - 0.5) for i in range(n)]
    return c, a


def _pw(x, ref, a):
    # smooth, positive for positive x; arguments of the models are positive whenever they evaluate a rate
    if x <= 0:
        return 1.0
    return (x / ref) ** a


class _R2:
    def _setup(self, tag, acc, key, scale):
        self.key = (tag, acc) + tuple(key)
        self.c, self.a = _consts(tag, acc, key, 2, scale)

    def evaluate(self, density, temperature):
        COUNTS["evaluate"] += 1
        return self.c * _pw(density, 1e19, self.a[0]) * _pw(temperature, 100.0, self.a[1])


class MExc(_R2, ImpactExcitationPEC):
    def __init__(self, tag, key):
        self._setup(tag, "exc", key, 1e-33)


class MRec(_R2, RecombinationPEC):
    def __init__(self, tag, key):
        self._setup(tag, "rec", key, 1e-34)


class MPLT(_R2, LineRadiationPower):
    def __init__(self, tag, key):
        self._setup(tag, "plt", key, 1e-33)


class MPRB(_R2, ContinuumPower):
    def __init__(self, tag, key):
        self._setup(tag, "prb", key, 1e-34)


class MPRC(_R2, CXRadiationPower):
    def __init__(self, tag, key):
        self._setup(tag, "prc", key, 1e-33)


class MTCX(ThermalCXPEC):
    def __init__(self, tag, key):
        self.key = (tag, "tcx") + tuple(key)
        self.c, self.a = _consts(tag, "tcx", key, 3, 1e-33)

    def evaluate(self, ne, te, td):
        COUNTS["evaluate"] += 1
        return self.c * _pw(ne, 1e19, self.a[0]) * _pw(te, 100.0, self.a[1]) * _pw(td, 100.0, self.a[2])


class MBCX(BeamCXPEC):
    def __init__(self, tag, key, metastable):
        super().__init__(metastable)
        self.key = (tag, "bcx") + tuple(key) + (metastable,)
        self.c, self.a = _consts(tag, "bcx", tuple(key) + (metastable,), 5, 1e-33)

    def evaluate(self, energy, temperature, density, z_effective, b_field):
        COUNTS["evaluate"] += 1
        return (self.c * _pw(energy, 5e4, self.a[0]) * _pw(temperature, 100.0, self.a[1]) * _pw(density, 1e19, self.a[2])
                * _pw(z_effective, 2.0, self.a[3]) * _pw(b_field + 1.0, 2.0, self.a[4]))


class _RB:
    def _setup(self, tag, acc, key, scale):
        self.key = (tag, acc) + tuple(key)
        self.null = False
        self.c, self.a = _consts(tag, acc, key, 3, scale)

    def evaluate(self, energy, density, temperature):
        COUNTS["evaluate"] += 1
        if self.null:
            return 0.0   # neutrals: the provider's null rate (as OpenADAS does); the models pass density = inf there
        return self.c * _pw(energy, 5e4, self.a[0]) * _pw(density, 1e19, self.a[1]) * _pw(temperature, 100.0, self.a[2])


class MStop(_RB, BeamStoppingRate):
    def __init__(self, tag, key):
        self._setup(tag, "bms", key, 2e-14)


class MPop(_RB, BeamPopulationRate):
    def __init__(self, tag, key):
        self._setup(tag, "bmp", key, 0.05)


class MBes(_RB, BeamEmissionPEC):
    def __init__(self, tag, key):
        self._setup(tag, "bme", key, 1e-34)


class MGaunt(FreeFreeGauntFactor):
    def __init__(self, tag):
        self.tag = tag
        self.c = 1.0 + 0.5 * hfrac(tag, "gaunt")

    def evaluate(self, z, temperature, wavelength):
        COUNTS["evaluate"] += 1
        return self.c * _pw(z, 1.0, 0.1) * _pw(temperature, 100.0, 0.05) * _pw(wavelength, 500.0, 0.1)


class MockAD(AtomicData):
    """Recording mock provider. `tag` selects the constant set (two providers A/B differ everywhere)."""

    def __init__(self, tag="A", wl_range=(420.0, 680.0), n_metastables=2):
        super().__init__()
        self.tag = tag
        self.wl_range = wl_range
        self.n_metastables = n_metastables
        self.calls = []

    def _rec(self, acc, key):
        COUNTS["accessor"] += 1
        if len(self.calls) < 20000:
            self.calls.append((acc,) + tuple(key))

    def wavelength(self, ion, charge, transition):
        key = (_sym(ion), charge, tuple(str(t) for t in transition))
        self._rec("wavelength", key)
        lo, hi = self.wl_range
        return lo + (hi - lo) * hfrac(self.tag, "wl", key)

    def impact_excitation_pec(self, ion, charge, transition):
        key = (_sym(ion), charge, tuple(str(t) for t in transition))
        self._rec("exc", key)
        return MExc(self.tag, key)

    def recombination_pec(self, ion, charge, transition):
        key = (_sym(ion), charge, tuple(str(t) for t in transition))
        self._rec("rec", key)
        return MRec(self.tag, key)

    def thermal_cx_pec(self, donor_ion, donor_charge, receiver_ion, receiver_charge, transition):
        key = (_sym(donor_ion), donor_charge, _sym(receiver_ion), receiver_charge, tuple(str(t) for t in transition))
        self._rec("tcx", key)
        return MTCX(self.tag, key)

    def beam_cx_pec(self, donor_ion, receiver_ion, receiver_charge, transition):
        key = (_sym(donor_ion), _sym(receiver_ion), receiver_charge, tuple(str(t) for t in transition))
        self._rec("bcx", key)
        return [MBCX(self.tag, key, m) for m in range(self.n_metastables, 0, -1)]

    def beam_stopping_rate(self, beam_ion, plasma_ion, charge):
        key = (_sym(beam_ion), _sym(plasma_ion), charge)
        self._rec("bms", key)
        r = MStop(self.tag, key)
        r.null = (charge == 0)
        return r

    def beam_population_rate(self, beam_ion, metastable, plasma_ion, charge):
        key = (_sym(beam_ion), metastable, _sym(plasma_ion), charge)
        self._rec("bmp", key)
        r = MPop(self.tag, key)
        r.null = (charge == 0)
        return r

    def beam_emission_pec(self, beam_ion, plasma_ion, charge, transition):
        key = (_sym(beam_ion), _sym(plasma_ion), charge, tuple(str(t) for t in transition))
        self._rec("bme", key)
        r = MBes(self.tag, key)
        r.null = (charge == 0)
        return r

    def line_radiated_power_rate(self, element, charge):
        key = (_sym(element), charge)
        self._rec("plt", key)
        return MPLT(self.tag, key)

    def continuum_radiated_power_rate(self, element, charge):
        key = (_sym(element), charge)
        self._rec("prb", key)
        return MPRB(self.tag, key)

    def cx_radiated_power_rate(self, element, charge):
        key = (_sym(element), charge)
        self._rec("prc", key)
        return MPRC(self.tag, key)

    def free_free_gaunt_factor(self):
        self._rec("gaunt", ())
        return MGaunt(self.tag)
