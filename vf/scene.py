"""SCENE — configuration model, mutators and fresh-scene builder for the C01 differential monitor.

A *configuration* is a plain JSON dict describing a world (intermediate node, plasma, optional beam, optional
laser).  `build(cfg)` constructs a brand-new Raysect/cherab scene from it in one canonical order (everything set
before the first observation).  `apply(scene, cfg, op)` applies one public mutator to the live objects AND updates
the configuration with the API's documented semantics.  `observe(scene, probes)` takes the observations.
"""
import math

import numpy as np
from raysect.core import Node, AffineMatrix3D, translate, rotate_x, rotate_y, rotate_z, Point3D, Vector3D
from raysect.core.math.function.float import Arg3D
from raysect.optical import World, Ray
from raysect.optical.material.emitter.inhomogeneous import NumericalIntegrator
from raysect.primitive import Sphere, Box, Cylinder

from cherab.core import Plasma, Beam, Species, Maxwellian
from cherab.core.atomic import Line, lookup_element, lookup_isotope
from cherab.core.model import (ExcitationLine, RecombinationLine, ThermalCXLine, Bremsstrahlung, TotalRadiatedPower,
                               BeamCXLine, BeamEmissionLine, SingleRayAttenuator, GaussianLine, ZeemanTriplet,
                               StarkBroadenedLine, MultipletLineShape)

from cherab.core.laser import Laser
from cherab.core.model.laser import (UniformEnergyDensity, ConstantBivariateGaussian, TrivariateGaussian,
                                     GaussianBeamAxisymmetric, ConstantSpectrum, GaussianSpectrum,
                                     SeldenMatobaThomsonSpectrum)

from .mockad import MockAD

ELECTRON_MASS = 9.1093837015e-31
AMU = 1.66053906660e-27

WL_MIN, WL_MAX, BINS = 400.0, 700.0, 24


def species_obj(name):
    try:
        return lookup_isotope(name)
    except ValueError:
        return lookup_element(name)


def T(t):
    if t is None:
        return AffineMatrix3D()
    tx, ty, tz, ax, ay, az = t
    return translate(tx, ty, tz) * rotate_x(ax) * rotate_y(ay) * rotate_z(az)


def prof(p):
    c0, gx, gy, gz = p
    if gx == 0 and gy == 0 and gz == 0:
        return float(c0)
    return c0 * (1.0 + gx * Arg3D("x") + gy * Arg3D("y") + gz * Arg3D("z"))


def dist(d, mass):
    return Maxwellian(prof(d["n"]), prof(d["t"]), Vector3D(*d["v"]), mass)


def make_species(s):
    el = species_obj(s["el"])
    return Species(el, s["q"], dist(s["dist"], el.atomic_weight * AMU))


def make_geom(g):
    if g["kind"] == "sphere":
        return Sphere(g["r"])
    if g["kind"] == "box":
        hx, hy, hz = g["h"]
        return Box(Point3D(-hx, -hy, -hz), Point3D(hx, hy, hz))
    if g["kind"] == "cyl":
        return Cylinder(g["r"], g["h"], transform=None)
    raise ValueError(g)


_SHAPES = {"gauss": GaussianLine, "zeeman": ZeemanTriplet, "stark": StarkBroadenedLine, "multiplet": MultipletLineShape}


def _shape_kw(m):
    sh = m.get("shape", "gauss")
    if sh == "zeeman":
        return dict(lineshape_kwargs={"polarisation": m.get("pol", "no")})
    if sh == "stark":
        return dict(lineshape_kwargs={"stark_model_coefficients": tuple(m["stark"]), "polarisation": m.get("pol", "no")})
    if sh == "multiplet":
        return dict(lineshape_args=[m["multiplet"]])
    return {}


def make_pmodel(m):
    k = m["kind"]
    if k == "brems":
        from cherab.core.math.integrators import GaussianQuadrature
        from .mockad import MGaunt
        kw = {}
        if m.get("gaunt"):
            kw["gaunt_factor"] = MGaunt(m["gaunt"])
        if m.get("quad"):
            kw["integrator"] = GaussianQuadrature(relative_tolerance=m["quad"])
        return Bremsstrahlung(**kw)
    el = species_obj(m["el"])
    if k == "trp":
        return TotalRadiatedPower(el, m["q"])
    line = Line(el, m["q"], tuple(m["tr"]))
    shape = _SHAPES[m.get("shape", "gauss")]
    kw = _shape_kw(m)
    cls = {"exc": ExcitationLine, "rec": RecombinationLine, "tcx": ThermalCXLine}[k]
    return cls(line, lineshape=shape, **kw)


def make_bmodel(m):
    if m["kind"] == "bes":
        return BeamEmissionLine(Line(species_obj(m["el"]), 0, tuple(m.get("tr", (3, 2)))))
    el = species_obj(m["el"])
    line = Line(el, m["q"], tuple(m["tr"]))
    shape = _SHAPES[m.get("shape", "gauss")]
    kw = _shape_kw(m)
    return BeamCXLine(line, lineshape=shape, **kw)


def make_attenuator(a):
    att = SingleRayAttenuator(step=a["step"], clamp_to_zero=a["clamp_to_zero"], clamp_sigma=a["clamp_sigma"])
    # The constructor squares clamp_sigma with a C multiplication, the setter with Python's pow(); the two can differ
    # by one ulp, and the beam's bounding surface lies exactly on the clamp discontinuity, so an end-point sample can
    # flip in/out (a 1e-5-level rounding artefact, not stale state).  Route every attenuator through the setter once
    # (before it is attached) so live and fresh scenes hold the same bit pattern.
    att.clamp_sigma = a["clamp_sigma"]
    return att


PROFILE_ATTRS = {
    "uniform": ["energy_density", "laser_length", "laser_radius"],
    "bivariate": ["pulse_energy", "pulse_length", "laser_radius", "laser_length", "stddev_x", "stddev_y"],
    "trivariate": ["pulse_energy", "pulse_length", "mean_z", "laser_length", "laser_radius", "stddev_x", "stddev_y"],
    "gbeam": ["pulse_energy", "pulse_length", "laser_length", "laser_radius", "waist_z", "stddev_waist", "laser_wavelength"],
}
SPECTRUM_ATTRS = {"constant": ["min_wavelength", "max_wavelength", "bins"],
                  "gaussian": ["min_wavelength", "max_wavelength", "bins", "mean", "stddev"]}


def make_profile(pr):
    cls = {"uniform": UniformEnergyDensity, "bivariate": ConstantBivariateGaussian, "trivariate": TrivariateGaussian,
           "gbeam": GaussianBeamAxisymmetric}[pr["kind"]]
    kw = {a: pr[a] for a in PROFILE_ATTRS[pr["kind"]]}
    return cls(polarization=Vector3D(*pr["pol"]), **kw)


def make_spectrum(sp):
    cls = {"constant": ConstantSpectrum, "gaussian": GaussianSpectrum}[sp["kind"]]
    return cls(**{a: sp[a] for a in SPECTRUM_ATTRS[sp["kind"]]})


def make_lmodel(m):
    return SeldenMatobaThomsonSpectrum()


class Scene:
    pass


def build(cfg):
    """Fresh scene in canonical order: nodes -> all parameters -> attenuator -> models."""
    s = Scene()
    s.ad = {"A": MockAD("A"), "B": MockAD("B")}
    s.world = World()
    s.node = Node(parent=s.world, transform=T(cfg["node_transform"]))
    pc = cfg["plasma"]
    parent = s.world if pc["parent"] == "world" else s.node
    p = Plasma(parent=parent, transform=T(pc["transform"]))
    p.atomic_data = s.ad[pc["atomic_data"]]
    p.integrator = NumericalIntegrator(step=pc["integrator_step"])
    p.geometry = make_geom(pc["geometry"])
    p.geometry_transform = T(pc["geometry_transform"]) if pc["geometry_transform"] is not None else None
    p.b_field = Vector3D(*pc["b_field"])
    p.electron_distribution = dist(pc["electrons"], ELECTRON_MASS)
    p.composition = [make_species(x) for x in pc["species"]]
    s.plasma = p
    s.beam = None
    bc = cfg.get("beam")
    if bc is not None:
        parent = s.world if bc["parent"] == "world" else s.node
        b = Beam(parent=parent, transform=T(bc["transform"]))
        b.plasma = p
        b.atomic_data = s.ad[bc["atomic_data"]]
        b.energy = bc["energy"]
        b.power = bc["power"]
        b.temperature = bc["temperature"]
        b.element = species_obj(bc["element"])
        b.sigma = bc["sigma"]
        b.divergence_x = bc["divergence_x"]
        b.divergence_y = bc["divergence_y"]
        b.length = bc["length"]
        b.attenuator = make_attenuator(bc["attenuator"])
        b.integrator = NumericalIntegrator(step=bc["integrator_step"])
        s.beam = b
    s.laser = None
    lc = cfg.get("laser")
    if lc is not None:
        parent = s.world if lc["parent"] == "world" else s.node
        l = Laser(parent=parent, transform=T(lc["transform"]))
        l.laser_spectrum = make_spectrum(lc["spectrum"])
        l.plasma = p
        l.laser_profile = make_profile(lc["profile"])
        l.importance = lc["importance"]
        s.laser = l
    # models last
    s.pmodels = [make_pmodel(m) for m in pc["models"]]
    if s.pmodels:
        p.models = s.pmodels
    if s.beam is not None:
        s.bmodels = [make_bmodel(m) for m in bc["models"]]
        if s.bmodels:
            s.beam.models = s.bmodels
    if s.laser is not None:
        s.lmodels = [make_lmodel(m) for m in lc["models"]]
        if s.lmodels:
            s.laser.models = s.lmodels
        # the repository's own suite sets the laser integrator after the models
        s.laser.integrator = NumericalIntegrator(step=lc["integrator_step"])
    return s


# ------------------------------------------------------------------------------------------------
# mutators: (live application, model update)
# ------------------------------------------------------------------------------------------------

def _comp_add(lst, sp):
    for i, x in enumerate(lst):
        if x["el"] == sp["el"] and x["q"] == sp["q"]:
            lst[i] = sp
            return
    lst.append(sp)


def _comp_set(lst):
    out = []
    for sp in lst:
        _comp_add(out, sp)
    # dict semantics: a repeated key keeps its first position but takes the last value (what _comp_add does)
    return out


def apply(s, cfg, op):
    """Apply op to the live scene `s` and to the configuration `cfg` (in place)."""
    k = op["op"]
    pc = cfg["plasma"]
    bc = cfg.get("beam")
    p, b = s.plasma, s.beam
    if k == "p_bfield":
        p.b_field = Vector3D(*op["v"]); pc["b_field"] = op["v"]
    elif k == "p_electrons":
        p.electron_distribution = dist(op["dist"], ELECTRON_MASS); pc["electrons"] = op["dist"]
    elif k == "p_comp_add":
        p.composition.add(make_species(op["sp"])); _comp_add(pc["species"], op["sp"])
    elif k == "p_comp_set":
        p.composition.set([make_species(x) for x in op["list"]]); pc["species"] = _comp_set(op["list"])
    elif k == "p_comp_assign":
        p.composition = [make_species(x) for x in op["list"]]; pc["species"] = _comp_set(op["list"])
    elif k == "p_comp_clear":
        p.composition.clear(); pc["species"] = []
    elif k == "p_geometry":
        p.geometry = make_geom(op["g"]); pc["geometry"] = op["g"]
    elif k == "p_geom_transform":
        p.geometry_transform = T(op["t"]) if op["t"] is not None else None; pc["geometry_transform"] = op["t"]
    elif k == "p_integrator":
        p.integrator = NumericalIntegrator(step=op["step"]); pc["integrator_step"] = op["step"]
    elif k == "p_integrator_step":
        p.integrator.step = op["step"]; pc["integrator_step"] = op["step"]
    elif k == "p_atomic":
        p.atomic_data = s.ad[op["tag"]]; pc["atomic_data"] = op["tag"]
    elif k == "p_models_set":
        s.pmodels = [make_pmodel(m) for m in op["list"]]; p.models.set(s.pmodels); pc["models"] = list(op["list"])
    elif k == "p_models_assign":
        s.pmodels = [make_pmodel(m) for m in op["list"]]; p.models = s.pmodels; pc["models"] = list(op["list"])
    elif k == "p_models_add":
        m = make_pmodel(op["m"]); s.pmodels.append(m); p.models.add(m); pc["models"].append(op["m"])
    elif k == "p_models_clear":
        s.pmodels = []; p.models.clear(); pc["models"] = []
    elif k == "p_transform":
        p.transform = T(op["t"]); pc["transform"] = op["t"]
    elif k == "p_parent":
        p.parent = s.world if op["to"] == "world" else s.node; pc["parent"] = op["to"]
    elif k == "node_transform":
        s.node.transform = T(op["t"]); cfg["node_transform"] = op["t"]
    elif k in ("b_energy", "b_power", "b_temperature", "b_sigma", "b_divergence_x", "b_divergence_y", "b_length"):
        name = k[2:]
        setattr(b, name, op["v"]); bc[name] = op["v"]
    elif k == "b_element":
        b.element = species_obj(op["v"]); bc["element"] = op["v"]
    elif k == "b_atomic":
        b.atomic_data = s.ad[op["tag"]]; bc["atomic_data"] = op["tag"]
    elif k == "b_plasma":
        b.plasma = p
    elif k == "b_attenuator":
        b.attenuator = make_attenuator(op["a"]); bc["attenuator"] = dict(op["a"])
    elif k == "att_step":
        b.attenuator.step = op["v"]; bc["attenuator"]["step"] = op["v"]
    elif k == "att_clamp_sigma":
        b.attenuator.clamp_sigma = op["v"]; bc["attenuator"]["clamp_sigma"] = op["v"]
    elif k == "att_clamp_to_zero":
        b.attenuator.clamp_to_zero = op["v"]; bc["attenuator"]["clamp_to_zero"] = op["v"]
    elif k == "b_integrator":
        b.integrator = NumericalIntegrator(step=op["step"]); bc["integrator_step"] = op["step"]
    elif k == "b_integrator_step":
        b.integrator.step = op["step"]; bc["integrator_step"] = op["step"]
    elif k == "b_models_set":
        s.bmodels = [make_bmodel(m) for m in op["list"]]; b.models.set(s.bmodels); bc["models"] = list(op["list"])
    elif k == "b_models_assign":
        s.bmodels = [make_bmodel(m) for m in op["list"]]; b.models = s.bmodels; bc["models"] = list(op["list"])
    elif k == "b_models_add":
        m = make_bmodel(op["m"]); s.bmodels.append(m); b.models.add(m); bc["models"].append(op["m"])
    elif k == "b_models_clear":
        s.bmodels = []; b.models.clear(); bc["models"] = []
    elif k == "b_transform":
        b.transform = T(op["t"]); bc["transform"] = op["t"]
    elif k == "b_parent":
        b.parent = s.world if op["to"] == "world" else s.node; bc["parent"] = op["to"]
    elif k == "bm_line":
        i = op["i"]
        m = bc["models"][i]
        if m["kind"] == "bes":
            new = dict(m, tr=op["tr"])
            s.bmodels[i].line = Line(species_obj(m["el"]), 0, tuple(op["tr"]))
        else:
            new = dict(m, el=op["el"], q=op["q"], tr=op["tr"])
            s.bmodels[i].line = Line(species_obj(op["el"]), op["q"], tuple(op["tr"]))
        bc["models"][i] = new
    elif k == "pm_gaunt":
        from .mockad import MGaunt
        i = op["i"]
        pc["models"][i] = dict(pc["models"][i], gaunt=op["tag"])
        s.pmodels[i].gaunt_factor = MGaunt(op["tag"]) if op["tag"] else None
    elif k == "pm_quad":
        from cherab.core.math.integrators import GaussianQuadrature
        i = op["i"]
        pc["models"][i] = dict(pc["models"][i], quad=op["v"])
        s.pmodels[i].integrator = GaussianQuadrature(relative_tolerance=op["v"])
    elif k == "l_transform":
        s.laser.transform = T(op["t"]); cfg["laser"]["transform"] = op["t"]
    elif k == "l_parent":
        s.laser.parent = s.world if op["to"] == "world" else s.node; cfg["laser"]["parent"] = op["to"]
    elif k == "l_importance":
        s.laser.importance = op["v"]; cfg["laser"]["importance"] = op["v"]
    elif k == "l_integrator":
        cfg["laser"]["integrator_step"] = op["step"]; s.laser.integrator = NumericalIntegrator(step=op["step"])
    elif k == "l_integrator_step":
        cfg["laser"]["integrator_step"] = op["step"]; s.laser.integrator.step = op["step"]
    elif k == "l_spectrum":
        s.laser.laser_spectrum = make_spectrum(op["sp"]); cfg["laser"]["spectrum"] = dict(op["sp"])
    elif k == "l_profile":
        s.laser.laser_profile = make_profile(op["pr"]); cfg["laser"]["profile"] = dict(op["pr"])
    elif k == "l_models_set":
        s.lmodels = [make_lmodel(m) for m in op["list"]]; s.laser.models = s.lmodels; cfg["laser"]["models"] = list(op["list"])
    elif k == "l_plasma":
        s.laser.plasma = p
    elif k == "lp_set":
        cfg["laser"]["profile"][op["attr"]] = op["v"]; setattr(s.laser.laser_profile, op["attr"], op["v"])
    elif k == "same":
        # re-assign the object that is already attached (a no-op for the configuration)
        w = op["what"]
        if w == "l_profile":
            s.laser.laser_profile = s.laser.laser_profile
        elif w == "l_spectrum":
            s.laser.laser_spectrum = s.laser.laser_spectrum
        elif w == "l_plasma":
            s.laser.plasma = s.laser.plasma
        elif w == "l_integrator":
            s.laser.integrator = s.laser.integrator
        elif w == "l_models":
            s.laser.models = s.laser.models
        elif w == "b_attenuator":
            b.attenuator = b.attenuator
        elif w == "b_plasma":
            b.plasma = b.plasma
        elif w == "b_integrator":
            b.integrator = b.integrator
        elif w == "b_models":
            b.models = list(b.models)
        elif w == "b_element":
            b.element = b.element
        elif w == "p_geometry":
            p.geometry = p.geometry
        elif w == "p_integrator":
            p.integrator = p.integrator
        elif w == "p_electrons":
            p.electron_distribution = p.electron_distribution
        elif w == "p_bfield":
            p.b_field = p.b_field
        elif w == "p_models":
            p.models = list(p.models)
        elif w == "p_composition":
            p.composition = list(p.composition)
        elif w == "p_transform":
            p.transform = p.transform
        else:
            raise ValueError(w)
    elif k == "lp_pol":
        cfg["laser"]["profile"]["pol"] = op["v"]; s.laser.laser_profile.set_polarization(Vector3D(*op["v"]))
    elif k == "ls_set":
        cfg["laser"]["spectrum"][op["attr"]] = op["v"]; setattr(s.laser.laser_spectrum, op["attr"], op["v"])
    else:
        raise ValueError("unknown op %r" % k)


# ------------------------------------------------------------------------------------------------
# observations
# ------------------------------------------------------------------------------------------------

# spectral windows an observation may use: the default, a narrower one with fewer bins, the default range with half the
# bins, the default width shifted (state cached per spectral window must follow the ray that asks)
WINDOWS = [(WL_MIN, WL_MAX, BINS), (480.0, 640.0, 16), (WL_MIN, WL_MAX, 12), (550.0, 850.0, 24)]


def observe(s, probes, win=0):
    """Returns a list of (label, value) where value is a float array or ('exc', ExceptionTypeName)."""
    out = []
    wl_min, wl_max, nbins = WINDOWS[win]
    for i, (o, d) in enumerate(probes["rays"]):
        try:
            ray = Ray(Point3D(*o), Vector3D(*d), min_wavelength=wl_min, max_wavelength=wl_max, bins=nbins)
            sp = ray.trace(s.world)
            out.append(("trace%d" % i, np.array(sp.samples)))
        except Exception as e:  # noqa: the exception type IS the observation
            out.append(("trace%d" % i, ("exc", type(e).__name__, str(e)[:200])))
    if s.beam is not None:
        for j, pt in enumerate(probes["beam_points"]):
            try:
                out.append(("beam_density%d" % j, np.array([s.beam.density(*pt)])))
            except Exception as e:  # noqa
                out.append(("beam_density%d" % j, ("exc", type(e).__name__, str(e)[:200])))
    if getattr(s, "laser", None) is not None:
        try:
            geo = s.laser.get_geometry()
            hs = [float(g.height) for g in geo]
            # placement of every segment in the laser frame (start z from its transform) -> tiling summary
            segs = sorted((float(Point3D(0, 0, 0).transform(g.to(s.laser)).z), float(g.height)) for g in geo if g.parent is s.laser)
            gaps = sum(abs(segs[i + 1][0] - (segs[i][0] + segs[i][1])) for i in range(len(segs) - 1))
            out.append(("laser_geometry", np.array([float(len(geo)), float(sum(hs)), float(max([g.radius for g in geo] or [0.0])),
                                                    float(sum(1 for g in geo if g.parent is s.laser)),
                                                    segs[0][0] if segs else 0.0, (segs[-1][0] + segs[-1][1]) if segs else 0.0, 1.0 + gaps])))
        except Exception as e:  # noqa
            out.append(("laser_geometry", ("exc", type(e).__name__, str(e)[:200])))
    return out


def compare(live, fresh, rtol=1e-9):
    """Returns list of (label, description, magnitude) for observations that differ."""
    diffs = []
    for (la, a), (lb, b) in zip(live, fresh):
        assert la == lb
        ea, eb = isinstance(a, tuple), isinstance(b, tuple)
        if ea or eb:
            if ea and eb:
                if a[1] != b[1]:
                    diffs.append((la, "exception type %s vs fresh %s" % (a[1], b[1]), float("inf")))
            elif ea:
                diffs.append((la, "live raises %s(%s), fresh returns values" % (a[1], a[2]), float("inf")))
            else:
                diffs.append((la, "live returns values, fresh raises %s(%s)" % (b[1], b[2]), float("inf")))
            continue
        scale = max(np.abs(b).max(), np.abs(a).max())
        if scale == 0:
            continue
        err = np.abs(a - b).max() / scale
        if not (err <= rtol):
            diffs.append((la, "max relative difference %.3g (live max %.6g, fresh max %.6g)" % (err, np.abs(a).max(), np.abs(b).max()), float(err)))
    return diffs
