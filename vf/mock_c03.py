"""Recording mock atomic-data provider for C03 (passive emission models).

Every rate handed out is a smooth, strictly positive function of *all* of its arguments,

    rate_key(args) = c_key * prod_i base_i(arg_i) ** a_{i,key},      base_i(x) = x / x0_i   (x > 0)
                                                                                1 + |x| / x0_i (x <= 0)

with (c_key, a_key) derived with sha1 from (provider seed, family, lookup key).  A wrong species, a swapped Z / Z+1,
a wrong density or temperature reaching a coefficient, or a guard that is left to the rate object (the rates stay
positive for non-positive arguments on purpose) all change the observed number.  Every accessor call and every
`evaluate` call is appended to `provider.events`.

The pure formulas (`rate_value`, `gaunt_value`, `wavelength_value`) do not import cherab and are what the oracle in
vf/props/c03.py evaluates; the cherab subclasses are created lazily by `make_provider`.
"""
import hashlib
import math

import numpy as np

# argument normalisations per family: (ne, te[, td])
_X0 = {"exc": (1e19, 100.0), "rec": (1e19, 100.0), "tcx": (1e19, 100.0, 10.0),
       "plt": (1e19, 100.0), "prb": (1e19, 100.0), "prc": (1e19, 100.0)}
_CLOG = {"exc": (-39.5, -37.5), "rec": (-40.5, -38.5), "tcx": (-39.0, -36.5),
         "plt": (-33.5, -31.0), "prb": (-34.5, -32.0), "prc": (-32.5, -30.0)}
_AMAX = {"exc": (0.25, 0.6), "rec": (0.25, 0.6), "tcx": (0.25, 0.6, 0.5),
         "plt": (0.25, 0.6), "prb": (0.25, 0.6), "prc": (0.25, 0.6)}


def _u(seed, *parts):
    """Deterministic uniform numbers in [0, 1) from a key (independent of PYTHONHASHSEED)."""
    h = hashlib.sha1(repr((int(seed),) + tuple(parts)).encode()).digest()
    return [int.from_bytes(h[4 * i:4 * i + 4], "big") / 2.0 ** 32 for i in range(5)]


def norm_key(key):
    """Canonical, JSON-friendly form of a lookup key (element names, ints, transition as string)."""
    out = []
    for k in key:
        if isinstance(k, (tuple, list)):
            out.append("->".join(str(x) for x in k))
        elif isinstance(k, (int, np.integer)):
            out.append(int(k))
        else:
            out.append(str(k))
    return tuple(out)


def rate_params(seed, family, key):
    u = _u(seed, family, norm_key(key))
    lo, hi = _CLOG[family]
    c = 10.0 ** (lo + (hi - lo) * u[0])
    a = tuple((2.0 * u[1 + i] - 1.0) * amax for i, amax in enumerate(_AMAX[family]))
    return c, a


def _base(x, x0):
    return x / x0 if x > 0 else 1.0 + abs(x) / x0


def rate_value(seed, family, key, args, zero=False):
    """Value of the mock coefficient `family`/`key` at `args` (pure; used by the provider and by the oracle)."""
    if zero:
        return 0.0
    c, a = rate_params(seed, family, key)
    v = c
    for x, x0, ai in zip(args, _X0[family], a):
        v *= _base(float(x), x0) ** ai
    return v


def wavelength_value(seed, key):
    u = _u(seed, "wvl", norm_key(key))
    return 200.0 + 700.0 * u[0]


def gaunt_params(seed):
    u = _u(seed, "gaunt")
    return 0.8 + 1.5 * u[0], 0.1 + 0.3 * u[1], 0.05 + 0.15 * u[2], 0.02 + 0.1 * u[3]


def gaunt_value(seed, z, te, wvl):
    """Mock free-free Gaunt factor: positive, smooth, depends on Z, Te and wavelength (numpy-vectorised in wvl)."""
    g0, aw, at, az = gaunt_params(seed)
    te_b = te / 100.0 if te > 0 else 1.0 + abs(te) / 100.0
    return g0 * (1.0 + aw * np.tanh(np.log10(np.asarray(wvl, dtype=float) / 500.0))) * te_b ** at * (1.0 + az * z)


def make_provider(seed, zero_keys=(), real_gaunt=False):
    """Build the recording provider (imports cherab lazily). `zero_keys` = iterable of (family, normalised key) whose
    coefficient is identically zero.  With `real_gaunt` the base-class free_free_gaunt_factor() is kept."""
    from cherab.core.atomic import (AtomicData, ImpactExcitationPEC, RecombinationPEC, ThermalCXPEC,
                                    LineRadiationPower, ContinuumPower, CXRadiationPower, FreeFreeGauntFactor)
    zero = set((f, tuple(k)) for f, k in zero_keys)
    events = []

    def _mk(base, family, nargs):
        class _Rate(base):
            def __init__(self, key):
                self.key = norm_key(key)
                self.zero = (family, self.key) in zero
                self.family = family

            if nargs == 2:
                def evaluate(self, a, b):
                    events.append(("eval", family, self.key, (a, b)))
                    return rate_value(seed, family, self.key, (a, b), self.zero)
            else:
                def evaluate(self, a, b, c):
                    events.append(("eval", family, self.key, (a, b, c)))
                    return rate_value(seed, family, self.key, (a, b, c), self.zero)
        _Rate.__name__ = "Mock_" + family
        return _Rate

    Exc = _mk(ImpactExcitationPEC, "exc", 2)
    Rec = _mk(RecombinationPEC, "rec", 2)
    Tcx = _mk(ThermalCXPEC, "tcx", 3)
    Plt = _mk(LineRadiationPower, "plt", 2)
    Prb = _mk(ContinuumPower, "prb", 2)
    Prc = _mk(CXRadiationPower, "prc", 2)

    class MockGaunt(FreeFreeGauntFactor):
        def evaluate(self, z, te, wvl):
            events.append(("eval", "gaunt", (), (z, te, wvl)))
            return float(gaunt_value(seed, z, te, wvl))

    class Provider(AtomicData):
        def __init__(self):
            self.events = events
            self.seed = seed

        def wavelength(self, ion, charge, transition):
            k = norm_key((ion.name, charge, transition))
            events.append(("access", "wvl", k))
            return wavelength_value(seed, k)

        def impact_excitation_pec(self, ion, charge, transition):
            k = (ion.name, charge, transition)
            events.append(("access", "exc", norm_key(k)))
            return Exc(k)

        def recombination_pec(self, ion, charge, transition):
            k = (ion.name, charge, transition)
            events.append(("access", "rec", norm_key(k)))
            return Rec(k)

        def thermal_cx_pec(self, donor_ion, donor_charge, receiver_ion, receiver_charge, transition):
            # the coefficient deliberately does not depend on receiver_charge (the property does not fix that
            # convention); the received value is recorded and judged by its own monitor
            k = (donor_ion.name, donor_charge, receiver_ion.name, transition)
            events.append(("access", "tcx", norm_key(k), int(receiver_charge)))
            return Tcx(k)

        def line_radiated_power_rate(self, element, charge):
            k = (element.name, charge)
            events.append(("access", "plt", norm_key(k)))
            return Plt(k)

        def continuum_radiated_power_rate(self, element, charge):
            k = (element.name, charge)
            events.append(("access", "prb", norm_key(k)))
            return Prb(k)

        def cx_radiated_power_rate(self, element, charge):
            k = (element.name, charge)
            events.append(("access", "prc", norm_key(k)))
            return Prc(k)

        if not real_gaunt:
            def free_free_gaunt_factor(self):
                events.append(("access", "gaunt", ()))
                return MockGaunt()

    p = Provider()
    p.MockGaunt = MockGaunt
    return p
