"""Independent reference mathematics for C02 (line-shape normalisation).  Imports nothing from cherab.

Everything is derived from the *documented* physics of the line-shape classes:

  Doppler shift           lambda (1 + v.d/c)
  thermal width           sigma = sqrt(T e / (A m_u)) lambda_0 / c
  Zeeman triplet          pi at lambda_0 (weight 1/2 sin^2), sigma+- at hc/(hc/lambda_0 -+ mu_B B) (1/4 sin^2 + 1/2 cos^2 each)
  parametrised triplet    lambda_0 +- alpha B / 2, sigma sqrt(1 + beta^2 T^(2 gamma))
  Zeeman multiplet        ZeemanStructure ratios renormalised per polarisation (when their sum is positive)
  Stark (Lomanowski)      eta L(FWHM_V) + (1 - eta) G(FWHM_V) per Zeeman component; L truncated/normalised on +-50 FWHM
  MSE multiplet           d = 1/(1 + s/p); sigma0, sigma1(+-1), pi2, pi3, pi4 (+-2, 3, 4) x 2.77e-8 |v x B|

A profile is a list of components (kind, centre, width, weight): kind 'G' (width = standard deviation) or 'L'
(width = FWHM of the modified Lorentzian).  Bin integrals are closed form (erf / erfc for 'G', the primitive of
1/(1 + t^(5/2)) evaluated by its two power series + Gauss-Legendre in between for 'L').
"""
import math

import numpy as np
from scipy.special import erf, erfc

# CODATA 2018 (the set the line-shape code documents in cherab/core/utility/constants.pyx)
ATOMIC_MASS = 1.66053906660e-27
ELEMENTARY_CHARGE = 1.602176634e-19
SPEED_OF_LIGHT = 299792458.0
PLANCK = 6.62607015e-34
HC_EV_NM = PLANCK * SPEED_OF_LIGHT / ELEMENTARY_CHARGE * 1e9
BOHR_MAGNETON_EV_T = 5.7883818060e-5          # CODATA 2018: 5.788 381 8060(17) e-5 eV/T
SIGMA2FWHM = 2.0 * math.sqrt(2.0 * math.log(2.0))
STARK_SPLITTING_FACTOR = 2.77e-8               # documented constant of BeamEmissionMultiplet
LORENTZIAN_CUTOFF = 50.0                       # documented truncation R of the modified Lorentzian (in FWHM)
GAUSSIAN_CUTOFF = 10.0

FWHM_A = [1., 0.15882, 1.04388, -1.38281, 0.46251, 0.82325, -0.58026]   # powers of L/G, for L/G <= 1
FWHM_B = [1., 0, 0.57575, 0.37902, -0.42519, -0.31525, 0.31718]          # powers of G/L, for L/G > 1
ETA_C = [5.14820e-04, 1.38821e+00, -9.60424e-02, -3.83995e-02, -7.40042e-03, -5.47626e-04]


# ------------------------------------------------------------------------------------------------------------
# primitive of the modified Lorentzian:  G(u) = int_0^u dt / (1 + t^(5/2))
# ------------------------------------------------------------------------------------------------------------
G_INF = (math.pi / 2.5) / math.sin(math.pi / 2.5)        # int_0^inf dt/(1+t^p) = (pi/p)/sin(pi/p)
_U_LO, _U_HI = 0.7, 1.45
_GL_X, _GL_W = np.polynomial.legendre.leggauss(48)
_K = np.arange(0, 70)


def _g_small(u):
    u = np.asarray(u, dtype=float)
    t = u[..., None]
    terms = ((-1.0) ** _K) * t ** (2.5 * _K + 1.0) / (2.5 * _K + 1.0)
    return terms.sum(axis=-1)


def _tail_large(u):
    """T(u) = int_u^inf dt/(1+t^2.5) for u >= _U_HI."""
    u = np.asarray(u, dtype=float)
    t = u[..., None]
    terms = ((-1.0) ** _K) * t ** (-(2.5 * _K + 1.5)) / (2.5 * _K + 1.5)
    return terms.sum(axis=-1)


_G_LO = float(_g_small(np.array(_U_LO)))


def lorentz_G(u):
    """G(u) for u >= 0 (vectorised)."""
    u = np.atleast_1d(np.asarray(u, dtype=float))
    out = np.empty_like(u)
    lo = u <= _U_LO
    hi = u >= _U_HI
    mid = ~(lo | hi)
    if lo.any():
        out[lo] = _g_small(u[lo])
    if hi.any():
        out[hi] = G_INF - _tail_large(u[hi])
    if mid.any():
        um = u[mid]
        c = 0.5 * (um + _U_LO)
        d = 0.5 * (um - _U_LO)
        x = c[:, None] + d[:, None] * _GL_X[None, :]
        out[mid] = _G_LO + d * (_GL_W[None, :] / (1.0 + x ** 2.5)).sum(axis=1)
    return out


G_CUT = float(lorentz_G(2.0 * LORENTZIAN_CUTOFF)[0])     # normalisation: 2 G(2R) N h^-1.5 = 1
LORENTZ_TAIL = (G_INF - G_CUT) / G_CUT                   # relative mass of the untruncated profile outside +-R FWHM


def lorentz_primitive(x, centre, fwhm, truncated):
    """int_{centre}^{x} L dx  for the Lorentzian normalised on +-R FWHM (optionally also truncated there)."""
    h = 0.5 * fwhm
    dx = np.asarray(x, dtype=float) - centre
    if truncated:
        dx = np.clip(dx, -LORENTZIAN_CUTOFF * fwhm, LORENTZIAN_CUTOFF * fwhm)
    return np.sign(dx) * lorentz_G(np.abs(dx) / h).reshape(np.shape(dx)) / (2.0 * G_CUT)


def gauss_interval(a, b, centre, sigma):
    """int_a^b of the unit normal density N(centre, sigma) -- accurate in both tails (a <= b, vectorised)."""
    s = 1.0 / (math.sqrt(2.0) * sigma)
    za = (np.asarray(a, dtype=float) - centre) * s
    zb = (np.asarray(b, dtype=float) - centre) * s
    za, zb = np.broadcast_arrays(za, zb)
    out = np.empty(za.shape)
    pos = za >= 0
    neg = zb <= 0
    mid = ~(pos | neg)
    out[pos] = 0.5 * (erfc(za[pos]) - erfc(zb[pos]))
    out[neg] = 0.5 * (erfc(-zb[neg]) - erfc(-za[neg]))
    out[mid] = 0.5 * (erf(zb[mid]) - erf(za[mid]))
    return out


def bin_edges(lo, hi, bins):
    """Bin edges exactly as a raysect Spectrum defines them: min + delta * i, delta = (max - min) / bins."""
    delta = (hi - lo) / bins
    return lo + delta * np.arange(bins + 1), delta


# ------------------------------------------------------------------------------------------------------------
# documented physics
# ------------------------------------------------------------------------------------------------------------

def unit(v):
    v = np.asarray(v, dtype=float)
    return v / math.sqrt(float(v @ v))


def doppler(wavelength, direction, velocity):
    return wavelength * (1.0 + float(np.dot(velocity, unit(direction))) / SPEED_OF_LIGHT)


def thermal_sigma(wavelength, temperature, atomic_weight):
    return math.sqrt(temperature * ELEMENTARY_CHARGE / (atomic_weight * ATOMIC_MASS)) * wavelength / SPEED_OF_LIGHT


def zeeman_weights(b, direction, polarisation):
    """(w_pi, w_sigma_each, b_magn): documented angular weights; B = 0 -> unsplit line (w_pi carries everything)."""
    b = np.asarray(b, dtype=float)
    bm = math.sqrt(float(b @ b))
    if bm == 0.0:
        return (1.0 if polarisation == "no" else 0.5), 0.0, 0.0
    cos2 = (float(b @ unit(direction)) / bm) ** 2
    sin2 = 1.0 - cos2
    wp = 0.5 * sin2 if polarisation != "sigma" else 0.0
    ws = (0.25 * sin2 + 0.5 * cos2) if polarisation != "pi" else 0.0
    return wp, ws, bm


def stark_parameters(cij, aij, bij, ne, te, fwhm_gauss):
    """(fwhm_full, eta, boundary_distance) from the documented fits; fwhm_gauss = 0 for a width-less Doppler part.
    boundary_distance = smallest relative distance of a branch selector from its switching point."""
    fl = cij * ne ** aij / te ** bij if (ne > 0 and te > 0) else 0.0
    fg = fwhm_gauss
    if fl == 0.0 and fg == 0.0:
        return 0.0, 0.0, 1.0, fl
    dist = 1.0
    if fl > 0 and fg > 0:
        dist = min(dist, abs(fl / fg - 1.0))
    if fg <= fl:                     # L/G >= 1 (at equality the two documented fits differ; such cases are skipped)
        r = fg / fl
        full = fl * sum(c * r ** n for n, c in enumerate(FWHM_B))
    else:
        r = fl / fg
        full = fg * sum(c * r ** n for n, c in enumerate(FWHM_A))
    q = fl / full
    dist = min(dist, abs(q / 0.01 - 1.0), abs(q / 0.999 - 1.0))
    if q < 0.01:
        eta = 0.0
    elif q > 0.999:
        eta = 1.0
    else:
        lq = math.log(q)
        eta = math.exp(sum(c * lq ** n for n, c in enumerate(ETA_C)))
    return full, eta, dist, fl


def pseudo_voigt(centre, weight, fwhm_full, eta):
    out = []
    if eta < 1.0:
        out.append(("G", centre, fwhm_full / SIGMA2FWHM, weight * (1.0 - eta)))
    if eta > 0.0:
        out.append(("L", centre, fwhm_full, weight * eta))
    return out


def mse_components(wavelength, energy_ev_amu, beam_dir, obs_dir, b, sigma_to_pi, s1_to_s0, pi2_to_pi3, pi4_to_pi3):
    """[(centre, weight)] of the nine documented MSE components."""
    speed = math.sqrt(2.0 * energy_ev_amu * ELEMENTARY_CHARGE / ATOMIC_MASS)
    v = unit(beam_dir) * speed
    e = np.cross(v, np.asarray(b, dtype=float))
    split = STARK_SPLITTING_FACTOR * math.sqrt(float(e @ e))
    centre = doppler(wavelength, obs_dir, v)
    d = 1.0 / (1.0 + sigma_to_pi)
    w_sigma = sigma_to_pi * d           # all sigma lines together
    w_pi = d                            # all pi lines together
    s0 = 1.0 / (1.0 + s1_to_s0)         # s0 + 2 s1 = 1
    s1 = 0.5 * s1_to_s0 * s0
    p3 = 0.5 / (1.0 + pi2_to_pi3 + pi4_to_pi3)   # 2 (p2 + p3 + p4) = 1
    p2 = pi2_to_pi3 * p3
    p4 = pi4_to_pi3 * p3
    comps = [(centre, w_sigma * s0), (centre + split, w_sigma * s1), (centre - split, w_sigma * s1)]
    for k, p in ((2, p2), (3, p3), (4, p4)):
        comps.append((centre + k * split, w_pi * p))
        comps.append((centre - k * split, w_pi * p))
    return comps, split


# ------------------------------------------------------------------------------------------------------------
# profile -> bins
# ------------------------------------------------------------------------------------------------------------

def bin_profile(components, lo, hi, bins):
    """Bin averages (per unit radiance) of a profile.  Returns dict with
         gauss      : Gaussian part, exact
         lor_trunc  : Lorentzian part with each component truncated at +-R FWHM (the documented profile)
         lor_full   : Lorentzian part not truncated (what integrating the un-truncated function per bin gives)
         frac_gauss / frac_lor_trunc / frac_lor_full : window totals computed from the window edges only."""
    edges, delta = bin_edges(lo, hi, bins)
    g = np.zeros(bins)
    lt = np.zeros(bins)
    lf = np.zeros(bins)
    fg = flt = flf = 0.0
    for kind, centre, width, weight in components:
        if weight == 0.0:
            continue
        if kind == "G":
            g += weight * gauss_interval(edges[:-1], edges[1:], centre, width)
            fg += weight * float(gauss_interval(np.array([edges[0]]), np.array([edges[-1]]), centre, width)[0])
        else:
            pt = lorentz_primitive(edges, centre, width, True)
            pf = lorentz_primitive(edges, centre, width, False)
            lt += weight * np.diff(pt)
            lf += weight * np.diff(pf)
            flt += weight * float(pt[-1] - pt[0])
            flf += weight * float(pf[-1] - pf[0])
    return dict(gauss=g / delta, lor_trunc=lt / delta, lor_full=lf / delta, delta=delta, edges=edges,
                frac_gauss=fg, frac_lor_trunc=flt, frac_lor_full=flf)


def self_check():
    """Verify the Lorentzian primitive against mpmath quadrature (run once per worker); returns max abs error."""
    import mpmath
    worst = 0.0
    for u in (1e-3, 0.2, 0.69, 0.71, 0.95, 1.0, 1.2, 1.44, 1.46, 3.0, 17.0, 100.0, 5000.0):
        pts = [0, min(u, 1.0), u] if u > 1.0 else [0, u]
        ref = mpmath.quad(lambda t: 1 / (1 + t ** mpmath.mpf(2.5)), pts)
        worst = max(worst, abs(float(lorentz_G(u)[0]) - float(ref)))
    ref_inf = mpmath.quad(lambda t: 1 / (1 + t ** mpmath.mpf(2.5)), [0, 1, 10, mpmath.inf])
    worst = max(worst, abs(G_INF - float(ref_inf)))
    return worst
