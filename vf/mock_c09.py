"""MOCKAD for C09 — recording mock atomic-data provider with arbitrary positive, smooth rate functions.

Every rate is  c * (n_e/1e19)^a * (T_e/100)^b  with (c, a, b) derived deterministically (SHA-1) from the lookup key
(kind, species name(s), charge(s)) and a per-case integer `salt`, c log-uniform over six decades [1e-19, 1e-13] m^3/s.
A wrong species, a swapped charge, swapped donor/receiver, swapped (n_e, T_e) or a rate of the wrong kind all change
the number.  `rate_value` is the pure-Python reference used by the oracle; it does not import cherab.  The cherab-facing
classes (MockAtomicData and the three rate subclasses) are created lazily by `make_atomic_data` so that importing this
module never imports cherab (the framework must redirect `cherab` to scratch copies first).
"""
import hashlib
import math
import struct

DECADES = 6.0
C_LOW = -19.0


def _u(kind, key, salt, n):
    """n deterministic uniforms in [0,1) from the key."""
    s = repr((kind, tuple(key), int(salt))).encode()
    out = []
    i = 0
    while len(out) < n:
        h = hashlib.sha1(s + b"#%d" % i).digest()
        for j in range(0, 16, 8):
            out.append(struct.unpack(">Q", h[j:j + 8])[0] / 2.0 ** 64)
        i += 1
    return out[:n]


def rate_params(kind, key, salt, decades=DECADES):
    u = _u(kind, key, salt, 3)
    logc = C_LOW + decades * u[0] + (6.0 - decades) / 2.0
    a = -0.3 + 0.6 * u[1]
    b = -1.5 + 3.0 * u[2]
    return logc, a, b


def rate_value(kind, key, salt, ne, te, decades=DECADES):
    """kind in {'ion','rec','tcx'}; key = (element_name, charge) or (donor_name, donor_charge, receiver_name, charge)."""
    logc, a, b = rate_params(kind, key, salt, decades)
    return 10.0 ** logc * (ne / 1e19) ** a * (te / 100.0) ** b


def log_rate_value(kind, key, salt, ne, te, decades=DECADES):
    logc, a, b = rate_params(kind, key, salt, decades)
    return logc * math.log(10.0) + a * math.log(ne / 1e19) + b * math.log(te / 100.0)


_CLASSES = {}


def _build_classes():
    if _CLASSES:
        return _CLASSES
    from cherab.core import AtomicData
    from cherab.core.atomic.rates import IonisationRate, RecombinationRate, ThermalCXRate

    def mk(base, kind):
        class _Rate(base):
            def __init__(self, key, owner):
                self.key = key
                self.owner = owner
                self.kind = kind

            def evaluate(self, density, temperature):
                self.owner.n_eval += 1
                self.owner.last_args[(self.kind,) + tuple(self.key)] = (density, temperature)
                return rate_value(self.kind, self.key, self.owner.salt, density, temperature, self.owner.decades)
        _Rate.__name__ = "Mock" + base.__name__
        return _Rate

    MI, MR, MC = mk(IonisationRate, "ion"), mk(RecombinationRate, "rec"), mk(ThermalCXRate, "tcx")

    class MockAtomicData(AtomicData):
        def __init__(self, salt, decades=DECADES):
            super().__init__()
            self.salt = int(salt)
            self.decades = float(decades)
            self.events = []
            self.n_eval = 0
            self.last_args = {}

        def ionisation_rate(self, ion, charge):
            self.events.append(("ionisation_rate", ion.name, int(charge)))
            return MI((ion.name, int(charge)), self)

        def recombination_rate(self, ion, charge):
            self.events.append(("recombination_rate", ion.name, int(charge)))
            return MR((ion.name, int(charge)), self)

        def thermal_cx_rate(self, donor_ion, donor_charge, receiver_ion, receiver_charge):
            self.events.append(("thermal_cx_rate", donor_ion.name, int(donor_charge), receiver_ion.name, int(receiver_charge)))
            return MC((donor_ion.name, int(donor_charge), receiver_ion.name, int(receiver_charge)), self)

    _CLASSES.update(MockAtomicData=MockAtomicData, MI=MI, MR=MR, MC=MC)
    return _CLASSES


def make_atomic_data(salt, decades=DECADES):
    return _build_classes()["MockAtomicData"](salt, decades)


def exact_fractions(element_name, Z, salt, ne, te, donor=None, nd=0.0, decades=DECADES):
    """Exact steady-state solution by the two-term recurrence, in log space (no overflow for any positive rates).

    donor = (donor_name, donor_charge) or None.  Returns (fractions[0..Z], S[0..Z-1], R[1..Z] as list index z-1)
    """
    logr = [0.0]
    S, R = [], []
    for z in range(Z):
        s = rate_value("ion", (element_name, z), salt, ne, te, decades)
        r = rate_value("rec", (element_name, z + 1), salt, ne, te, decades)
        if donor is not None:
            r = r + (nd / ne) * rate_value("tcx", (donor[0], int(donor[1]), element_name, z + 1), salt, ne, te, decades)
        S.append(s)
        R.append(r)
        logr.append(logr[-1] + math.log(s) - math.log(r))
    m = max(logr)
    w = [math.exp(x - m) for x in logr]
    tot = math.fsum(w)
    return [x / tot for x in w], S, R
