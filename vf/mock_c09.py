"""MOCKAD for C09 — recording mock atomic-data provider with arbitrary positive, smooth rate functions.

Every rate is  c * (n_e/1e19)^a * (T_e/100)^b  with (c, a, b) derived deterministically (SHA-1) from the lookup key
(kind, species name(s), charge(s)) and the per-case parameter triple  par = (salt, decades, logc_mid):
log10 c is uniform in [logc_mid - decades/2, logc_mid + decades/2], a in [-0.2, 0.2], b in [-1, 1].
A wrong species, a swapped charge, swapped donor/receiver, swapped (n_e, T_e) or a rate of the wrong kind all change
the number.  `rate_value` / `exact_fractions` are the pure-Python reference used by the oracle; nothing at module level
imports cherab (the framework must redirect `cherab` to scratch copies first): the cherab-facing classes are created
lazily by `make_atomic_data`.
"""
import functools
import hashlib
import math
import struct


def _u(kind, key, salt, n):
    """n deterministic uniforms in [0,1) from the key."""
    s = repr((kind, tuple(key), int(salt))).encode()
    out = []
    i = 0
    while len(out) < n:
        h = hashlib.sha1(s + b"#%d" % i).digest()
        for j in range(0, 16, 8):
            out.append(struct.unpack(">Q", h[j:j + 8])[0] / 2.0 ** 64)
        i += 1
    return out[:n]


@functools.lru_cache(maxsize=4096)
def rate_params(kind, key, par):
    salt, decades, logc_mid = par
    u = _u(kind, key, salt, 3)
    logc = logc_mid + decades * (u[0] - 0.5)
    a = -0.2 + 0.4 * u[1]
    b = -1.0 + 2.0 * u[2]
    return logc, a, b


def rate_value(kind, key, par, ne, te):
    """kind in {'ion','rec','tcx'}; key = (element_name, charge) or (donor_name, donor_charge, receiver_name, charge)."""
    logc, a, b = rate_params(kind, tuple(key), tuple(par))
    return 10.0 ** logc * (ne / 1e19) ** a * (te / 100.0) ** b


_CLASSES = {}


def _build_classes():
    if _CLASSES:
        return _CLASSES
    from cherab.core import AtomicData
    from cherab.core.atomic.rates import IonisationRate, RecombinationRate, ThermalCXRate

    def mk(base, kind):
        class _Rate(base):
            def __init__(self, key, owner):
                self.key = key
                self.owner = owner
                self.kind = kind

            def evaluate(self, density, temperature):
                self.owner.n_eval += 1
                return rate_value(self.kind, self.key, self.owner.par, density, temperature)
        _Rate.__name__ = "Mock" + base.__name__
        return _Rate

    MI, MR, MC = mk(IonisationRate, "ion"), mk(RecombinationRate, "rec"), mk(ThermalCXRate, "tcx")

    class MockAtomicData(AtomicData):
        def __init__(self, par):
            super().__init__()
            self.par = (int(par[0]), float(par[1]), float(par[2]))
            self.events = []
            self.n_eval = 0

        def ionisation_rate(self, ion, charge):
            self.events.append(("ionisation_rate", ion.name, int(charge)))
            return MI((ion.name, int(charge)), self)

        def recombination_rate(self, ion, charge):
            self.events.append(("recombination_rate", ion.name, int(charge)))
            return MR((ion.name, int(charge)), self)

        def thermal_cx_rate(self, donor_ion, donor_charge, receiver_ion, receiver_charge):
            self.events.append(("thermal_cx_rate", donor_ion.name, int(donor_charge), receiver_ion.name, int(receiver_charge)))
            return MC((donor_ion.name, int(donor_charge), receiver_ion.name, int(receiver_charge)), self)

    _CLASSES.update(MockAtomicData=MockAtomicData, MI=MI, MR=MR, MC=MC)
    return _CLASSES


def make_atomic_data(par):
    return _build_classes()["MockAtomicData"](par)


def exact_fractions(element_name, Z, par, ne, te, donor=None, nd=0.0):
    """Exact steady-state solution by the two-term recurrence f_{z+1} = f_z S_z / R_{z+1}, in log space
    (no overflow / underflow for any positive rates).  donor = (donor_name, donor_charge) or None.
    Returns (fractions[0..Z], S[z] for z=0..Z-1, R[z] = alpha_{z+1} + (nd/ne) C_{z+1} for z=0..Z-1)."""
    logr = [0.0]
    S, R = [], []
    for z in range(Z):
        s = rate_value("ion", (element_name, z), par, ne, te)
        r = rate_value("rec", (element_name, z + 1), par, ne, te)
        if donor is not None:
            r = r + (nd / ne) * rate_value("tcx", (donor[0], int(donor[1]), element_name, z + 1), par, ne, te)
        S.append(s)
        R.append(r)
        logr.append(logr[-1] + math.log(s) - math.log(r))
    m = max(logr)
    w = [math.exp(x - m) for x in logr]
    tot = math.fsum(w)
    return [x / tot for x in w], S, R
