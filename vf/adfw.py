"""ADFW — independent writers of ADAS ADF11 / ADF12 / ADF15 / ADF21 / ADF22 text files.

Written from the published Fortran record layouts of the ADAS data formats (the READ statements and FORMATs of
xxdata_11 / xxdata_12 / xxdata_15 / xxdata_21 / xxdata_22 and the comment tables ADAS208/ADAS810 print), NOT by
inverting cherab's parsers.  No cherab import here.

Record layouts used
-------------------
ADF11   line 1   (5I5,5X,'/',A19,'/GCR PROJECT')      IZMAX IDMAXD ITMAXD IZ1MIN IZ1MAX /ELEMENT NAME /GCR PROJECT
        dashes; [resolved files only: (16I5) metastable counts per charge state; dashes]
        (8F10.5)  log10 Ne[cm-3], IDMAXD values, 8 per record
        (8F10.5)  log10 Te[eV],   ITMAXD values, new record
        per Z1:   '-----…/ IPRT= 1  / IGRD= 1  /--------/ Z1=%2d   / DATE= dd/mm/yy'
                  for IT=1..ITMAXD:  (8F10.5) log10 coeff[cm3 s-1 | W cm3] for ID=1..IDMAXD   (new record per IT)
        'C-----…' + comment lines
ADF12   line 1   (I5) NBSEL
        per block: A80 text line carrying CTRANS (C*7, 'N=%2d-%2d') in columns 37-43
                  (1E10.2) QEFREF; (5E10.2) EBREF TIREF NIREF ZEREF BREF; (5I10) NENER NTEMP NDENS NZEFF NBMAG
                  ENER(24) QENER(24) TIEV(12) QTIEV(12) DENSI(24) QDENSI(24) ZEFF(12) QZEFF(12) BMAG(12) QBMAG(12)
                  all (6E10.2) — fixed-length sections, unused entries zero, optional ':NAME' label after column 60
ADF15   line 1   (I5,4X,'/',A,'/')  NSEL  /ION PHOTON EMISSIVITY COEFFICIENTS/
        per block: (F8.1,' A',2I5,' /FILMEM = ',A8,'/TYPE = ',A5,' /INDM = T/ISEL = ',I4)   wavelength[A] NDENS NTE
                  (8E9.2) Ne[cm-3]; (8E9.2) Te[eV]; for ID=1..NDENS: (8E9.2) PEC[cm3 s-1] for IT=1..NTE
        comment section with (full style only) the configuration table and the ISEL index table; the index rows may be
        printed in groups separated by empty comment lines / rulers / free-text comment lines, in any group order
ADF21/22 line 1  (I5,' /SVREF=',1PE9.3,' /SPEC=',A2,' /DATE=',A8,' /CODE=',A)
        dashes; (2I5,' /TREF=',1PE9.3)  NBE NDENS; dashes; (8(1X,1PE9.3)) EB[eV/amu]; same: DENS[cm-3]; dashes;
        for ID=1..NDENS: (8(1X,1PE9.3)) SV(IE,ID), IE=1..NBE; dashes; (I5,' /EREF=',1PE9.3,' /NREF=',1PE9.3) NTT;
        dashes; TT[eV]; dashes; SVT; dashes + comments

Ground truth = the decimal text of each emitted field (`truth` holds float(Decimal(field))), never the value the
generator intended.  All truth values are in FILE units/notation (log10, cm-3, cm3, Angstrom).
"""
from decimal import Decimal

DASH80 = "-" * 80


def dec(field):
    """Exact decimal value of a Fortran numeric field (D exponents allowed)."""
    return Decimal(field.strip().replace("D", "E").replace("d", "e"))


def val(field):
    return float(dec(field))


# ------------------------------------------------------------------------------------------------
# field formatters (Fortran edit descriptors)
# ------------------------------------------------------------------------------------------------

def fF(v, w, d):
    s = "%*.*f" % (w, d, v)
    if len(s) != w:
        raise ValueError("F%d.%d overflow for %r" % (w, d, v))
    return s


def fE(v, w, d, expchar="E"):
    """1PEw.d (one digit before the point)."""
    s = ("%.*E" % (d, v)).replace("E", expchar)
    if len(s) > w:
        raise ValueError("E%d.%d overflow for %r" % (w, d, v))
    return s.rjust(w)


def fI(v, w):
    s = "%*d" % (w, int(v))
    if len(s) != w:
        raise ValueError("I%d overflow for %r" % (w, v))
    return s


def records(values, fmt, per_line):
    """One Fortran READ list: `per_line` fields per record; returns (lines, truth list)."""
    fields = [fmt(v) for v in values]
    lines = ["".join(fields[i:i + per_line]) for i in range(0, len(fields), per_line)]
    return lines, [val(f) for f in fields]


# ------------------------------------------------------------------------------------------------
# ADF11
# ------------------------------------------------------------------------------------------------

def write_adf11(name, z_nuclear, z1_list, log_ne, log_te, blocks, resolved=False, z1_declared=None,
                header_order="iprt", n_comment=3, date="18/11/01", metastables=None, block_list=None, end_blank=0):
    """
    :param name: element name printed in the header (upper-cased here)
    :param z1_list: Z1 labels of the blocks actually written
    :param blocks: {z1: 2-D sequence [it][id]} log10 coefficients
    :param z1_declared: (IZ1MIN, IZ1MAX) printed in line 1 (default: min/max of z1_list)
    :param metastables: resolved files: numbers of metastables of the charge states IZ1MIN-1 .. IZ1MAX (default: all 1)
    :param block_list: resolved files with several blocks per charge state: list of dict(z1, iprt, igrd, rows[it][id]) in
                       file order (replaces z1_list / blocks)
    :return: text, truth{ne, te, blocks{z1: list[it][id]} (last block of each z1), multi{z1: [list[it][id], ...]}}
    """
    nd, nt = len(log_ne), len(log_te)
    if block_list is None:
        block_list = [dict(z1=z1, iprt=1, igrd=1, rows=blocks[z1]) for z1 in z1_list]
    z1_list = [b["z1"] for b in block_list]
    zmin, zmax = z1_declared if z1_declared else (min(z1_list), max(z1_list))
    out = [fI(z_nuclear, 5) + fI(nd, 5) + fI(nt, 5) + fI(zmin, 5) + fI(zmax, 5) + "     /" + name.upper().ljust(19)
           + "/GCR PROJECT        ", DASH80]
    if resolved:
        # number of metastables of each charge state IZ1MIN-1 .. IZ1MAX: one each
        counts = list(metastables) if metastables else [1] * (zmax - zmin + 2)
        # one record; files with more than 16 entries (not known among ADAS resolved files, which stop at neon) are
        # written as one long record as well: a wrapped second record is refused by the anchored parser
        out.append("".join(fI(c, 5) for c in counts))
        out.append(DASH80)
    f = lambda v: fF(v, 10, 5)
    l, t_ne = records(log_ne, f, 8)
    out += l
    l, t_te = records(log_te, f, 8)
    out += l
    tb, multi = {}, {}
    for b in block_list:
        z1 = b["z1"]
        if header_order == "iprt":
            h = "-" * 20 + "/ IPRT=%2d  / IGRD=%2d  /--------/ Z1=%2d   / DATE= %s" % (b["iprt"], b["igrd"], z1, date)
        else:
            h = "-" * 21 + "/ IGRD=%2d  / IPRT=%2d  /--------/ Z1=%2d   / DATE= %s" % (b["igrd"], b["iprt"], z1, date)
        out.append(h)
        rows = []
        for it in range(nt):
            l, t = records(b["rows"][it], f, 8)
            out += l
            rows.append(t)
        tb[z1] = rows
        multi.setdefault(z1, []).append(rows)
    out.append("C" + "-" * 79)
    out.append("C")
    for k in range(n_comment):
        out.append("C  EFFECTIVE COEFFICIENTS, GENERALISED COLLISIONAL-RADIATIVE: COMMENT LINE %d" % (k + 1))
    out.append("C")
    out.append("C" + "-" * 79)
    out += [""] * end_blank
    return "\n".join(out) + "\n", dict(ne=t_ne, te=t_te, blocks=tb, multi=multi)


# ------------------------------------------------------------------------------------------------
# ADF21 / ADF22
# ------------------------------------------------------------------------------------------------

def write_adf2x(zt, spec, svref, tref, eb, dens, sv, eref, nref, tt, svt, code="ADAS310", date="17/10/97",
                n_comment=3, trailer="full", end_blank=0):
    """
    :param sv: 2-D sequence [id][ie]  (one READ list of NBE energies per density)
    :return: text, truth{zt, svref, tref, eb, dens, sv[id][ie], eref, nref, tt, svt}
    """
    f = lambda v: " " + fE(v, 9, 3)
    e93 = lambda v: fE(v, 9, 3)
    nbe, nd, ntt = len(eb), len(dens), len(tt)
    s_svref, s_tref, s_eref, s_nref = e93(svref), e93(tref), e93(eref), e93(nref)
    out = [fI(zt, 5) + " /SVREF=" + s_svref + " /SPEC=" + spec.ljust(2)[:2] + " /DATE=" + date + " /CODE=" + code,
           DASH80,
           fI(nbe, 5) + fI(nd, 5) + " /TREF=" + s_tref,
           DASH80]
    l, t_eb = records(eb, f, 8)
    out += l
    l, t_d = records(dens, f, 8)
    out += l
    out.append(DASH80)
    t_sv = []
    for i in range(nd):
        l, t = records(sv[i], f, 8)
        out += l
        t_sv.append(t)
    out.append(DASH80)
    out.append(fI(ntt, 5) + " /EREF=" + s_eref + " /NREF=" + s_nref)
    out.append(DASH80)
    l, t_tt = records(tt, f, 8)
    out += l
    out.append(DASH80)
    l, t_svt = records(svt, f, 8)
    out += l
    if trailer != "none":          # 'none': the file ends with the last data record
        out.append(DASH80)
    if trailer == "full":
        out.append("C")
        for k in range(n_comment):
            out.append("C  BEAM STOPPING / EMISSION / POPULATION COEFFICIENT: COMMENT LINE %d" % (k + 1))
        out.append("C" + "-" * 79)
    out += [""] * end_blank
    truth = dict(zt=int(zt), svref=val(s_svref), tref=val(s_tref), eref=val(s_eref), nref=val(s_nref),
                 eb=t_eb, dens=t_d, sv=t_sv, tt=t_tt, svt=t_svt)
    return "\n".join(out) + "\n", truth


# ------------------------------------------------------------------------------------------------
# ADF12
# ------------------------------------------------------------------------------------------------

ADF12_SECTIONS = (("ENER", 24), ("QENER", 24), ("TIEV", 12), ("QTIEV", 12), ("DENSI", 24), ("QDENSI", 24),
                  ("ZEFF", 12), ("QZEFF", 12), ("BMAG", 12), ("QBMAG", 12))


def write_adf12(blocks, expchar="D", labels=True, nbsel=None, symbol="C", zion=6, trailer="full", end_blank=0):
    """
    :param blocks: list of dict(upper, lower, qefref, parmref[5], ENER.., QENER.. (actual-length sequences))
    :param nbsel: the count printed in line 1 (default: len(blocks))
    :return: text, truth list (per block: upper, lower, qefref, parmref, and the ten arrays at their actual length)
    """
    f = lambda v: fE(v, 10, 2, expchar)
    n = len(blocks) if nbsel is None else nbsel
    out = [fI(n, 5)]
    truth = []
    for ib, b in enumerate(blocks):
        ctrans = "N=%2d-%2d" % (b["upper"], b["lower"])
        head = ("%-2s+%2d  %8.1f A  H(1S)" % (symbol, zion, b.get("wavelength", 5290.5))).ljust(36)[:36] + ctrans
        head += "  qef93#h   /ISEL=%4d" % (ib + 1)
        out.append(head)
        tr = dict(upper=int(b["upper"]), lower=int(b["lower"]))
        s = f(b["qefref"])
        out.append(s + (" " * 50 + ":QEFREF" if labels else ""))
        tr["qefref"] = val(s)
        l, t = records(b["parmref"], f, 6)
        out.append(l[0] + (" " * 10 + ":PARMREF" if labels else ""))
        tr["parmref"] = t
        counts = [len(b["ENER"]), len(b["TIEV"]), len(b["DENSI"]), len(b["ZEFF"]), len(b["BMAG"])]
        out.append("".join(fI(c, 10) for c in counts) + (" " * 10 + ":NPARMSC" if labels else ""))
        for nm, size in ADF12_SECTIONS:
            vals = list(b[nm])
            if len(vals) > size:
                raise ValueError("section %s longer than %d" % (nm, size))
            l, t = records(vals + [0.0] * (size - len(vals)), f, 6)
            if labels:
                l[0] = l[0] + ":" + nm
            out += l
            tr[nm] = t[:len(vals)]
        truth.append(tr)
    if trailer != "none":
        out.append("C" + "-" * 79)
        out.append("C  CHARGE EXCHANGE EFFECTIVE EMISSION COEFFICIENTS")
        if trailer == "long":
            out += ["C", "C  ISEL  DONOR  RECEIVER  TRANSITION   1.00D+00 2.00D+00", "C  ----  -----  --------  ----------", "C",
                    "C  NOTES: 24 12 24 12 12"]
        out.append("C" + "-" * 79)
    out += [""] * end_blank
    return "\n".join(out) + "\n", truth


# ------------------------------------------------------------------------------------------------
# ADF15
# ------------------------------------------------------------------------------------------------

# spectroscopic letters for total orbital angular momentum L = 0, 1, 2, ...: S P D F, then the alphabet from G on,
# omitting J (never used in spectroscopic notation) and the letters already spent (P, S): ... H I K L M N O Q R T U V ...
L_LETTERS = "SPDFGHIKLMNOQRTUVWXYZ"
assert "J" not in L_LETTERS and len(set(L_LETTERS)) == len(L_LETTERS) and L_LETTERS[7] == "K" and L_LETTERS[12] == "Q"


def config_name(shells, mult, L, jtext):
    """Level label in the `<configuration> <2S+1><L><(w-1)/2>` notation used for full-configuration ADF15 files."""
    return " ".join(s.lower() for s in shells) + " " + str(mult) + L_LETTERS[L] + jtext.strip()


def write_adf15(ion_title, z_nuclear, charge, blocks, style, levels=None, a_adjacent=False, lower_case=False,
                nsel=None, wl_decimals_index=1, index_order=None, index_breaks=None, trailing=1, end_blank=0):
    """
    :param blocks: list of dict(isel, type ('EXCIT'|'RECOM'|'CHEXC'), upper, lower, wavelength, ne[], te[], pec[id][it])
                   upper/lower: principal quantum numbers (style 'hydrogen') or level indices (other styles)
    :param style: 'hydrogen' (N= u - N= l), 'hydrogen-like' (indexed levels, no configuration table used),
                  'full' (configuration table + indexed levels)
    :param levels: for 'hydrogen-like'/'full': {index: dict(shells[list of 'nLq'], mult, L, jtext, energy)}
    :return: text, truth list (per block: isel, type, upper, lower, wl_block, wl_index, ne, te, pec[id][it])
    """
    f = lambda v: fE(v, 9, 2)
    n = len(blocks) if nsel is None else nsel
    out = [fI(n, 5) + "    /" + ion_title + " PHOTON EMISSIVITY COEFFICIENTS/"]
    truth = []
    for b in blocks:
        s_wl = fF(b["wavelength"], 8, 1)
        typ = b["type"].lower() if lower_case else b["type"]
        if lower_case:
            head = s_wl + ("a" if a_adjacent else " a") + fI(len(b["ne"]), 5) + fI(len(b["te"]), 5) + \
                " /filmem = bottom  /type = %-5s /indm = t/isel = %4d" % (typ, b["isel"])
        else:
            head = s_wl + ("A" if a_adjacent else " A") + fI(len(b["ne"]), 5) + fI(len(b["te"]), 5) + \
                " /FILMEM = bottom  /TYPE = %-5s /INDM = T/ISEL = %4d" % (typ, b["isel"])
        out.append(head)
        tr = dict(isel=int(b["isel"]), type=b["type"], upper=b["upper"], lower=b["lower"], wl_block=val(s_wl))
        l, tr["ne"] = records(b["ne"], f, 8)
        out += l
        l, tr["te"] = records(b["te"], f, 8)
        out += l
        rows = []
        for i in range(len(b["ne"])):
            l, t = records(b["pec"][i], f, 8)
            out += l
            rows.append(t)
        tr["pec"] = rows
        truth.append(tr)
    c = ["C" + "-" * 71, "C", "C  PHOTON EMISSIVITY COEFFICIENTS:", "C", "C  INFORMATION", "C  -----------", "C",
         "C  NUCLEAR CHARGE = %2d" % z_nuclear, "C  ION CHARGE +1  = %2d" % (charge + 1), "C",
         "C  SPECIFIC ION FILE  : /home/adas/adas/adf04/copmm#%d/ls#ion.dat" % z_nuclear, "C",
         "C  TABULATION         : photon emissivity coefft (te,ne)",
         "C  UNITS              : phot. emis coef (cm^3 s^-1); te (eV); ne (cm^-3)", "C"]
    if style == "full" or (style == "hydrogen-like" and levels):
        c.append("C  Configuration           (2S+1)L(w-1/2)    Energy (cm**-1)")
        c.append("C  -------------           --------------    ---------------")
        for idx in sorted(levels):
            lv = levels[idx]
            cfg = " ".join(lv["shells"])
            cfg = cfg.lower() if lower_case else cfg.upper()
            c.append("C  %3d    %s(%d)%d(%s)    %13.1f" % (idx, (cfg + " ").ljust(20), lv["mult"], lv["L"], lv["jtext"],
                                                          lv["energy"]))
        c.append("C")
    c.append("C  ISEL  WAVELENGTH      TRANSITION       TYPE   METASTABLE  IMET NMET IP")
    c.append("C  ----  ----------  -----------------    -----  ----------  ---- ---- --")
    rows = []
    for tr, b in zip(truth, blocks):
        s_wl = fF(b["wavelength"], 10, wl_decimals_index)
        tr["wl_index"] = val(s_wl)
        if style == "hydrogen":
            trans = "N=%2d - N=%2d        " % (b["upper"], b["lower"])
        else:
            lu, ll = levels[b["upper"]], levels[b["lower"]]
            trans = "%3d(%d)%d(%s)-%3d(%d)%d(%s)" % (b["upper"], lu["mult"], lu["L"], lu["jtext"],
                                                   b["lower"], ll["mult"], ll["L"], ll["jtext"])
        rows.append("C  %3d.  %s    %s %s    1     1    1   1" % (b["isel"], s_wl, trans, b["type"]))
    # the index rows may be printed in groups: `index_order` = row positions in print order, `index_breaks` =
    # {print position: separator kinds printed before that row} with kinds 'blank' (empty comment line), 'ruler', 'text'
    SEP = {"blank": ["C"], "ruler": ["C  ----  ----------  -----------------    -----  ----------  ---- ---- --"],
           "text": ["C  further lines of the same ion (other driving population):"]}
    order = list(index_order) if index_order is not None else list(range(len(rows)))
    for pos, k in enumerate(order):
        for kind in (index_breaks or {}).get(pos, ()):
            c += SEP[kind]
        c.append(rows[k])
    c.append("C")
    for k in range(trailing):
        c += ["C  NOTES: produced by an independent writer for verification purposes (note %d)" % (k + 1), "C"]
    c.append("C" + "-" * 71)
    c += [""] * end_blank
    return "\n".join(out + c) + "\n", truth
