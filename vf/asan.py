"""ASAN engine — AddressSanitizer builds of selected Cython modules from /repo's current working tree.

build(modules) -> directory with instrumented .so files (scratch dir outside /repo and /verif, caller removes it).
Workers started with env VF_ASAN_DIR=<dir> and LD_PRELOAD=<libasan> install a sys.meta_path finder (install_finder)
that redirects exactly those module names to the instrumented files; everything else stays the normal build
(.pxd layouts are unchanged, so the mix is binary compatible).
An ASan report aborts the worker (abort_on_error=1); vf.core turns the death into a violation for the in-flight
case and `classify_log` names it asan:<kind>:<top cherab function>.
"""
import importlib.abc
import importlib.machinery
import importlib.util
import os
import re
import shutil
import subprocess
import sys
import sysconfig
import tempfile
from concurrent.futures import ThreadPoolExecutor

from .core import REPO, Inconclusive

LIBASAN = "/usr/lib/llvm-14/lib/clang/14.0.6/lib/linux/libclang_rt.asan-x86_64.so"
CLANG = "clang"
ASAN_OPTIONS = "detect_leaks=0:halt_on_error=1:abort_on_error=1:allocator_may_return_null=1:detect_odr_violation=0"


def available():
    return os.path.exists(LIBASAN) and shutil.which(CLANG) is not None


def _build_one(mod, outdir):
    rel = mod.replace(".", "/") + ".pyx"
    src = os.path.join(REPO, rel)
    if not os.path.exists(src):
        return mod, None, "source %s not found" % rel
    cdir = os.path.join(outdir, "c")
    os.makedirs(cdir, exist_ok=True)
    cfile = os.path.join(cdir, mod + ".c")
    r = subprocess.run(["/venv/bin/cython", "-3", "-I", REPO, "-o", cfile, src], capture_output=True, text=True, cwd=REPO)
    if r.returncode != 0:
        return mod, None, "cython failed: " + r.stderr[-800:]
    import numpy
    so = os.path.join(outdir, mod + ".so")
    inc = sysconfig.get_paths()["include"]
    cmd = [CLANG, "-O1", "-g", "-fsanitize=address", "-fno-omit-frame-pointer", "-fPIC", "-shared", "-w",
           "-DNPY_NO_DEPRECATED_API=NPY_1_7_API_VERSION", "-I", REPO, "-I", numpy.get_include(), "-I", inc, cfile, "-o", so]
    r = subprocess.run(cmd, capture_output=True, text=True)
    if r.returncode != 0:
        return mod, None, "clang failed: " + r.stderr[-800:]
    return mod, so, None


def build(modules):
    if not available():
        raise Inconclusive("ASan toolchain not available")
    base = os.environ.get("TMPDIR") or "/var/tmp"
    outdir = tempfile.mkdtemp(prefix="vf_asan_", dir=base)
    errors = []
    with ThreadPoolExecutor(max_workers=min(16, len(modules))) as ex:
        for mod, so, err in ex.map(lambda m: _build_one(m, outdir), modules):
            if err:
                errors.append("%s: %s" % (mod, err))
    shutil.rmtree(os.path.join(outdir, "c"), ignore_errors=True)
    if errors:
        shutil.rmtree(outdir, ignore_errors=True)
        raise Inconclusive("ASan build failed: " + "; ".join(errors)[:1500])
    return outdir


def worker_env(asan_dir):
    return {"VF_ASAN_DIR": asan_dir, "LD_PRELOAD": LIBASAN, "ASAN_OPTIONS": ASAN_OPTIONS,
            "PYTHONMALLOC": "malloc"}


class _Finder(importlib.abc.MetaPathFinder):
    def __init__(self, d):
        self.map = {fn[:-3]: os.path.join(d, fn) for fn in os.listdir(d) if fn.endswith(".so")}
        self.loaded = []

    def find_spec(self, fullname, path=None, target=None):
        so = self.map.get(fullname)
        if so is None:
            return None
        self.loaded.append(fullname)
        loader = importlib.machinery.ExtensionFileLoader(fullname, so)
        return importlib.util.spec_from_file_location(fullname, so, loader=loader)


FINDER = None


def install_finder():
    """Called by the worker before anything from cherab is imported."""
    global FINDER
    d = os.environ.get("VF_ASAN_DIR")
    if d and FINDER is None:
        FINDER = _Finder(d)
        sys.meta_path.insert(0, FINDER)
    return FINDER


_RE_KIND = re.compile(r"ERROR: AddressSanitizer: ([a-zA-Z0-9_-]+)")
_RE_FRAME = re.compile(r"#\d+ 0x[0-9a-f]+ in (__pyx_\w+|\w+) ")


def classify_log(log):
    """-> 'asan:<kind>:<first __pyx frame>' or None when the log holds no ASan report."""
    m = _RE_KIND.search(log)
    if not m:
        return None
    func = "?"
    for fm in _RE_FRAME.finditer(log[m.end():]):
        if fm.group(1).startswith("__pyx_"):
            func = re.sub(r"^__pyx_(f|pf|pw|fuse_\d+)_", "", fm.group(1))
            func = re.sub(r"^\d+", "", func)
            break
    return "asan:%s:%s" % (m.group(1), func[:80])
