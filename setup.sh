#!/bin/bash
# MANIFEST.setup_cmd: offline dependency install + in-place build of /repo (idempotent).
set -e
cd "$(dirname "$0")"
export PIP_NO_INDEX=1
/venv/bin/python -m vf.core setup
