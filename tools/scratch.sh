#!/bin/bash
# tools/scratch.sh new <name>   -> creates /tmp/vfscratch/<name>: a copy of /repo's working tree incl. built .so and build/
# tools/scratch.sh rm <name>    -> removes it
# Use with: VERIF_REPO=/tmp/vfscratch/<name> ./check CXX   (rebuilds only what changed there)
set -e
base=/tmp/vfscratch
case "$1" in
  new) mkdir -p $base; rsync -a --delete --exclude .git --exclude __pycache__ /repo/ $base/$2/; echo $base/$2;;
  rm) rm -rf $base/$2;;
  *) echo "usage: $0 new|rm <name>"; exit 2;;
esac
