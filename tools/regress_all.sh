#!/bin/bash
# tools/regress_all.sh [jobs] : final regression — every stored seeded change is applied to a scratch copy of the CURRENT
# /repo tree and the quick check of its property is run against it; result recorded in meta.json (confirmed.final_regression)
# and appended to .cache/regress_results.txt
cd /verif
jobs=${1:-4}
[ -n "$REGRESS_IDS" ] || : > .cache/regress_results.txt
for d in seeded/*/; do
  case " ${REGRESS_IDS:-ALL} " in *" ALL "*) ;; *" $(basename $d | cut -d- -f1) "*) ;; *) continue;; esac
  name=$(basename $d); id=${name%%-*}
  while [ $(jobs -rp | wc -l) -ge $jobs ]; do sleep 2; done
  (
    out=$(tools/try_seed.sh seeded/$name/patch.diff $id quick 2>&1); rc=$?
    keys=$(echo "$out" | grep -E "^  key=" | sed 's/^  key=\([^ ]*\).*/\1/' | head -3 | tr '\n' ' ')
    /venv/bin/python - "$name" "$rc" "$keys" <<'PY'
import json, sys, subprocess
name, rc, keys = sys.argv[1:]
p = "/verif/seeded/%s/meta.json" % name
m = json.load(open(p))
head = subprocess.run(["git", "-C", "/repo", "log", "--format=%h", "-1"], capture_output=True, text=True).stdout.strip()
vh = subprocess.run(["git", "-C", "/verif", "log", "--format=%h", "-1"], capture_output=True, text=True).stdout.strip()
m.setdefault("confirmed", {})["final_regression"] = {"repo_head": head, "verif_head": vh, "quick_check_exit_with_change": int(rc), "keys": keys.split()}
json.dump(m, open(p, "w"), indent=1)
PY
    echo "$name rc=$rc $keys" >> .cache/regress_results.txt
  ) &
done
wait
echo "done: $(grep -c 'rc=1' .cache/regress_results.txt) caught of $(wc -l < .cache/regress_results.txt)"
