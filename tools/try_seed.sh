#!/bin/bash
# tools/try_seed.sh <patch.diff> <ID> [tier] [extra check args...] : apply a seeded patch to a scratch copy of /repo and run the check there.
# prints the verdict line; exit code = the check's exit code (1 = caught).
patch=$(realpath "$1"); id=$2; tier=${3:-quick}; if [ $# -ge 3 ]; then shift 3; else shift $#; fi
name=try_$(basename $(dirname $patch))_$$
cd /verif
tools/scratch.sh new $name >/dev/null
d=/tmp/vfscratch/$name
if ! (cd $d && patch -p1 --no-backup-if-mismatch < $patch >/dev/null 2>&1); then echo "PATCH DOES NOT APPLY"; tools/scratch.sh rm $name; exit 3; fi
VERIF_REPO=$d ./check $id --tier $tier "$@" > /tmp/vfscratch/$name.log 2>&1
rc=$?
grep -E "^VIOLATION|^  key=|HELD|VIOLATED|INCONCLUSIVE|KNOWN-FINDING" /tmp/vfscratch/$name.log | cut -c1-300 | head -12
tools/scratch.sh rm $name; rm -f /tmp/vfscratch/$name.log
exit $rc
