#!/bin/bash
# keep confirming finished seeds until /verif/.cache/stop_confirm exists
cd /verif
while [ ! -f .cache/stop_confirm ]; do tools/confirm_all.sh; sleep 240; done
