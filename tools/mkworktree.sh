#!/bin/bash
# tools/mkworktree.sh new <name>  -> /tmp/seed/<name>: git worktree of /repo HEAD + built artefacts + helper runner
# tools/mkworktree.sh rm <name>
set -e
base=${SEED_BASE:-/tmp/seed}
case "$1" in
  new)
    mkdir -p $base
    git -C /repo worktree add --detach $base/$2 HEAD >/dev/null 2>&1
    rsync -a --include='*/' --include='*.so' --include='*.c' --exclude='*' /repo/cherab/ $base/$2/cherab/
    rsync -a /repo/build/ $base/$2/build/
    # make generated files newer than the freshly checked-out sources so that only edited .pyx files rebuild
    find $base/$2/cherab -name '*.c' -exec touch {} +
    sleep 1
    find $base/$2/build -type f -exec touch {} +
    sleep 1
    find $base/$2/cherab -name '*.so' -exec touch {} +
    cat > $base/$2/wt_python.py <<'PY'
"""Run python code / pytest against THIS worktree (the editable install pins `cherab` to /repo otherwise).
  /venv/bin/python wt_python.py pytest <pytest args...>      # run the repository's tests of this worktree
  /venv/bin/python wt_python.py script.py [args...]          # run a script with `import cherab` -> this worktree
Rebuild changed .pyx files first:  /venv/bin/python setup.py build_ext -j8 --inplace   (run inside the worktree)
"""
import os, sys, runpy
os.environ.setdefault("OPENBLAS_NUM_THREADS", "1"); os.environ.setdefault("OMP_NUM_THREADS", "1")
here = os.path.dirname(os.path.abspath(__file__))
m = sys.modules.get("cherab")
if m is not None:
    m.__path__[:] = [os.path.join(here, "cherab")]
sys.path.insert(0, here)
os.environ.setdefault("HOME", os.path.join(here, ".home"))
os.makedirs(os.environ["HOME"], exist_ok=True)
import cherab.core
assert cherab.core.__file__.startswith(here), cherab.core.__file__
if sys.argv[1] == "pytest":
    import pytest
    os.chdir(here)
    sys.exit(pytest.main(["-q", "-p", "no:cacheprovider"] + sys.argv[2:]))
else:
    sys.argv = sys.argv[1:]
    runpy.run_path(sys.argv[0], run_name="__main__")
PY
    echo $base/$2;;
  rm)
    git -C /repo worktree remove --force $base/$2 2>/dev/null || rm -rf $base/$2
    git -C /repo worktree prune;;
  *) echo "usage: $0 new|rm <name>"; exit 2;;
esac
