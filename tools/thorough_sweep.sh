#!/bin/bash
# tools/thorough_sweep.sh <seed> [ids...] : run the thorough tier of the given (default: all) checks one after another
seed=$1; shift
ids=${@:-C01 C02 C03 C04 C05 C06 C07 C08 C09 C10 C11 C12 C13 C14 C15 C16 C17 C18 C19 C20}
for id in $ids; do
  echo "##### $id seed=$seed $(date +%H:%M:%S)"
  VERIF_SEED=$seed ./check $id --tier thorough 2>&1 | grep -E "^VIOLATION|^  key=|HELD|VIOLATED|INCONCLUSIVE|margins|stopped_by_budget" | cut -c1-600
done
echo "##### done $(date +%H:%M:%S)"
