#!/bin/bash
# confirm every finished seed (patch.diff + demo.py + meta.json present) that is not yet confirmed; 3 at a time
cd /verif
jobs_running() { jobs -rp | wc -l; }
for p in /tmp/seed/c*/_seed/m* /tmp/seed2/c*/_seed/m* /tmp/seed3/c*/_seed/m* /tmp/seed4/c*/_seed/m* /tmp/seed5/c*/_seed/m*; do
  [ -f $p/patch.diff ] && [ -f $p/demo.py ] && [ -f $p/meta.json ] || continue
  prop=$(basename $(dirname $(dirname $p))); m=$(basename $p); name=${prop^^}-$m
  if [ -f seeded/$name/meta.json ] && grep -q '"confirmed"' seeded/$name/meta.json; then continue; fi
  while [ $(jobs_running) -ge 3 ]; do sleep 5; done
  (tools/confirm_seed.sh $p ${prop^^} $name 2>&1 | tail -1 >> /verif/.cache/confirm_results.txt) &
done
wait
