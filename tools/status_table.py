import json, os, importlib, sys
R = os.path.dirname(os.path.dirname(os.path.abspath(__file__))); sys.path.insert(0, R)
kf = json.load(open(os.path.join(R, "known_findings.json")))["findings"]
print("| id | deciding method (module `TECHNIQUE`) | quick: cases / distinct non-trivial / wall | thorough budget | ASan pass | fixed / open findings |")
print("|---|---|---|---|---|---|")
for i in range(1, 21):
    pid = "C%02d" % i
    m = importlib.import_module("vf.props." + pid.lower())
    ev = json.load(open(os.path.join(R, "evidence", pid + ".json")))
    c = ev["coverage"]
    nf = sum(1 for f in kf if f["property"] == pid and f["status"] == "fixed")
    no = sum(1 for f in kf if f["property"] == pid and f["status"] == "open")
    th = m.THOROUGH
    print("| %s | %s | %d / %d / %.0f s (%s) | %d cases, %d workers, %d s | %s | %d / %d |" % (
        pid, getattr(m, "TECHNIQUE", "").replace("runtime monitoring: ", ""), c["evaluations"], c["distinct_nontrivial"], ev["wall_s"], ev["tier"],
        th["cases"], th.get("workers", 2), th.get("timecap", 60), ("%d modules" % len(m.ASAN_MODULES)) if getattr(m, "ASAN_MODULES", None) else "—", nf, no))
