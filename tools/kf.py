"""known-findings bookkeeping.
  python tools/kf.py fixed CXX <commit> <key-substring> [...]  : move matching staged entries to known_findings.json as fixed
  python tools/kf.py open CXX [<key-substring> ...]            : move (all / matching) staged entries to known_findings.json as open
  python tools/kf.py drop CXX <key-substring>                  : delete staged entries (false alarms / not claimed)
  python tools/kf.py list
"""
import json, os, sys
R = os.path.dirname(os.path.dirname(os.path.abspath(__file__)))
main = os.path.join(R, "known_findings.json")
def load(p): return json.load(open(p))
def save(p, d): json.dump(d, open(p, "w"), indent=1)
cmd = sys.argv[1]
if cmd == "list":
    for f in load(main)["findings"]: print("MAIN  ", f["property"], f["status"], f["key"])
    d = os.path.join(R, "known_findings.d")
    for fn in sorted(os.listdir(d)):
        for f in load(os.path.join(d, fn))["findings"]: print("STAGED", f["property"], f["status"], f["key"])
    sys.exit(0)
pid = sys.argv[2]
sp = os.path.join(R, "known_findings.d", pid + ".json")
staged = load(sp)["findings"] if os.path.exists(sp) else []
M = load(main)
if cmd == "fixed":
    commit, subs = sys.argv[3], sys.argv[4:]
    keep = []
    for f in staged:
        if any(s in f["key"] for s in subs):
            f = dict(f, status="fixed", commit=commit, what="fixed: property=%s %s %s" % (pid, commit, f["what"]))
            M["findings"].append(f); print("fixed", f["key"])
        else: keep.append(f)
    staged = keep
elif cmd == "open":
    subs = sys.argv[3:]
    keep = []
    for f in staged:
        if not subs or any(s in f["key"] for s in subs):
            M["findings"].append(dict(f, status="open")); print("open", f["key"])
        else: keep.append(f)
    staged = keep
elif cmd == "drop":
    subs = sys.argv[3:]
    staged = [f for f in staged if not any(s in f["key"] for s in subs)]
save(main, M)
if staged: save(sp, {"findings": staged})
elif os.path.exists(sp): os.remove(sp)
