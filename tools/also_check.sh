#!/bin/bash
# tools/also_check.sh <seeded name> <ID> : run another property's quick check against a stored seeded change and record the result
name=$1; id=$2
cd /verif
out=$(tools/try_seed.sh seeded/$name/patch.diff $id); rc=$?
keys=$(echo "$out" | grep -E "^  key=" | sed 's/^  key=\([^ ]*\).*/\1/' | head -4 | tr '\n' ' ')
/venv/bin/python - "$name" "$id" "$rc" "$keys" <<'PY'
import json, sys
name, pid, rc, keys = sys.argv[1:]
p = "/verif/seeded/%s/meta.json" % name
m = json.load(open(p))
m.setdefault("confirmed", {}).setdefault("other_checks", {})[pid] = {"quick_check_exit_with_change": int(rc), "keys": keys.split()}
json.dump(m, open(p, "w"), indent=1)
print(name, pid, rc, keys)
PY
