"""print the prompt for a mutation-seeding sub-agent: python tools/seed_prompt.py C07 /tmp/seed/c07"""
import json, sys
pid, wt = sys.argv[1], sys.argv[2]
wave = int(sys.argv[3]) if len(sys.argv) > 3 else 1
first = 2 * wave - 1
import glob as _g, os as _o, re as _r
_ex = [int(_r.search(r'-m(\d+)$', d).group(1)) for d in _g.glob('/verif/seeded/%s-m*' % pid)]
if wave > 1 and _ex:
    first = max(first, max(_ex) + 1)
N = int(_o.environ.get('SEED_COUNT', '2'))
avoid = ""
if wave > 1:
    import glob, os
    used = []
    for d in sorted(glob.glob("/verif/seeded/%s-m*" % pid)):
        try:
            used.append("- " + json.load(open(os.path.join(d, "meta.json")))["summary"][:400].replace("\n", " "))
        except Exception:
            pass
    if used:
        avoid = "\nALREADY USED by earlier seeding rounds (do NOT repeat these ideas or close variants of them; pick different functions, different mechanisms and different triggering conditions):\n" + "\n".join(used) + "\n"
for l in open('/verif/properties.jsonl'):
    p = json.loads(l)
    if p['id'] == pid:
        break
second = first + 1
idx = ', '.join(str(first + i) for i in range(N))
WORD = {2: 'TWO', 3: 'THREE', 4: 'FOUR'}[N]
print(f"""You are helping to evaluate a test/verification setup for the open-source project cherab-core (plasma spectroscopy modelling on Raysect; Cython + Python) by seeding realistic bugs.

Your private scratch git worktree of the repository is {wt} (already built: the compiled .so files are in place). Work ONLY inside that directory. Do not read or touch /verif or /repo.

THE PROPERTY the project is supposed to guarantee:
  Title: {p['title']}
  Statement: {p['statement']}
  Holds for: {p['quantifier']['text']}
  Code areas it is anchored in: {', '.join(p['anchors']['files'])}

YOUR TASK: produce {WORD} independent source changes (different mechanisms, different files or functions if possible) to cherab-core that each BREAK this property, where each change:
  (a) still compiles: after editing a .pyx/.pxd run `cd {wt} && /venv/bin/python setup.py build_ext -j8 --inplace` (only edited modules rebuild; .py edits need no build);
  (b) still passes the repository's existing test suite: `cd {wt} && /venv/bin/python wt_python.py pytest cherab` must give the same result as without your change (579 tests pass on the unchanged tree; run the relevant test files first, the whole suite once at the end; `wt_python.py` makes `import cherab` resolve to this worktree instead of the installed copy — always run python code through it: `/venv/bin/python wt_python.py yourscript.py`);
{avoid}  (c) looks like a plausible slip or "optimisation" a developer could make, and needs something SPECIFIC to manifest: a particular multi-step sequence of operations, an unusual but legal input (edge of a range, special value, particular combination of options), state left over from an earlier call, or two cooperating sites that each look fine alone. NOT something the first ordinary use would expose, and not a crash on every call.
For each change i in ({idx}) write into {wt}/_seed/m<i>/ :
  - patch.diff : `git diff` of the change against the worktree's HEAD (only source files, not build artefacts);
  - demo.py : a small stand-alone program (run as `/venv/bin/python wt_python.py _seed/m<i>/demo.py`) that exits 0 on the unchanged code and exits non-zero (assertion failure) with your change applied, demonstrating the property violation through the public API;
  - meta.json : {{"property": "{pid}", "summary": "...what was changed...", "needs_to_manifest": "...the specific input/sequence/state...", "files": [...], "ran": ["commands you ran and their outcome: build, relevant tests, full suite, demo with/without"]}}
Always prefix python/pytest commands with `OPENBLAS_NUM_THREADS=1 OMP_NUM_THREADS=1` (wt_python.py also sets them). Procedure per change: make the edit; rebuild if needed; run demo (must fail); run relevant tests then the full suite (must pass as before); save `git diff > _seed/m<i>/patch.diff`; then `git checkout -- cherab` (and rebuild if a .pyx was touched) and confirm the demo passes on the clean tree before starting the next change. Leave the worktree clean (no source modifications) at the end, with only the _seed directory added.
Final reply: for each change, one paragraph: what it breaks, what it needs to manifest, and the confirmation that build + full suite pass and demo fails/passes as required.""")
