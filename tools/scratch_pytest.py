"""Run the repository's own tests against a scratch copy: python tools/scratch_pytest.py <scratch_dir> <pytest args...>
(the editable install pins `cherab` to /repo; this redirects the package path first)."""
import os, sys
scratch = os.path.abspath(sys.argv[1])
m = sys.modules.get("cherab")
if m is not None:
    m.__path__[:] = [os.path.join(scratch, "cherab")]
os.chdir(scratch)
sys.path.insert(0, scratch)
import pytest
import cherab.core
assert cherab.core.__file__.startswith(scratch), cherab.core.__file__
sys.exit(pytest.main(["-q", "-p", "no:cacheprovider"] + sys.argv[2:]))
