#!/bin/bash
# tools/quick_sweep.sh <seed> [ids...] : run the quick tier of the given (default: all) checks one after another
seed=$1; shift
ids=${@:-C01 C02 C03 C04 C05 C06 C07 C08 C09 C10 C11 C12 C13 C14 C15 C16 C17 C18 C19 C20}
for id in $ids; do
  VERIF_SEED=$seed ./check $id --tier quick 2>&1 | grep -E "^VIOLATION|^  key=|HELD|VIOLATED|INCONCLUSIVE|stopped_by_budget" | cut -c1-400
done
