"""Regenerate the generated tables of DESIGN.md (status table §0.1, seeded-change table §9)."""
import os, subprocess, sys
R = os.path.dirname(os.path.dirname(os.path.abspath(__file__)))
def gen(script):
    out = subprocess.run(["/venv/bin/python", os.path.join(R, "tools", script)], capture_output=True, text=True, cwd=R).stdout
    return "\n".join(l for l in out.splitlines() if "conda" not in l)
s = open(os.path.join(R, "DESIGN.md")).read()
for tag, script in (("STATUS-TABLE", "status_table.py"), ("SEED-TABLE", "seed_table.py")):
    b, e = "<!-- %s-BEGIN -->" % tag, "<!-- %s-END -->" % tag
    i, j = s.index(b) + len(b), s.index(e)
    s = s[:i] + "\n" + gen(script) + "\n" + s[j:]
open(os.path.join(R, "DESIGN.md"), "w").write(s)
print("DESIGN.md tables regenerated")
