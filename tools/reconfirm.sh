#!/bin/bash
# tools/reconfirm.sh <name>... : re-run the confirmation of stored seeded changes (after a check was strengthened)
cd /verif
for name in "$@"; do
  id=${name%%-*}
  rm -rf /tmp/reseed/$name; mkdir -p /tmp/reseed; cp -r seeded/$name /tmp/reseed/$name || continue
  /venv/bin/python - "$name" <<'PY'
import json,sys
p='/tmp/reseed/%s/meta.json'%sys.argv[1]; m=json.load(open(p)); m.pop('confirmed',None); json.dump(m,open(p,'w'),indent=1)
PY
  rm -rf seeded/$name
  tools/confirm_seed.sh /tmp/reseed/$name $id $name 2>&1 | tail -1 | tee -a .cache/confirm_results.txt | cut -c1-300
  rm -rf /tmp/reseed/$name
done
