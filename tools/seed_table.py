"""print the DESIGN §9 table from /verif/seeded/*/meta.json"""
import json, os, glob
R = os.path.dirname(os.path.dirname(os.path.abspath(__file__)))
MISSED_FIRST = {
 "C01-m1": "missed by the first version (uniform random histories); caught after the Notifier history monitor and template histories were added",
 "C03-m1": "missed while an identically zero total was accepted for a cold donor; caught after the per-term reading",
 "C10-m2": "missed while every pipeline object was used once; caught after the re-observation monitor",
 "C20-m2": "missed while only float64 vertex arrays were generated; caught after integer / float32 vertex grids were added",
 "C02-m1": "missed while only the default integrator was driven; caught after the user-configured-integrator class and the integrator differential",
 "C07-m2": "missed while each out-of-range point was requested once per rate object; caught after the call-history monitor",
 "C18-m1": "missed while constructor defaults / no-op assignments were not generated; caught after the default-value classes and the formula monitor",
 "C20-m3": "missed while each process built unrelated grids only; caught after the sibling-grid / rebuild monitor",
 "C20-m4": "missed while flux maps had O(1) gradients only; caught after the flux-scale invariance monitor",
 "C02-m4": "missed while every call used a fresh line-shape object; caught after the call-sequence class",
 "C03-m4": "missed by C03 while every evaluation used a fresh model (C01 caught it); caught by C03 after the one-instance-across-state-changes class",
 "C06-m4": "missed while the download branch of install_* was never driven; caught after the stubbed-download mode",
 "C11-m4": "missed while only float64 inputs were generated; caught after the input dtype / container classes",
 "C09-m1": "missed while every case used a fresh mock provider and one donor charge; caught after the call-sequence class",
 "C09-m2": "missed while donor profiles were all-positive or all-zero; caught after mixed zero/positive donor profiles",
 "C09-m3": "missed while species dicts were always built in ascending order; caught after random insertion orders",
 "C15-m4": "missed while the generator copied every list it passed; caught after the caller-owned-container aliasing monitors",
 "C07-m5": "missed while every stored table was positive and smooth; caught after hostile tables (zeros / steep steps between knots) and the non-negativity-between-knots monitor",
 "C11-m5": "missed while each solver call used fresh arrays; caught after call sequences on shared inputs and strided geometry matrices",
 "C11-m6": "missed while measurements were all positive; caught after non-positive measurement vectors",
 "C09-m5": "missed while the free variable was always a float64 ndarray; caught after free-variable dtype / container classes",
 "C15-m5": "missed while added observers were always orphans; caught after parent-state classes (already parented to this group / to another node)",
 "C17-m1": "missed while rectangles were exact; caught after near-rectangles (trapezoids within 1e-3) were generated",
 "C17-m3": "missed while the generator copied every vertex array; caught after the aliasing monitors",
 "C17-m4": "missed while a grid was read once; caught after grid state sequences (activate / parent changes / re-reads)",
 "C04-m5": "missed while plasma profiles were smooth along the beam; caught after gapped profiles (zero-density stretches) were generated",
 "C08-m5": "missed while transition labels used S, P, D terms only; caught after high-L term letters",
 "C10-m7": "missed while every object was used as constructed; caught after the mutate-after-construction differential (step, voxel_map, min_samples, transform vs a fresh object)",
 "C13-m6": "missed while clamps bounded every axis; caught after bound subsets (only x / only y / only z bounded)",
 "C16-m6": "missed while filter tables were sorted; caught after true-filter-support invariants on unsorted tables",
 "C18-m5": "missed while beam cross-sections were judged near the waist only (far sections were skipped as uncertifiable); caught after the polar-quadrature fallback and the transverse-shape monitor",
 "C18-m6": "missed by C18 while segment placement was not observed (C01 caught it through the laser-geometry observable); caught by C18 after the placement monitor",
 "C04-m6": "a stale-state change (shape setters stop notifying): C04 builds a fresh beam per case and does not see it; caught by C01, whose property it breaks",
 "C05-m6": "a stale-state change (replacing a species no longer notifies): C05 builds a fresh plasma per case and does not see it; caught by C01, whose property it breaks",
 "C17-m5": "missed while non-constant emissivity was sampled on convex or clockwise mesh voxels only; caught after concave x anti-clockwise x mesh cases were generated",
 "C17-m6": "missed while cross-sections were centimetre to metre sized; caught after the scale class (1e-8 .. 1e3 m) with conditioned tolerances",
 "C02-m9": "missed while constructor arguments were fresh lists; caught after caller-owned containers (C-contiguous float64 arrays, views) mutated after construction",
 "C03-m7": "missed while one model instance was alive per case; caught after the several-models-alive-at-once class (interleaved evaluation, default helper objects)",
 "C08-m8": "missed while only install_adfXX was driven; caught after install_files / populate-style entry points with read-back",
 "C08-m9": "missed while each repository saw one install; caught after install sequences (download cache vs adas_path, revised content)",
 "C09-m7": "missed while the equilibrium-mapped entry points were judged at the profile nodes only; caught after off-node range / agreement monitors (the same monitor exposed the defect repaired in 15eeb84)",
 "C09-m8": "missed while arrays were 1-D or C-ordered; caught after N-d arrays in Fortran / transposed / strided / broadcast layouts",
 "C10-m9": "missed while returned matrices were read once; caught after the returned-array aliasing and masked re-observation monitors",
 "C10-m10": "missed while maps were handed over in dtypes that force a copy; caught after caller-owned arrays in the exact internal format mutated afterwards",
 "C12-m8": "missed while 3-D points were built as (r cos phi, r sin phi); caught after exact special points (y = +-0 with x < 0, half-axes, diagonals, subnormals)",
 "C13-m7": "missed while hypot-type wrappers were judged in one common magnitude window; caught after per-clause windows (rotation judged over the whole finite range)",
 "C13-m8": "missed while each sampler was called once; caught after sampler call histories with caller-modified results",
 "C15-m7": "missed while rejected operations were judged on the target group only; caught after the rejected-operation monitor on all groups involved (which exposed two defects, repaired in cd1a432 and e2f4b9d)",
 "C16-m8": "missed while calibration containers were not touched after assignment; caught after caller-owned container mutations (which exposed the defect repaired in 58ffb74)",
 "C17-m9": "missed while every voxel was sampled in isolation; caught after call sequences over voxels with mixed vertex counts and per-triangle hit counts",
 "C17-m11": "missed while only the voxel-level sampler saw non-linear functions; caught after grid-level emissivities with grid_samples in {1, 2, 10, 37}",
 "C18-m7": "missed while probe points changed between calls; caught after the same-argument-first-call probe pattern",
 "C20-m7": "missed while vertices were always listed from the top-right corner clockwise; caught after vertex-listing classes (which exposed the defect repaired in 45772da)",
 "C20-m9": "missed while grids had at most 196 cells; caught after grids with more than 1024 cells",
 "C06-m10": "missed while install files held one block per family; caught after several keys per call (multi-block files) with the cross-key order relation",
 "C06-m11": "missed while overwrites changed the whole entry; caught after one-component overwrites (only ne / only te / one element / one ulp)",
 "C06-m12": "missed while transition levels were canonical integers; caught after hostile level spellings ('03', ' 3', '+3', 2.5, ...)",
 "C11-m12": "missed while the normal-equation tolerance scaled with the returned |x|; caught after the objective-value check against an independent truncated-SVD reference and the rank-deficiency class",
 "C12-m10": "missed while LCFS polygons were listed from a random angle; caught after listings whose first and last vertex share a coordinate, with seam points",
 "C12-m12": "missed while every mapping used a fresh container; caught after mapping call sequences with in-place refills",
 "C13-m11": "missed while wrappers wrapped plain leaves; caught after nested wrapper chains (own class and others, depth 2-3)",
 "C14-m10": "missed while the allowance still contained the absolute-coordinate term of the pre-fix model; caught after the translation-invariant allowance and the far/fine class for all dimensions",
 "C15-m10": "missed while observe() was judged on groups built by constructor / add only; caught after per-observer observation counters inside histories",
 "C15-m12": "missed while assigned values were unrelated to current ones; caught after coincidence assignments (values equal to current values of the same / sibling attributes)",
 "C16-m11": "missed while each calibrate() result was judged right after its call; caught after the returned-array history monitor",
 "C17-m13": "missed for the same reason at grid level; caught after kept-result histories of emissivities_from_function",
 "C19-m11": "missed while an isotope was judged against its attached element only; caught after the isotope's own symbol / name are read against the periodic table",
 "C20-m10": "missed while voxels were numbered down the columns only; caught after row-wise numbering",
 "C20-m11": "missed while the generator's dict was passed on unchanged; caught after operator dicts in other key orders",
 "C04-m10": "a stale-state change (cached stopping data survive a species replacement): C04 builds a fresh beam per case; caught by C01, whose property it breaks",
 "C04-m12": "a stale-state change (attenuator keeps the old atomic data): caught by C01, whose property it breaks",
 "C03-m13": "missed while the default Gaunt factor was its own oracle; caught after the independent Born / classical / table reference",
 "C03-m15": "missed while each model saw one spectral window (C01 caught it after observations through several windows); caught by C03 after the several-windows sequence step",
 "C05-m13": "missed while lines were never re-assigned (C01 caught it after same-ion line changes); caught by C05 after same-instance histories",
 "C05-m14": "missed while consecutive evaluation points were unrelated; caught after point sequences sharing two coordinates bit for bit",
 "C05-m15": "missed by C05 while compositions were assigned once (C01 caught it); caught by C05 after same-instance histories",
 "C05-m6": "first caught by C01 only; caught by C05 itself after same-instance histories (species replaced)",
 "C06-m14": "missed while update dictionaries had no empty branches; caught after empty branches at every nesting level and position",
 "C06-m15": "missed while C06 installed through install_adfXX only; caught after install_files with upper / mixed-case keys inside the histories",
 "C07-m13": "missed while stored tables depended on every axis; caught after degenerate tables (independent of one axis, constant, rank-1) with the full range matrix",
 "C08-m13": "missed while resolved ADF11 files had one block per charge; caught after unequal metastable counts (more blocks than charge states)",
 "C08-m15": "missed while ADF15 index rows were contiguous; caught after grouped indices separated by blank comment lines / rulers / free text",
 "C09-m14": "missed while container-returning helpers were called once per process state; caught after container call sequences over several elements",
 "C09-m15": "missed while free variables were ascending; caught after descending / unsorted / repeated coordinates",
 "C10-m17": "missed while observers had unit sensitivity and kind was lower case; caught after non-unit-sensitivity observers with every kind spelling",
 "C12-m13": "missed while psi grids were uniform; caught after non-uniform rectilinear grids with bounds for the local spacing",
 "C12-m15": "missed while the limiter always enclosed the LCFS generously; caught after limiter polygons in every relation to the LCFS",
 "C13-m15": "missed while leaves returned a new vector per call; caught after stored-object leaves with evaluation sequences",
 "C14-m14": "missed while function amplitudes were 1e-2..1e2; caught after function-magnitude classes with variation-relative judgements and scale equivariance",
 "C16-m14": "missed while containers were assigned as new objects; caught after 'edit in place, assign the same object again' history steps",
 "C16-m15": "missed while diffraction angles were acute; caught after the whole legal Czerny-Turner domain (obtuse angles)",
 "C17-m15": "missed while grids had no scene placement; caught after placement classes (parents, translations, rotations, set_active sequences)",
 "C17-m16": "missed while cells came in lists / arrays; caught after one-shot iterables (generators, map, iterators)",
 "C19-m13": "missed while copies were made in the same process; caught after copies pickled by another interpreter with a different hash seed",
 "C04-m17": "missed while attenuator parameters were reached through the constructor only; caught after every parameter is driven through constructor and setter",
 "C06-m17": "missed while stored numbers were finite; caught after non-finite values (inf, -inf, nan) for every family and front-end with the accepted-or-cleanly-refused rule",
 "C13-m16": "missed while polygons were near the origin with well separated vertices; caught after far-from-origin polygons and short closing edges",
 "C14-m17": "missed while the origin was never the first evaluation point; caught after exact special points (0, +-0.0, nodes, corners) as first evaluations",
 "C15-m17": "missed while groups sat at the identity placement; caught after scene-placement classes for every group",
 "C20-m16": "missed while the anisotropy was a scalar; caught after one factor per voxel (linear 1/anisotropy field, analytic operator with the grad D terms)",
 "C20-m17": "missed while inputs were not compared before / after; caught after the inputs-untouched monitor",
 "C18-m3": "first missed by C18 (its histories act on profile / spectrum objects, not on re-attaching them to the Laser node); caught by C01 after same-object re-assignment mutators and the laser-geometry observable were added, and by C18 itself after the placement monitor",
}
rows = []
for d in sorted(glob.glob(os.path.join(R, "seeded", "*"))):
    mp = os.path.join(d, "meta.json")
    if not os.path.exists(mp): continue
    m = json.load(open(mp)); c = m.get("confirmed", {})
    name = os.path.basename(d)
    files = ", ".join(os.path.basename(f) for f in m.get("files", []))[:80]
    summ = (m.get("summary", "") or "").replace("\n", " ").replace("|", "/")
    needs = (m.get("needs_to_manifest", "") or "").replace("\n", " ").replace("|", "/")
    keys = ", ".join("`%s`" % k for k in c.get("quick_check_keys", [])[:3])
    valid = c.get("demo_exit_unchanged_tree") == 0 and c.get("demo_exit_with_change") not in (0, None) and "passed" in (c.get("repo_suite_with_change") or "")
    verdict = "caught (exit 1)" if c.get("quick_check_exit_with_change") == 1 else "NOT caught (exit %s)" % c.get("quick_check_exit_with_change")
    oc = c.get("other_checks", {})
    for k2, v2 in oc.items():
        verdict += "; %s quick: %s %s" % (k2, "caught" if v2.get("quick_check_exit_with_change") == 1 else "not caught", ", ".join("`%s`" % k for k in v2.get("keys", [])[:2]))
    note = MISSED_FIRST.get(name, "")
    rows.append("| %s | %s | %s | %s | %s %s%s |" % (name, files, summ[:260], needs[:200], verdict, keys, ("; " + note) if note else ""))
print("| seeded change | file(s) | what it changes | needs to manifest | quick check of its property |")
print("|---|---|---|---|---|")
print("\n".join(rows))
print()
print("%d seeded changes confirmed" % len(rows))
