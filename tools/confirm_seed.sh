#!/bin/bash
# tools/confirm_seed.sh <seed_src_dir (with patch.diff, demo.py, meta.json)> <ID> <name>
# Confirms a seeded change on a scratch copy of /repo's current tree and stores it as /verif/seeded/<name>/.
#  1. demo passes on the unchanged copy   2. patch applies and builds   3. demo fails with the change
#  4. the repository's own test-suite still passes with the change      5. result of the quick check with the change
src=$(realpath "$1"); id=$2; name=$3
export OPENBLAS_NUM_THREADS=1 OMP_NUM_THREADS=1
cd /verif
sc=conf_$name
tools/scratch.sh new $sc >/dev/null
d=/tmp/vfscratch/$sc
out=/verif/seeded/$name
mkdir -p $out
cp $src/patch.diff $src/demo.py $out/ 2>/dev/null
cp /verif/tools/wt_python_template.py $d/wt_python.py
cat > $d/conftest.py <<'PY'
# scratch-only: make xdist workers import cherab from this copy (the editable install pins it to /repo)
import os, sys
_here = os.path.dirname(os.path.abspath(__file__))
_m = sys.modules.get("cherab")
if _m is not None:
    _m.__path__[:] = [os.path.join(_here, "cherab")]
    for _k in [k for k in sys.modules if k.startswith("cherab.")]:
        if not getattr(sys.modules[_k], "__file__", _here).startswith(_here):
            del sys.modules[_k]
PY
mkdir -p $d/_seed/m; cp $src/demo.py $d/_seed/m/demo.py
log=$out/confirm.log; : > $log
run_demo() { (cd $d && timeout 900 /venv/bin/python wt_python.py _seed/m/demo.py >> $log 2>&1); echo $?; }
echo "== demo on unchanged tree" >> $log; rc_clean=$(run_demo)
echo "== apply patch" >> $log
if ! (cd $d && patch -p1 --no-backup-if-mismatch < $src/patch.diff >> $log 2>&1); then applies=false; else applies=true; fi
echo "== build" >> $log
(cd $d && /venv/bin/python setup.py build_ext -j8 --inplace > $d/build.log 2>&1); rc_build=$?; tail -3 $d/build.log >> $log
echo "== demo with change" >> $log; rc_mut=$(run_demo)
echo "== repository test suite with change" >> $log
(cd $d && timeout 3000 /venv/bin/python wt_python.py pytest cherab -n 6 --timeout=900 -W ignore > $d/suite.log 2>&1)
grep -E "^(FAILED|ERROR)|passed|failed" $d/suite.log | tail -8 >> $log
suite=$(grep -E "[0-9]+ (passed|failed)" $d/suite.log | tail -1)
echo "== quick check with change" >> $log
VERIF_REPO=$d ./check $id --tier quick > $d/check.log 2>&1; rc_check=$?
grep -E "^VIOLATION|^  key=|HELD|VIOLATED|INCONCLUSIVE" $d/check.log | cut -c1-300 | head -8 >> $log
keys=$(grep -E "^  key=" $d/check.log | sed 's/^  key=\([^ ]*\).*/\1/' | head -6 | tr '\n' ' ')
/venv/bin/python - "$src" "$out" "$id" "$rc_clean" "$applies" "$rc_build" "$rc_mut" "$suite" "$rc_check" "$keys" <<'PY'
import json, sys, os
src, out, pid, rc_clean, applies, rc_build, rc_mut, suite, rc_check, keys = sys.argv[1:]
meta = {}
try: meta = json.load(open(os.path.join(src, "meta.json")))
except Exception: pass
meta.update({"property": pid, "confirmed": {
  "demo_exit_unchanged_tree": int(rc_clean), "patch_applies_to_current_HEAD": applies == "true", "build_exit": int(rc_build),
  "demo_exit_with_change": int(rc_mut), "repo_suite_with_change": suite, "quick_check_exit_with_change": int(rc_check),
  "quick_check_keys": keys.split(), "ran": ["tools/confirm_seed.sh: scratch copy of /repo working tree, patch -p1, setup.py build_ext --inplace, demo via import redirect, pytest cherab -n 6, VERIF_REPO=<scratch> ./check %s --tier quick" % pid]}})
json.dump(meta, open(os.path.join(out, "meta.json"), "w"), indent=1)
ok = rc_clean == "0" and applies == "true" and rc_build == "0" and rc_mut != "0" and "passed" in suite and "failed" not in suite
print("%s: valid=%s caught=%s (clean=%s mut=%s suite='%s' check=%s keys=%s)" % (os.path.basename(out), ok, rc_check == "1", rc_clean, rc_mut, suite.strip(), rc_check, keys))
PY
tools/scratch.sh rm $sc
